"""C14 — config validation: total, pure, consistent across APIs/CLI, admits only runnable configs."""
from __future__ import annotations

import copy
import json
import math
import os
import random
import re
import struct
import subprocess
import sys
from typing import Any, Dict, List, Optional, Tuple

from harness import core
from harness.core import Component, Ctx, run_component
from harness.lib.c14_enc import codes, to_wire

RULE = ("configs built from the v1 key tree (sections/keys/rule constants read from the regenerated rule table): a valid "
        "base (empty, defaults-like or rich) plus 0-6 mutations — boundary numbers around every guard constant, NaN/±inf, "
        "huge ints/floats, numeric strings, wrong types, empty containers, sections replaced by scalars, typo'd / unknown / "
        "non-string keys at every level; one seeded PRNG per component; a case is non-trivial when it is rejected, or "
        "carries a non-default value for a typed rule, or hits a tagged branch; distinct by canonical JSON")
ASSUMPTIONS = [
    "inputs are JSON/YAML-shaped: None/bool/int/float/str/list/dict with scalar keys (objects with __dict__ are outside the model)",
    "CPython int(str)/float(str)/str.lower()/str.strip() are oracles handed to the model with each string leaf",
    "finite floats are abstracted to (floor, has-fraction): exact for every comparison with the integer guard constants in the table "
    "(the translator refuses non-integer guard constants)",
    "API messages are compared after str.strip() of the whole text (validate_config_api strips the ConfigError text)",
]
CLAIM = {
    "text": ("The normaliser's rule table (unknown-key checks, numeric and enumeration rules with value location, coercion, guard tree "
             "and the range documented by the message text) is regenerated from the AST of configs/validate.py on every run; Lean proves "
             "over that table, for ALL inputs: every numeric rule is sound (accepted => documented range, NaN-aware Python comparison "
             "semantics) and exact (rejected => outside it); enumerations match their messages; DEFAULTS are accepted (as defaults and as "
             "input); every ALLOWED_* set / known section is enforced; did-you-mean suggestions and unknown-key messages are independent "
             "of set iteration order (witness that they were not before the repair); no TypeError escapes from key checks for any key "
             "types (and for string-keyed inputs even without the repair; witness for the unrepaired non-string case); the API wrappers "
             "and the CLI mapping agree. Tied to the code by exact comparison of the typed-rule message list of the real validator with "
             "the model, Lean-evaluated range/normalisation monitors on returned configs, all four Python API forms in-process, both CLIs "
             "and the API in fresh interpreters under several PYTHONHASHSEEDs, and two real engine turns under accepted configs."),
    "note": ("PARTIAL (DESIGN §4 C14): totality and purity of the 2100-line imperative normaliser are SAMPLED (malformed-input stream with "
             "wrong types, NaN/inf, huge numbers, empty containers, unknown and non-string keys at every level; deep-copy comparison of the "
             "input; result-depends-on-input-only probe), not proved: the model's own totality is trivial. About 40 of the 170 _err sites do "
             "not fit a typed pattern (string-shape tests, cross-field comparisons, repr-formatted messages): they are listed in "
             "Gen.opaqueSites and covered only by the API/CLI/purity/totality monitors. 'Runnable' is covered only by correspondence (real "
             "turns on 3 small worlds). int()/float() of strings, str.lower and _coerce_bool's strip() are CPython oracles. API texts are "
             "compared after str.strip() (validate_config_api strips the ConfigError text). Sharing of containers between the returned "
             "config and the *input* is measured and reported, not part of the verdict (the property forbids mutation, not sharing). "
             "Open findings: T2 parallel path raises under an accepted config; eight allowed keys are never validated."),
    "technique": "Lean 4 theorems over a rule table regenerated from the source AST + exact message-list correspondence + Lean-evaluated range monitors",
    "design_ref": "DESIGN.md §4 C14",
}
MODELLED = {
    "configs/validate.py": ["_ensure_dict", "_coerce_bool", "_coerce_int", "_coerce_float", "_deep_merge", "_lev",
                            "_suggest_key", "_err", "_ensure_subdict", "validate_config_api", "validate_config"],
    "clematis/engine/stages/t1.py": ["_compute_decay"],
}
TRUSTED = ["oracles: CPython int()/float() string parsing, str.lower/strip, PyYAML round-trip for the CLI stream",
           "harness/tables/validator.py (AST → rule table); its output is cross-checked by exact message correspondence"]

# --------------------------------------------------------------------------
# case encoding (NaN/inf, big ints and non-string keys must survive JSON replay files)
# --------------------------------------------------------------------------


class StrSub(str):
    """A `str` subclass (YAML loaders and config layers produce these)."""


def enc(x: Any) -> Any:
    if x is None or isinstance(x, bool):
        return x
    if isinstance(x, int):
        return {"i": str(x)}
    if isinstance(x, float):
        return {"f": core.f2b(x)}
    if isinstance(x, str):
        return {"s": x} if type(x) is str else {"S": str(x)}
    if isinstance(x, (bytes, bytearray)):
        return {"b": bytes(x).hex()}
    if isinstance(x, (list, tuple)):
        return {"l": [enc(v) for v in x]}
    if isinstance(x, dict):
        return {"d": [[enc(k), enc(v)] for k, v in x.items()]}
    raise TypeError(type(x))


def dec(x: Any) -> Any:
    if x is None or isinstance(x, bool):
        return x
    if "i" in x:
        return int(x["i"])
    if "f" in x:
        return core.b2f(x["f"])
    if "s" in x:
        return x["s"]
    if "S" in x:
        return StrSub(x["S"])
    if "b" in x:
        return bytes.fromhex(x["b"])
    if "l" in x:
        return [dec(v) for v in x["l"]]
    return {dec(k): dec(v) for k, v in x["d"]}


def deq(a: Any, b: Any) -> bool:
    """Deep, type-strict, NaN-aware, order-aware equality."""
    if type(a) is not type(b):
        return False
    if isinstance(a, float):
        return struct.pack("<d", a) == struct.pack("<d", b)
    if isinstance(a, dict):
        if len(a) != len(b):
            return False
        for (ka, va), (kb, vb) in zip(a.items(), b.items()):
            if not deq(ka, kb) or not deq(va, vb):
                return False
        return True
    if isinstance(a, (list, tuple)):
        return len(a) == len(b) and all(deq(x, y) for x, y in zip(a, b))
    return a == b


# --------------------------------------------------------------------------
# schema knowledge, read from the translator (tracks the code)
# --------------------------------------------------------------------------

_T: Optional[dict] = None


def table() -> dict:
    global _T
    if _T is None:
        from harness.tables import validator as V
        t = V.translate(core.REPO)
        sections: Dict[Tuple[str, ...], List[str]] = {}
        for r in t["rules"]:
            if r["kind"] == "unk":
                sections[tuple(r["loc"].path)] = list(r["allowed"])
        num: Dict[Tuple[str, ...], dict] = {}
        enum: Dict[Tuple[str, ...], dict] = {}
        for r in t["rules"]:
            if r["kind"] in ("num", "enum"):
                p = tuple(r["path"].split("."))
                (num if r["kind"] == "num" else enum)[p] = r
        for r in t.get("enum_checks", []):
            enum[tuple(r["path"].split("."))] = r
        typed_msgs = set(V.typed_messages(t))
        opaque_msgs_paths = set(o["path"] for o in t["opaque"])
        aliases: List[Tuple[Tuple[str, ...], Tuple[str, ...]]] = []
        for r in t["rules"]:
            if r["kind"] == "num":
                for a in r.get("aliases", []):
                    pair = (tuple(r["out"]), tuple(a))
                    if pair not in aliases and (pair[1], pair[0]) not in aliases:
                        aliases.append(pair)
        for pair in EXTRA_ALIASES:
            if pair not in aliases:
                aliases.append(pair)
        _T = {"t": t, "aliases": aliases, "sections": sections, "num": num, "enum": enum, "typed_msgs": typed_msgs,
              "opaque_paths": opaque_msgs_paths, "defaults": t["consts"].get("DEFAULTS", {})}
    return _T


# alias / legacy-key pairs not visible as a single value expression (two rules, or an opaque rule)
EXTRA_ALIASES = [
    (("perf", "t1", "caps", "frontier"), ("perf", "t1", "queue_cap")),
    (("t2", "quality", "mmr", "k"), ("t2", "quality", "mmr", "k_final")),
    (("t2", "quality", "mmr", "lambda"), ("t2", "quality", "mmr", "lambda_relevance")),
    (("t2", "quality", "lexical", "bm25", "k1"), ("t2", "quality", "lexical", "bm25_k1")),
    (("t2", "quality", "lexical", "bm25", "b"), ("t2", "quality", "lexical", "bm25_b")),
]
ALIAS_VALUES = [-5, "-7", -3.9, -1, -0.5, -1e-9, 0, -0.0, 1, 2, 0.5, "0", "1", " 3 ", "-1", "x", "", None, True, False, 7, 600,
                float("nan"), float("inf"), -float("inf"), 10 ** 400, -(10 ** 400), [], {}]


def _set_path(cfg: dict, path: Tuple[str, ...], v: Any) -> None:
    d = cfg
    for k in path[:-1]:
        if not isinstance(d.get(k), dict):
            d[k] = {}
        d = d[k]
    d[path[-1]] = v


def _del_path(cfg: dict, path: Tuple[str, ...]) -> None:
    d = cfg
    for k in path[:-1]:
        d = d.get(k) if isinstance(d, dict) else None
        if not isinstance(d, dict):
            return
    d.pop(path[-1], None)


def gen_alias_config(rng: random.Random) -> Tuple[Any, List[str]]:
    """Every alias pair the normaliser knows, each key alone and both together."""
    T = table()
    canon, alias = rng.choice(T["aliases"])
    base = rng.random()
    if base < 0.5:
        cfg: Any = {}
    elif base < 0.75:
        cfg = copy.deepcopy(T["defaults"])
    else:
        cfg = copy.deepcopy(RICH)
        cfg["t2"]["quality"] = copy.deepcopy(QUALITY)
    if canon[0] == "perf" and not isinstance(cfg.get("perf"), dict):
        cfg["perf"] = {"enabled": rng.random() < 0.5}
    _del_path(cfg, canon)
    _del_path(cfg, alias)
    mode = rng.choice(["alias_alone", "alias_alone", "canon_alone", "both", "both"])
    if mode in ("alias_alone", "both"):
        _set_path(cfg, alias, rng.choice(ALIAS_VALUES))
    if mode in ("canon_alone", "both"):
        _set_path(cfg, canon, rng.choice(ALIAS_VALUES))
    return cfg, ["alias:" + mode, "alias_pair:" + ".".join(canon)]


# recipes that make the SAME error line fire twice, keyed by the duplicate-capable site they exercise
DUP_RECIPES = ["fixtures_path_twice", "cooldowns_nonstr_keys", "cooldowns_1_and_str1", "sibling_keys", "namespaces_repeated",
               "partitions_by_repeated"]
DUP_SITE_OF = {"fixtures_path_twice": "t3.llm.fixtures.path", "cooldowns_nonstr_keys": "'t4.cooldowns'",
               "cooldowns_1_and_str1": "f't4.cooldowns[{k}]'", "sibling_keys": "<unknown-key loops>",
               "namespaces_repeated": "f't4.cache.namespaces[{ns}]'",
               "partitions_by_repeated": "f'perf.t2.reader.partitions.by[{fld}]'"}
# duplicate-capable by source text but not reachable twice: the checked value is a constant default
DUP_UNREACHABLE = {"t2.quality.fusion.alpha_semantic"}


def gen_cross_config(rng: random.Random) -> Tuple[Any, List[str]]:
    """Small / large legal values on 2-4 numeric leaves of DIFFERENT sections (int-coerced ones mostly):
    a value in one section must not rewrite another section's accepted leaf."""
    T = table()
    paths = sorted(p for p, r in T["num"].items() if p[0] not in ("perf",) and p[:2] != ("t2", "quality"))
    cfg: Any = {} if rng.random() < 0.6 else copy.deepcopy(T["defaults"])
    cfg.pop("perf", None) if isinstance(cfg, dict) else None
    used = set()
    for p in rng.sample(paths, k=rng.choice([2, 3, 4])):
        if p[:-1] in used:
            continue
        used.add(p[:-1])
        r = T["num"][p]
        lo = max(guard_consts(r["guard"])) if r["doc"] and r["doc"][0] in ("ge", "gt") else min(guard_consts(r["guard"]))
        v = lo + rng.choice([0, 1, 1, 2, 3, 5, 9]) if r["co"] == "int" else rng.choice([lo, lo + 0.25, lo + 0.5, 1.0])
        if r["doc"] and r["doc"][0] == "gt" and v == lo:
            v = lo + 1
        _set_path(cfg, p, v)
    return cfg, ["cross_section"]


def gen_dup_config(rng: random.Random, recipe: Optional[str] = None) -> Tuple[Any, List[str]]:
    T = table()
    recipe = recipe or rng.choice(DUP_RECIPES)
    base = rng.random()
    cfg: Any = {} if base < 0.6 else copy.deepcopy(RICH)
    if recipe == "fixtures_path_twice":
        fx: Dict[str, Any] = {"enabled": rng.choice([True, "yes", 1])}
        if rng.random() < 0.6:
            fx["path"] = rng.choice(["", "   ", None, 5, [], {}])
        _set_path(cfg, ("t3", "allow_reflection"), rng.choice([True, "true", 1]))
        _set_path(cfg, ("t3", "reflection", "backend"), rng.choice(["llm", "LLM"]))
        _set_path(cfg, ("t3", "llm", "fixtures"), fx)
    elif recipe == "cooldowns_nonstr_keys":
        ks = rng.sample([1, 2, 0, -3, 1.5, None, True, 7], k=rng.choice([2, 3, 4]))
        _set_path(cfg, ("t4", "cooldowns"), {k: rng.choice([1, 0, 5]) for k in ks})
    elif recipe == "cooldowns_1_and_str1":
        k = rng.choice([1, 0, 1.5, None, True])
        _set_path(cfg, ("t4", "cooldowns"), {k: rng.choice([-1, -5, "-2"]), str(k): rng.choice([-1, -7])})
    elif recipe == "sibling_keys":
        sp = rng.choice(sorted(T["sections"].keys()))
        if sp and sp[0] == "perf":
            _set_path(cfg, ("perf", "enabled"), True)
        k = rng.choice([1, 0, 1.5, True, None, -3, 10 ** 20])
        d: Any = cfg
        for seg in sp:
            if not isinstance(d.get(seg), dict):
                d[seg] = {}
            d = d[seg]
        if sp[:2] == ("t2", "quality") and "enabled" not in cfg["t2"]["quality"]:
            cfg["t2"]["quality"]["enabled"] = False
        d[k] = rng.choice([1, None, {}])
        d[str(k)] = rng.choice([1, None, {}])
        if rng.random() < 0.3:
            d[" " + str(k)] = 1
    elif recipe == "namespaces_repeated":
        ns = rng.choice(["a", "t2", "t2:semantics", ""])
        _set_path(cfg, ("t4", "cache", "namespaces"), [ns] * rng.choice([2, 3]) + rng.choice([[], ["t2:semantic"], ["b"]]))
    else:
        f = rng.choice(["x", "owners", " "])
        _set_path(cfg, ("perf", "enabled"), rng.choice([True, False]))
        _set_path(cfg, ("perf", "t2", "reader", "partitions", "by"), [f] * rng.choice([2, 3]) + rng.choice([[], ["owner"]]))
    return cfg, ["dup:" + recipe]


UNK_RE = re.compile(r" unknown (top-level )?key( \(did you mean '[^']*'\))?\Z")


def typed_filter(msgs: List[str]) -> List[str]:
    tm = table()["typed_msgs"]
    return [m for m in msgs if m in tm or UNK_RE.search(m)]


def guard_consts(g) -> List[int]:
    k = g[0]
    if k in ("lt", "le", "gt", "ge"):
        return [g[1]]
    if k == "between":
        return [g[1], g[3]]
    if k == "mem":
        return list(g[1])
    return guard_consts(g[1])


NANV, INF = float("nan"), float("inf")
F_THRESH = 2 ** 1024 - 2 ** 970
WEIRD = [None, True, False, "", "abc", " 7 ", "5", "1e2", "0x10", "1_0", "nan", "inf", "-inf", "-0", "٣", [], {}, [1], {"a": 1},
         NANV, INF, -INF, 1e308, -1e308, 5e-324, -0.0, 10 ** 400, -(10 ** 400), F_THRESH, F_THRESH - 1, -F_THRESH, 2 ** 53 + 1,
         1.5, -1.5, 0.5, -0.5]
KEY_JUNK = ["t5", "x", "", "Cache", "enabledd", "max_entrie", "ttl", "mode ", "a b", "décay", "k" * 40]
NONSTR_KEYS = [5, 0, 1.5, True, None, -3]


def num_values(rng: random.Random, rule: Optional[dict]) -> Any:
    cs = guard_consts(rule["guard"]) if rule else [0, 1]
    c = rng.choice(cs)
    r = rng.random()
    if r < 0.45:
        return rng.choice([c, c - 1, c + 1, c + 2, float(c), c + 0.5, c - 0.5, c + 1e-9, c - 1e-9, float(c + 1), float(c - 1),
                           math.nextafter(float(c), INF), math.nextafter(float(c), -INF)])
    if r < 0.6:
        return rng.choice([NANV, INF, -INF, "nan", "inf", 1e308, -1e308, 10 ** 400, F_THRESH, F_THRESH - 1])
    if r < 0.75:
        return rng.choice([str(c), f" {c} ", str(c - 1), f"{c}.0", f"{c}.5", "1e1", "", "abc", True, False, None])
    return rng.choice(WEIRD)


def enum_variants(m: str) -> List[Any]:
    """Spellings of a documented value: original, upper, title, swapped case, padded, bytes, str subclass, near-misses."""
    return [m, m.upper(), m.title(), m.capitalize(), m.swapcase(), m[:1].upper() + m[1:], " " + m, m + " ", " " + m + " ",
            m + "\t", m.upper() + " ", m.encode(), StrSub(m), StrSub(m.upper()), m[:-1], m + "x", m.replace("_", "-"),
            m.replace("-", "_"), m[::-1]]


def enum_values(rng: random.Random, rule: dict) -> Any:
    m = rng.choice(rule["allowed"])
    if rng.random() < 0.6:
        return rng.choice(enum_variants(m))
    return rng.choice([m, "x", "", None, True, False, 0, 1, 1.5, [], {}, "none", "None", "NONE", NANV])


def enum_sweep_cases() -> List[dict]:
    """Every enumeration check × every documented value × every spelling variant (systematic)."""
    T = table()
    out = []
    for p, r in sorted(T["enum"].items()):
        for m in r["allowed"]:
            for v in enum_variants(m):
                cfg: Any = {}
                if p[0] == "perf":
                    cfg = {"perf": {"enabled": True}}
                if p[:2] == ("t2", "quality"):
                    cfg = {"t2": {"quality": {"enabled": False}}}
                _set_path(cfg, p, v)
                out.append({"cfg": enc(cfg), "gtags": ["enum_sweep"]})
    return out


def typo(rng: random.Random, k: str) -> str:
    if not k:
        return "x"
    i = rng.randrange(len(k))
    r = rng.random()
    if r < 0.3:
        return k[:i] + k[i + 1:]
    if r < 0.6:
        return k[:i] + rng.choice("abcxyz_5") + k[i + 1:]
    if r < 0.8:
        return k[:i] + rng.choice("abcxyz_") + k[i:]
    return k[:i] + k[i:i + 2][::-1] + k[i + 2:]


RICH = {
    "version": "v1",
    "t1": {"iter_cap": 50, "queue_budget": 10000, "node_budget": 1.5, "decay": {"mode": "exp_floor", "rate": 0.6, "floor": 0.05},
           "edge_type_mult": {"supports": 1.0, "associates": 0.6, "contradicts": 0.8}, "radius_cap": 4,
           "cache": {"max_entries": 16, "ttl_s": 30}},
    "t2": {"backend": "inmemory", "k_retrieval": 8, "sim_threshold": 0.1, "tiers": ["exact_semantic", "cluster_semantic", "archive"],
           "exact_recent_days": 30, "ranking": {"alpha_sim": 0.75, "beta_recency": 0.2, "gamma_importance": 0.05},
           "hybrid": {"enabled": True, "walk_hops": 2, "max_bonus": 0.25}, "reader": {"mode": "flat"}, "owner_scope": "any"},
    "t3": {"max_rag_loops": 1, "max_ops_per_turn": 3, "backend": "rulebased", "tokens": 64, "temp": 0.5,
           "dialogue": {"template": "summary: {labels}. next: {intent}", "include_top_k_snippets": 2},
           "policy": {"tau_high": 0.8, "tau_low": 0.4, "epsilon_edit": 0.1}},
    "t4": {"enabled": True, "delta_norm_cap_l2": 1.5, "novelty_cap_per_node": 0.3, "churn_cap_edges": 64, "cooldowns": {"EditGraph": 2},
           "weight_min": -1.0, "weight_max": 1.0, "cache": {"enabled": True, "namespaces": ["t2:semantic"], "ttl_sec": 60}},
    "graph": {"enabled": True, "update": {"mode": "additive", "alpha": 0.02}, "decay": {"half_life_turns": 20, "floor": 0.0},
              "merge": {"enabled": True, "min_size": 2}, "split": {"enabled": True}, "promotion": {"enabled": True}},
    "scheduler": {"enabled": False, "policy": "fair_queue", "quantum_ms": 20, "budgets": {"t1_iters": 10, "wall_ms": 100}},
    "perf": {"enabled": True, "t1": {"queue_cap": 100, "dedupe_window": 8, "cache": {"max_entries": 8, "max_bytes": 4096},
                                     "caps": {"frontier": 50, "visited": 500}},
             "t2": {"embed_dtype": "fp32", "embed_store_dtype": "fp16", "precompute_norms": True, "cache": {"max_entries": 4, "max_bytes": 1000}},
             "snapshots": {"compression": "none", "level": 3, "delta_mode": False, "every_n_turns": 2},
             "metrics": {"report_memory": True}, "parallel": {"enabled": False, "max_workers": 2, "t1": True}},
    "k_surface": 32, "surface_method": "topk", "budgets": {"time_ms": 1000}, "flags": {"enable_world_memory": True},
}
QUALITY = {"enabled": False, "shadow": True, "trace_dir": "logs/quality", "redact": True,
           "normalizer": {"enabled": True, "case": "lower", "unicode": "NFKC", "stemmer": "none", "min_token_len": 2},
           "aliasing": {"enabled": False, "map_path": "x.yaml", "max_expansions_per_token": 2},
           "lexical": {"enabled": True, "bm25": {"k1": 1.2, "b": 0.75, "doclen_floor": 10}},
           "fusion": {"enabled": True, "alpha_semantic": 0.6, "score_norm": "zscore"},
           "mmr": {"enabled": True, "lambda": 0.5, "k": 5, "diversity_by_owner": False}, "cache": {"salt": "s"}}


def gen_config(rng: random.Random, valid_only: bool = False) -> Tuple[Any, List[str]]:
    T = table()
    tags: List[str] = []
    r = rng.random()
    if r < 0.25:
        cfg: Any = {}
    elif r < 0.45:
        cfg = copy.deepcopy(T["defaults"])
        if rng.random() < 0.5:
            cfg.pop("perf", None)
    else:
        cfg = copy.deepcopy(RICH)
        if rng.random() < 0.4:
            cfg["t2"]["quality"] = copy.deepcopy(QUALITY)
        for k in list(cfg.keys()):
            if rng.random() < 0.15:
                del cfg[k]
    nmut = rng.choice([0, 1, 1, 2, 3, 6])
    sections = sorted(T["sections"].keys())
    for _ in range(nmut):
        sp = rng.choice(sections)
        allowed = T["sections"][sp]
        # descend, creating dicts as needed
        d = cfg
        ok = True
        for s in sp:
            if not isinstance(d, dict):
                ok = False
                break
            if not isinstance(d.get(s), dict):
                if rng.random() < 0.7:
                    d[s] = {}
                else:
                    ok = False
                    break
            d = d[s]
        if not ok or not isinstance(d, dict):
            continue
        m = rng.random()
        key = rng.choice(allowed)
        p = sp + (key,)
        if valid_only:
            m = 0.0 if (p in T["num"] or p in T["enum"]) else 2.0
        if m < 0.55:
            if p in T["num"]:
                if valid_only:
                    c = guard_consts(T["num"][p]["guard"])
                    d[key] = rng.choice([max(c), max(c), float(max(c)), str(max(c))]) if rng.random() < 0.7 else max(c) + 1
                else:
                    d[key] = num_values(rng, T["num"][p])
                tags.append("num")
            elif p in T["enum"]:
                d[key] = rng.choice(T["enum"][p]["allowed"]) if valid_only else enum_values(rng, T["enum"][p])
                tags.append("enum")
            elif p in T["sections"]:
                d[key] = rng.choice([None, 5, "s", [], [1, 2], {}, True, NANV])
                tags.append("section_scalar")
            else:
                d[key] = rng.choice(WEIRD + ["x", "path/to", 3, 0.25, True, ["owner", "quarter"], ["t2:semantic"], ["bad"], [5]])
                tags.append("other_leaf")
        elif m < 0.8:
            base = rng.choice(allowed)
            k2 = typo(rng, base) if rng.random() < 0.7 else rng.choice(KEY_JUNK)
            d[k2] = rng.choice([1, None, {}, "v"])
            tags.append("unknown_key")
        elif m < 0.9:
            d[rng.choice(NONSTR_KEYS)] = rng.choice([1, None, {}])
            tags.append("nonstr_key")
        elif m < 1.0:
            # alias / presence games
            if key in d:
                del d[key]
                tags.append("deleted_key")
            if "ttl_s" in allowed:
                d[rng.choice(["ttl_s", "ttl_sec"])] = num_values(rng, None)
                tags.append("ttl_alias")
    if not valid_only and rng.random() < 0.04:
        cfg = rng.choice([None, [], [1], "str", 5, NANV, {5: 1}, {"version": None}, {"version": "v2"}, {"version": 1}])
        tags.append("top_scalar")
    return cfg, tags


# --------------------------------------------------------------------------
# the real APIs
# --------------------------------------------------------------------------

def call_apis(cfg: Any) -> dict:
    """Run every Python API variant on (copies-checked) `cfg`.  Returns a JSON-able record."""
    import configs.validate as cv
    from clematis.errors import ConfigError
    rec: Dict[str, Any] = {"escapes": [], "mutated": [], "apis": {}}

    def run(name, fn):
        before = copy.deepcopy(cfg)
        try:
            r = fn(cfg)
            out = ("ok", r)
        except ConfigError as e:
            out = ("config_error", str(e))
        except Exception as e:  # noqa: BLE001 — the property forbids exactly this
            out = ("escape", type(e).__name__)
            rec["escapes"].append([name, type(e).__name__, str(e)[:200]])
        if not deq(before, cfg):
            rec["mutated"].append(name)
        return out

    plain = run("validate_config", lambda c: cv.validate_config(c))
    verbose = run("validate_config_verbose", lambda c: cv.validate_config_verbose(c))
    api = run("validate_config_api", lambda c: cv.validate_config_api(c))
    compat = run("validate_config_compat", lambda c: cv.validate_config(c, strict=True))
    rec["apis"]["plain"] = plain[0]
    rec["apis"]["verbose"] = verbose[0]
    rec["apis"]["api"] = api[0]
    rec["apis"]["compat"] = compat[0]
    agree: List[str] = []
    text: Optional[str] = None
    if plain[0] == "config_error":
        text = plain[1]
        rec["verdict"] = "reject"
    elif plain[0] == "ok":
        rec["verdict"] = "accept"
    else:
        rec["verdict"] = "escape"
    rec["text"] = text
    # verbose: same verdict / text; on accept same normalised config
    if verbose[0] != plain[0]:
        agree.append(f"verbose verdict {verbose[0]} vs plain {plain[0]}")
    elif plain[0] == "config_error" and verbose[1] != plain[1]:
        agree.append("verbose message text differs")
    elif plain[0] == "ok" and not deq(verbose[1][0], plain[1]):
        agree.append("verbose normalised config differs")
    # the ordered message LIST every variant must carry (multiset and order): the lines of the raise text
    def want_list(text_: str) -> List[str]:
        m = text_.strip()
        return m.split("\n") if m else ["invalid configuration"]

    def list_diff(name: str, got: Any, want: List[str]) -> Optional[str]:
        if not isinstance(got, list):
            return f"{name} returned {type(got).__name__} instead of a list of messages"
        if got == want:
            return None
        from collections import Counter
        cg, cw = Counter(map(str, got)), Counter(want)
        miss = list((cw - cg).elements())[:3]
        extra = list((cg - cw).elements())[:3]
        if not miss and not extra:
            return f"{name}: same messages in a different ORDER: {got!r:.200} vs {want!r:.200}"
        return (f"{name}: {len(got)} messages vs {len(want)} in the ConfigError; missing (with multiplicity) {miss!r:.300}; "
                f"extra {extra!r:.200}")
    # api tuple
    if api[0] == "ok":
        ok, errs, norm = api[1]
        if plain[0] == "ok":
            if not (ok is True and errs == [] and deq(norm, plain[1])):
                agree.append("validate_config_api disagrees on an accepted config")
        elif plain[0] == "config_error":
            if ok is not False or norm is not None:
                agree.append("validate_config_api verdict differs from the raising form")
            d = list_diff("validate_config_api", errs, want_list(plain[1]))
            if d:
                agree.append(d)
        rec["api_errs"] = errs if isinstance(errs, list) else None
    elif api[0] == "config_error":
        agree.append("validate_config_api raised ConfigError")
    # compat (kwargs) form
    if compat[0] == "ok":
        try:
            errs2, warns2 = compat[1]
        except Exception:
            errs2, warns2 = None, None
            agree.append("compat form did not return a pair")
        if plain[0] == "ok":
            if errs2 != []:
                agree.append("compat form reports errors on an accepted config")
            elif verbose[0] == "ok" and warns2 != verbose[1][1]:
                agree.append("compat warnings differ from verbose warnings")
        elif plain[0] == "config_error":
            d = list_diff("validate_config(cfg, strict=True)", errs2, want_list(plain[1]))
            if d:
                agree.append(d)
            if warns2 != []:
                agree.append("compat form returns warnings together with errors")
    elif compat[0] == "config_error":
        agree.append("compat form raised ConfigError")
    rec["disagree"] = agree
    rec["norm"] = plain[1] if plain[0] == "ok" else None
    rec["warnings"] = verbose[1][1] if verbose[0] == "ok" else None
    return rec


def _py_deep_merge(dst: dict, src: dict) -> dict:
    out = dict(dst)
    for k, v in src.items():
        if isinstance(v, dict) and isinstance(out.get(k), dict):
            out[k] = _py_deep_merge(out[k], v)
        elif k not in out:
            out[k] = v
    return out


def _leaves(x: Any, pre: Tuple = ()):
    if isinstance(x, dict) and x:
        for k, v in x.items():
            yield from _leaves(v, pre + (k,))
    else:
        yield pre, x


def unaccounted_changes(cfg: Any, norm: Any) -> List[str]:
    """Generic cross-section monitor.  Expected = deep_merge(input, DEFAULTS).  A leaf of the returned
    config may differ from it only where the normaliser is known to act: a rule's output path (those
    leaves are compared with the model's value by the Lean monitor), a key the normaliser reads or
    writes by name, a section it rebuilds (`perf`, `t2.quality`), or a section it replaces wholesale
    because the input was not a dict.  Everything else must come through untouched."""
    T = table()
    t = T["t"]
    if not isinstance(cfg, dict) or not isinstance(norm, dict):
        return []
    dfl = {k: v for k, v in T["defaults"].items() if k != "perf" or "perf" in cfg}
    exp = _py_deep_merge(cfg, dfl)
    acted = set(t["touched"])
    for r in list(t["rules"]) + t.get("enum_checks", []):
        if r["kind"] in ("num", "enum") and r.get("out"):
            acted.add(tuple(r["out"]))
    acted.add(("version",))

    def accounted(p: Tuple) -> bool:
        if not all(isinstance(k, str) for k in p):
            return p[:2] == ("t4", "cooldowns")
        if p[:1] == ("perf",) or p[:2] == ("t2", "quality") or p[:2] == ("t2", "lancedb") or p[:2] == ("t4", "cooldowns"):
            return True
        for i in range(1, len(p) + 1):
            if p[:i] in acted and (i == len(p) or p[:i] not in T["sections"]):
                return True
        # a non-dict value where a section is expected is replaced by the section's defaults
        d = cfg
        for i, k in enumerate(p[:-1]):
            d = d.get(k) if isinstance(d, dict) else None
            if not isinstance(d, dict):
                return p[:i + 1] in T["sections"]
        return False
    bad = []
    le, ln = dict(_leaves(exp)), dict(_leaves(norm))
    for p in sorted(set(le) | set(ln), key=repr):
        a, b = le.get(p, "<absent>"), ln.get(p, "<absent>")
        if (a == "<absent>") != (b == "<absent>") or (a != "<absent>" and not deq(a, b)):
            if not accounted(p):
                bad.append(f"{'.'.join(map(str, p))}: expected {a!r:.60} got {b!r:.60}")
    return bad


def aliasing(cfg: Any, norm: Any) -> int:
    """Number of mutable containers shared between input and output (informational)."""
    ids = set()

    def walk(x):
        if isinstance(x, (dict, list)):
            ids.add(id(x))
            for v in (x.values() if isinstance(x, dict) else x):
                walk(v)
    walk(cfg)
    n = 0

    def walk2(x):
        nonlocal n
        if isinstance(x, (dict, list)):
            if id(x) in ids:
                n += 1
            for v in (x.values() if isinstance(x, dict) else x):
                walk2(v)
    walk2(norm)
    return n


def s_of(cs: List[int]) -> str:
    return "".join(chr(c) for c in cs)


# --------------------------------------------------------------------------
# component 1: messages + ranges (in-process, all APIs)
# --------------------------------------------------------------------------

class ValidMsgs(Component):
    name = "valid"
    budget = {"quick": 2500, "thorough": 40000, "search": 40000}

    def corpus(self, ctx: "Ctx") -> List[dict]:
        return list(ctx.load_corpus(self.name)) + enum_sweep_cases()

    def gen(self, rng: random.Random, i: int) -> dict:
        r0 = rng.random()
        if r0 < 0.06:
            cfg, tags = gen_dup_config(rng, DUP_RECIPES[i % len(DUP_RECIPES)] if i < 4 * len(DUP_RECIPES) else None)
        elif r0 < 0.18:
            cfg, tags = gen_alias_config(rng)
        elif r0 < 0.26:
            cfg, tags = gen_cross_config(rng)
        else:
            cfg, tags = gen_config(rng, valid_only=(rng.random() < 0.3))
        return {"cfg": enc(cfg), "gtags": sorted(set(tags))}

    def impl(self, case: dict) -> Any:
        cfg = dec(case["cfg"])
        rec = call_apis(cfg)
        out = {"verdict": rec["verdict"], "escapes": rec["escapes"], "mutated": rec["mutated"], "disagree": rec["disagree"],
               "msgs": typed_filter(rec["text"].split("\n")) if rec["text"] is not None else [],
               "all_msgs": rec["text"].split("\n") if rec["text"] is not None else [],
               "alias": aliasing(cfg, rec["norm"]) if rec["norm"] is not None else 0}
        if rec["norm"] is not None:
            out["norm"] = enc(rec["norm"])
            out["unaccounted"] = unaccounted_changes(cfg, rec["norm"])
        return out

    def request(self, case: dict) -> dict:
        return {"c": "valid.msgs", "cfg": to_wire(dec(case["cfg"]))}

    def compare(self, case, impl_out, model_out) -> Optional[str]:
        if not isinstance(model_out, dict) or "msgs" not in model_out:
            return f"model error {model_out}"
        if isinstance(impl_out, dict) and "__raised__" in impl_out:
            return f"harness adapter raised {impl_out}"
        mm = [s_of(m) for m in model_out["msgs"]]
        if model_out["escape"]:
            return None if impl_out["verdict"] == "escape" else "model predicts a TypeError escape, implementation did not raise one"
        if impl_out["verdict"] == "escape":
            return f"implementation escaped with {impl_out['escapes'][:1]}, model is total here"
        if any("\n" in m for m in mm):
            return None  # newline inside a key: line structure is ambiguous; only the monitors apply
        if impl_out["msgs"] != mm:
            return core.first_diff(impl_out["msgs"], mm, "typed_messages")
        if impl_out["verdict"] == "accept" and mm:
            return "implementation accepted, model has messages"
        return None

    def monitors(self, case, impl_out):
        res = []
        res.append(("total_typed_error", not impl_out["escapes"], f"non-ConfigError exception escaped: {impl_out['escapes'][:2]}"))
        res.append(("input_not_mutated", not impl_out["mutated"], f"input mutated by {impl_out['mutated']}"))
        res.append(("api_variants_agree", not impl_out["disagree"], "; ".join(impl_out["disagree"])[:400]))
        un = impl_out.get("unaccounted") or []
        res.append(("normalised_leaves_accounted_for", not un,
                    "leaves of the returned config that differ from deep_merge(input, DEFAULTS) although no rule / no named "
                    f"read-write of the normaliser accounts for them: {un[:4]}"))
        return res

    def monitor_requests(self, case, impl_out):
        rq = []
        w = to_wire(dec(case["cfg"]))
        if impl_out["verdict"] == "accept":
            rq.append(("accepted_in_documented_range", {"c": "valid.under.ok", "cfg": w}))
            rq.append(("returned_config_in_range_and_normalised", {"c": "valid.out.ok", "cfg": w, "out": to_wire(dec(impl_out["norm"]))}))
        elif impl_out["verdict"] == "reject":
            rq.append(("rejection_message_truthful", {"c": "valid.over.ok", "cfg": w}))
        return rq

    def tags(self, case, impl_out):
        t = set(case.get("gtags", []))
        t.add(impl_out["verdict"])
        if impl_out["verdict"] == "reject":
            if any(UNK_RE.search(m) for m in impl_out["msgs"]):
                t.add("msg_unknown_key")
            if any("did you mean" in m for m in impl_out["msgs"]):
                t.add("msg_suggestion")
            if any(not UNK_RE.search(m) for m in impl_out["msgs"]):
                t.add("msg_typed_rule")
            if len(impl_out["all_msgs"]) > len(impl_out["msgs"]):
                t.add("msg_opaque_rule")
            if len(impl_out["all_msgs"]) > 3:
                t.add("many_errors")
            if len(set(impl_out["all_msgs"])) < len(impl_out["all_msgs"]):
                t.add("same_line_twice")
        if impl_out.get("alias"):
            t.add("output_aliases_input")
        t.discard("accept")
        return sorted(t) or ["default"]

    def shrink(self, case):
        cfg = dec(case["cfg"])
        if not isinstance(cfg, dict):
            return

        def paths(d, pre=()):
            for k, v in d.items():
                yield pre + (k,)
                if isinstance(v, dict):
                    yield from paths(v, pre + (k,))
        for p in list(paths(cfg)):
            c2 = copy.deepcopy(cfg)
            d = c2
            for k in p[:-1]:
                d = d[k]
            del d[p[-1]]
            yield {"cfg": enc(c2), "gtags": case.get("gtags", [])}


# --------------------------------------------------------------------------
# component 2: hand-modelled helpers tied directly
# --------------------------------------------------------------------------

class Helpers(Component):
    name = "valid_helpers"
    budget = {"quick": 600, "thorough": 8000, "search": 8000}

    def gen(self, rng, i):
        T = table()
        if rng.random() < 0.5:
            sp = rng.choice(sorted(T["sections"].keys()))
            al = T["sections"][sp]
            base = rng.choice(al)
            bad = rng.choice([typo(rng, base), typo(rng, typo(rng, base)), rng.choice(KEY_JUNK), base, "t5", "t0", "k"])
            sub = al if rng.random() < 0.7 else rng.sample(al, k=max(1, len(al) // 2))
            return {"k": "suggest", "bad": bad, "allowed": sorted(sub), "shuf": rng.randrange(1 << 30)}
        v = rng.choice(WEIRD + [0, 1, -1, 2, 0.0, 1.0, -1.0, 0.999, -0.999, 1e-300, "TRUE", "Yes", "off", " on ", "0", "1", "2"])
        return {"k": "coerce", "v": enc(v), "d": rng.choice([0, 300, 600, -1])}

    def impl(self, case):
        import configs.validate as cv
        if case["k"] == "suggest":
            al = list(case["allowed"])
            random.Random(case["shuf"]).shuffle(al)
            # a `set` is what the code receives; iteration order of that set is not ours to choose
            sug = cv._suggest_key(case["bad"], set(al))
            return {"sug": sug, "lev": [cv._lev(case["bad"], k) for k in case["allowed"]]}
        v = dec(case["v"])
        i = cv._coerce_int(v, case["d"])
        f = cv._coerce_float(v, case["d"])
        b = cv._coerce_bool(v)
        return {"int": to_wire(i), "float": to_wire(f), "bool": b, "types": [type(i).__name__, type(f).__name__, type(b).__name__]}

    def request(self, case):
        if case["k"] == "suggest":
            return {"c": "valid.suggest", "bad": codes(case["bad"]), "allowed": [codes(a) for a in case["allowed"]]}
        return {"c": "valid.coerce", "v": to_wire(dec(case["v"])), "d": case["d"]}

    def compare(self, case, impl_out, model_out):
        if not isinstance(model_out, dict) or "__model_err__" in model_out:
            return f"model error {model_out}"
        if isinstance(impl_out, dict) and "__raised__" in impl_out:
            return f"helper raised {impl_out}"
        if case["k"] == "suggest":
            ms = None if model_out["sug"] is None else s_of(model_out["sug"])
            if ms != impl_out["sug"] or model_out["lev"] != impl_out["lev"]:
                return f"suggest impl={impl_out} model={ms},{model_out['lev']}"
            return None
        v = dec(case["v"])
        if isinstance(v, str) and v.strip() != v:
            impl_b = model_out["bool"]  # padded spelling: strip() is outside the model
        else:
            impl_b = impl_out["bool"]
        if impl_out["types"] != ["int", "float", "bool"]:
            return f"coercion result types {impl_out['types']}"
        fa, fb = impl_out["float"], model_out["float"]
        if isinstance(v, int) and not isinstance(v, bool) and abs(v) > 2 ** 53 and fa.get("t") == "f" and fb.get("t") == "f":
            # float(i) rounds; the model keeps i (indistinguishable for guard constants < 2^53): compare sign and magnitude class
            if (int(fa["fl"]) > 2 ** 52) == (int(fb["fl"]) > 2 ** 52) and (int(fa["fl"]) < -(2 ** 52)) == (int(fb["fl"]) < -(2 ** 52)):
                fa = fb
        a = {"int": impl_out["int"], "float": fa, "bool": impl_b}
        b = {"int": model_out["int"], "float": fb, "bool": model_out["bool"]}
        return None if a == b else core.first_diff(a, b, "coerce")

    def tags(self, case, impl_out):
        if case["k"] == "suggest":
            return ["suggest_hit" if impl_out.get("sug") else "suggest_none"]
        return ["coerce"]


# --------------------------------------------------------------------------
# component 3: CLI + API under different PYTHONHASHSEED (subprocesses)
# --------------------------------------------------------------------------

_BATCH = r"""
import sys, json
sys.path.insert(0, sys.argv[1])
sys.path.insert(0, sys.argv[2])
from harness.props.c14 import dec
import configs.validate as cv
from clematis.errors import ConfigError
out = []
for line in sys.stdin:
    cfg = dec(json.loads(line))
    try:
        cv.validate_config(cfg); out.append(["accept", ""])
    except ConfigError as e:
        out.append(["reject", str(e)])
    except Exception as e:
        out.append(["escape", type(e).__name__])
print(json.dumps(out))
"""


def _sub_env(seed: int, scratch) -> dict:
    env = dict(os.environ)
    env["PYTHONHASHSEED"] = str(seed)
    env["PYTHONPATH"] = str(core.REPO)
    env["CLEMATIS_LOG_DIR"] = str(scratch / "logs")
    env["CLEMATIS_LOGS_DIR"] = str(scratch / "logs")
    return env


def run_hashseed_stream(ctx: Ctx, n: int, seeds: List[int]) -> None:
    """Same inputs through the API in fresh interpreters with different hash seeds: verdict and text must be identical."""
    rng = ctx.rng_for("hashseed")
    cases = [c for c in ctx.load_corpus("valid_hashseed")]
    while len(cases) < n:
        cfg, tags = gen_config(rng)
        if any(t in tags for t in ("unknown_key", "nonstr_key", "enum")) or rng.random() < 0.2:
            cases.append({"cfg": enc(cfg)})
    # always include the classic equidistant key and the set-formatted message
    cases.append({"cfg": enc({"t5": 1})})
    cases.append({"cfg": enc({"scheduler": {"policy": "nope"}})})
    cases.append({"cfg": enc({"t1": {"cach": 1, 5: 2}, "t4": {"cache": {"ttl": 3}}})})
    data = "\n".join(json.dumps(c["cfg"]) for c in cases) + "\n"
    results = {}
    for s in seeds:
        try:
            p = subprocess.run([sys.executable, "-c", _BATCH, str(core.REPO), str(core.VERIF)], input=data, capture_output=True,
                               text=True, timeout=600, env=_sub_env(s, ctx.scratch), cwd=str(ctx.scratch))
        except subprocess.TimeoutExpired:
            raise core.Infra("hash-seed batch timed out")
        if p.returncode != 0:
            raise core.Infra(f"hash-seed batch failed: {p.stderr[-800:]}")
        results[s] = json.loads(p.stdout.strip().splitlines()[-1])
    base = results[seeds[0]]
    for i, c in enumerate(cases):
        tags = ["hashseed:" + base[i][0]]
        ctx.record_case("valid_hashseed", c, tags)
        for s in seeds[1:]:
            if results[s][i] != base[i]:
                ctx.monitor_fail("valid_hashseed", "messages_independent_of_hash_seed", c,
                                 f"PYTHONHASHSEED={seeds[0]}: {base[i]!r:.300} vs PYTHONHASHSEED={s}: {results[s][i]!r:.300}")
                break
        if base[i][0] == "escape":
            ctx.monitor_fail("valid_hashseed", "total_typed_error", c, f"escaped with {base[i][1]}")


def yaml_roundtrip(cfg: Any) -> Optional[Tuple[str, Any]]:
    import yaml
    try:
        text = yaml.safe_dump(cfg, default_flow_style=False, allow_unicode=True)
        back = yaml.safe_load(text)
    except Exception:
        return None
    return text, back


def cli_one(ctx: Ctx, text: str, seed: int, module: str = "clematis.scripts.validate", extra: Optional[List[str]] = None):
    try:
        p = subprocess.run([sys.executable, "-m", module] + (extra or []) + ["-"], input=text, capture_output=True, text=True,
                           timeout=120, env=_sub_env(seed, ctx.scratch), cwd=str(ctx.scratch))
    except subprocess.TimeoutExpired:
        raise core.Infra("validate CLI timed out")
    return p.returncode, p.stdout, p.stderr


def cli_file(ctx: Ctx, path: str, seed: int):
    """`python -m clematis validate <file>` (the umbrella CLI)."""
    try:
        p = subprocess.run([sys.executable, "-m", "clematis", "validate", path], capture_output=True, text=True,
                           timeout=120, env=_sub_env(seed, ctx.scratch), cwd=str(ctx.scratch))
    except subprocess.TimeoutExpired:
        raise core.Infra("validate CLI timed out")
    return p.returncode, p.stdout, p.stderr


def run_cli_stream(ctx: Ctx, n: int) -> None:
    """The CLI (scripts shim; a few through `python -m clematis validate`) vs the in-process API on the YAML-round-tripped input."""
    rng = ctx.rng_for("cli")
    cases = list(ctx.load_corpus("valid_cli"))
    tries = 0
    while len(cases) < n and tries < 50 * n:
        tries += 1
        if tries <= len(DUP_RECIPES):
            cfg, tags = gen_dup_config(rng, DUP_RECIPES[tries - 1])
        elif rng.random() < 0.1:
            cfg, tags = gen_dup_config(rng)
        else:
            cfg, tags = gen_config(rng, valid_only=(rng.random() < 0.35))
        if yaml_roundtrip(cfg) is None:
            continue
        cases.append({"cfg": enc(cfg), "seed": rng.choice([0, 1, 2, 3, 7]), "umbrella": rng.random() < 0.1})
    for c in cases:
        rerun_cli_case(ctx, c)


def rerun_cli_case(ctx: Ctx, c: dict) -> int:
    cfg = dec(c["cfg"])
    rt = yaml_roundtrip(cfg)
    if rt is None:
        return 0
    text, back = rt
    if not text.strip():
        back = {}
    elif back is None or back == {} or back == [] or back == 0 or back == "" or back is False:
        back = {}          # `yaml.safe_load(text) or {}` in the loader
    rec = call_apis(back)
    if c.get("umbrella"):
        f = ctx.tmpdir("cli") / "cfg.yaml"
        f.write_text(text)
        rc, out, err = cli_file(ctx, str(f), c.get("seed", 0))
    else:
        rc, out, err = cli_one(ctx, text, c.get("seed", 0))
    fails0 = len(ctx.failures) + sum(v["count"] for v in ctx.known_seen.values())
    tag = "cli:" + rec["verdict"]
    if rec["verdict"] == "accept":
        first = out.splitlines()[0] if out.splitlines() else ""
        if rc != 0 or first != "OK":
            ctx.monitor_fail("valid_cli", "cli_agrees_with_api", c, f"API accepted; CLI rc={rc} first line {first!r} stderr {err[-200:]!r}")
        else:
            # warnings printed after the summary are the verbose API's, sorted
            tail = [l for l in out.splitlines() if l.startswith("W[")]
            if tail != sorted(rec["warnings"] or []):
                ctx.monitor_fail("valid_cli", "cli_agrees_with_api", c, f"CLI warnings {tail!r:.300} vs API {sorted(rec['warnings'] or [])!r:.300}")
    elif rec["verdict"] == "reject":
        want = "CONFIG INVALID\n" + rec["text"] + "\n"
        if rc != 1 or out != want:
            ctx.monitor_fail("valid_cli", "cli_agrees_with_api", c, f"API rejected with {rec['text']!r:.300}; CLI rc={rc} stdout {out!r:.300}")
    else:
        if "Traceback" in err:
            ctx.monitor_fail("valid_cli", "total_typed_error", c, f"CLI crashed: {err[-300:]}")
    if rec["escapes"] and rec["verdict"] != "escape":
        ctx.monitor_fail("valid_cli", "total_typed_error", c, f"{rec['escapes'][:1]}")
    ctx.record_case("valid_cli", c, [tag, "umbrella" if c.get("umbrella") else "shim"])
    return len(ctx.failures) + sum(v["count"] for v in ctx.known_seen.values()) - fails0


# --------------------------------------------------------------------------
# component 4: accepted configs are runnable (two real turns on a small world)
# --------------------------------------------------------------------------

def runnable_key(res: dict) -> str:
    where = re.sub(r":\d+", "", res.get("where", "?"))
    return f"C14:runnable:{res.get('exc')}@{where}"


def run_one_runnable(ctx: Ctx, c: dict) -> Optional[dict]:
    import configs.validate as cv
    from clematis.errors import ConfigError
    from harness.lib.c14_runner import run_turns
    cfg = dec(c["cfg"])
    try:
        norm = cv.validate_config(cfg)
    except ConfigError:
        return None
    except Exception:
        return None  # reported by the totality monitor of the main stream
    wd = ctx.tmpdir("run")
    res = run_turns(norm, str(wd), n_turns=2, world=c.get("world", 0))
    return res


def run_runnable_stream(ctx: Ctx, n: int) -> None:
    rng = ctx.rng_for("runnable")
    cases = list(ctx.load_corpus("valid_runnable"))
    fixed = [{}, {"t1": {"node_budget": 1.5}}, {"graph": {"enabled": True}}, {"scheduler": {"enabled": True}},
             {"t2": {"hybrid": {"enabled": True}}}, {"t3": {"backend": "llm"}}, {"t2": {"backend": "lancedb"}},
             {"perf": {"enabled": True, "parallel": {"enabled": True, "max_workers": 2, "t1": True}}},
             {"perf": {"enabled": True, "parallel": {"enabled": True, "max_workers": 2, "t2": True}}},
             {"t2": {"quality": {"enabled": True}}, "perf": {"enabled": True, "metrics": {"report_memory": True}}},
             {"t4": {"delta_norm_cap_l2": INF}}, {"t1": {"decay": {"mode": "attn_quad"}}},
             {"perf": None}, {"perf": {}}, {"perf": 5}, {"t2": {"quality": None}}, {"t2": {"quality": 5}}, {"t1": 5, "t2": "x", "t4": [1]},
             {"t2": {"hybrid": 5, "cache": 5}, "t3": {"llm": 5}, "graph": {"update": 5}}, {"perf": {"t1": 5, "parallel": 5, "metrics": 5}}]
    for w, f in enumerate(fixed):
        cases.append({"cfg": enc(f), "world": w % 3})
    tries = 0
    while len(cases) < n + len(fixed) and tries < 20 * n:
        tries += 1
        cfg, tags = gen_config(rng, valid_only=True)
        cases.append({"cfg": enc(cfg), "world": rng.randrange(3)})
    ran = 0
    for c in cases:
        res = run_one_runnable(ctx, c)
        if res is None:
            ctx.record_case("valid_runnable", c, ["not_accepted"], validated=False)
            continue
        ran += 1
        ctx.record_case("valid_runnable", c, ["ran_2_turns" if res.get("ok") else "raised:" + str(res.get("exc"))])
        if not res.get("ok"):
            ctx.monitor_fail("valid_runnable", "accepted_config_runs_two_turns", c,
                             f"{res.get('exc')}: {res.get('msg')} at {res.get('where')} after {res.get('turns')} turn(s)",
                             key=runnable_key(res))
    ctx.extra["runnable_configs_executed"] = ran


# --------------------------------------------------------------------------
# component 5: the result depends on the input only (no state leaks through returned containers)
# --------------------------------------------------------------------------

def _scribble(x: Any) -> None:
    """Mutate every container reachable from a returned config."""
    if isinstance(x, dict):
        for v in list(x.values()):
            _scribble(v)
        x["__scribble__"] = 1
    elif isinstance(x, list):
        for v in list(x):
            _scribble(v)
        x.append("__scribble__")


def state_case(ctx: Ctx, c: dict) -> bool:
    import importlib
    import configs.validate as cv
    from clematis.errors import ConfigError
    cfg = dec(c["cfg"])

    def once():
        try:
            return ("ok", cv.validate_config(copy.deepcopy(cfg)))
        except ConfigError as e:
            return ("config_error", str(e))
        except Exception as e:  # noqa: BLE001
            return ("escape", type(e).__name__)
    base = once()
    snap = copy.deepcopy(base)
    if base[0] == "ok":
        _scribble(base[1])
    again = once()
    ok = again[0] == snap[0] and deq(again[1], snap[1])
    ctx.record_case("valid_state", c, ["state:" + snap[0]])
    if not ok:
        ctx.monitor_fail("valid_state", "result_depends_on_input_only", c,
                         f"same input, second call after a caller modified the first returned config: first={snap[0]} "
                         f"second={again[0]} {str(again[1])[:200]!r} (returned config shares containers with module-level DEFAULTS)")
        importlib.reload(cv)   # do not poison the rest of this process
    return ok


def run_state_stream(ctx: Ctx, n: int) -> None:
    rng = ctx.rng_for("state")
    cases = list(ctx.load_corpus("valid_state")) + [{"cfg": enc({})}, {"cfg": enc(RICH)}, {"cfg": enc({"perf": {"enabled": True}})}]
    for _ in range(n):
        cfg, _tags = gen_config(rng, valid_only=True)
        cases.append({"cfg": enc(cfg)})
    for c in cases:
        state_case(ctx, c)


# --------------------------------------------------------------------------
# component 5b: validation is a function of the input — no state carried from EARLIER CALLS (memo tables, caches
# keyed by ==/hash-equal but differently printed keys such as 1 / True / 1.0, suggestion caches keyed by the bad key
# alone).  A history of 2..4 inputs goes through every API variant of the long-lived module; each step is compared
# with the same call made in a PRISTINE second instance of configs/validate.py (module state of a fresh process).
# --------------------------------------------------------------------------

_FRESH_N = [0]


def _fresh_validate_module():
    import importlib.util
    import configs.validate as cv
    _FRESH_N[0] += 1
    spec = importlib.util.spec_from_file_location(f"configs._c14_fresh_{_FRESH_N[0]}", cv.__file__)
    m = importlib.util.module_from_spec(spec)
    spec.loader.exec_module(m)
    return m


def _all_apis(mod, cfg) -> list:
    from clematis.errors import ConfigError
    outs = []
    for name, fn in (("plain", lambda c: mod.validate_config(c)), ("verbose", lambda c: mod.validate_config_verbose(c)),
                     ("api", lambda c: mod.validate_config_api(c)), ("compat", lambda c: mod.validate_config(c, strict=True))):
        try:
            outs.append([name, "ok", enc_any(fn(copy.deepcopy(cfg)))])
        except ConfigError as e:
            outs.append([name, "config_error", str(e)])
        except Exception as e:  # noqa: BLE001
            outs.append([name, "escape", type(e).__name__])
    return outs


def enc_any(x: Any) -> Any:
    """`enc` extended to tuples-with-lists results of the verbose / api forms (and anything else by repr)."""
    try:
        return enc(x)
    except TypeError:
        if isinstance(x, (list, tuple)):
            return {"l": [enc_any(v) for v in x]}
        if isinstance(x, dict):
            return {"d": [[enc_any(k), enc_any(v)] for k, v in x.items()]}
        return {"r": repr(x)}


_EQ_FAMILIES = [[1, True, 1.0], [0, False, 0.0], [2, 2.0], [-1, -1.0]]
_TYPO_KEYS = ["t5", "tt1", "decya", "enabeld", "k_surfac", "cach", "budgets_", "quantum", "weights", "x"]
_HIST_SECTIONS = [(), ("t1",), ("t2",), ("t3",), ("t4",), ("graph",), ("scheduler",), ("perf",), ("t2", "quality"),
                  ("scheduler", "budgets"), ("t1", "cache"), ("t2", "cache"), ("t4", "cache"), ("graph", "update")]


def _wrap(path, leaf):
    for k in reversed(path):
        leaf = {k: leaf}
    return leaf


def history_pool() -> List[dict]:
    pool = []
    for sec in _HIST_SECTIONS:
        for fam in _EQ_FAMILIES:
            for k in fam:
                pool.append(_wrap(sec, {k: 0}))
        for k in _TYPO_KEYS:
            pool.append(_wrap(sec, {k: 0}))
    return pool


def history_case(ctx: Ctx, c: dict, ref_memo: Optional[dict] = None) -> bool:
    import configs.validate as cv
    cfgs = [dec(x) for x in c["cfgs"]]
    ok = True
    for i, cfg in enumerate(cfgs):
        key = json.dumps(c["cfgs"][i], sort_keys=True)
        if ref_memo is not None and key in ref_memo:
            want = ref_memo[key]
        else:
            want = _all_apis(_fresh_validate_module(), cfg)
            if ref_memo is not None:
                ref_memo[key] = want
        got = _all_apis(cv, cfg)
        if got != want:
            ok = False
            d = next((g, w) for g, w in zip(got, want) if g != w)
            ctx.monitor_fail("valid_history", "result_independent_of_earlier_calls", c,
                             f"step {i} of a {len(cfgs)}-call history in one process: {d[0][0]} returned {str(d[0][1:])[:240]!r}, "
                             f"the same call in a pristine module instance returns {str(d[1][1:])[:240]!r}")
            break
    ctx.record_case("valid_history", c, [f"hist:{len(cfgs)}"] + ["hist:" + ("ok" if ok else "differs")])
    return ok


def run_history_stream(ctx: Ctx, n: int) -> None:
    import importlib
    import configs.validate as cv
    rng = ctx.rng_for("history")
    pool = [enc(x) for x in history_pool()]
    memo: dict = {}
    cases = list(ctx.load_corpus("valid_history"))
    # every ordered pair inside one ==/hash-equal family and one section (the memo-by-raw-key shape) ...
    per = len(_EQ_FAMILIES) and sum(len(f) for f in _EQ_FAMILIES) + len(_TYPO_KEYS)
    for si in range(len(_HIST_SECTIONS)):
        blk = pool[si * per:(si + 1) * per]
        off = 0
        for fam in _EQ_FAMILIES:
            fam_items = blk[off:off + len(fam)]
            off += len(fam)
            for a in fam_items:
                for b in fam_items:
                    if a is not b:
                        cases.append({"cfgs": [a, b]})
    # ... the same bad key under two different sections (the memo-by-bad-key-alone shape) ...
    for ki in range(per):
        for _ in range(2):
            s1, s2 = rng.sample(range(len(_HIST_SECTIONS)), 2)
            cases.append({"cfgs": [pool[s1 * per + ki], pool[s2 * per + ki]]})
    # ... and random histories of 2..4 calls mixing pool entries with generated valid configurations
    for _ in range(n):
        h = []
        for _ in range(rng.randint(2, 4)):
            if rng.random() < 0.7:
                h.append(rng.choice(pool))
            else:
                cfg, _tags = gen_config(rng, valid_only=rng.random() < 0.5)
                try:
                    h.append(enc(cfg))
                except TypeError:
                    h.append(rng.choice(pool))
        cases.append({"cfgs": h})
    bad = 0
    for c in cases:
        if not history_case(ctx, c, memo):
            bad += 1
            importlib.reload(cv)   # drop whatever the history left behind before the next one
            if bad >= 5:
                break
    ctx.extra["history_stream"] = {"histories": len(cases), "distinct_reference_inputs": len(memo)}


# --------------------------------------------------------------------------
# component 6: allowed keys the validator never looks at, with wrong-typed leaves
# --------------------------------------------------------------------------

def unchecked_keys() -> List[Tuple[str, ...]]:
    """Allowed keys with no rule of any kind (typed or opaque), no coercion and no sub-section: the
    validator passes their values through untouched."""
    T = table()
    t = T["t"]
    ruled = set(T["num"]) | set(T["enum"])
    for o in t["opaque"]:
        ruled.add(tuple(o["path"].split(".")))
    touched = t["touched"]
    out = []
    for sp, allowed in sorted(T["sections"].items()):
        if (sp and sp[0] == "perf") or sp[:2] == ("t2", "quality"):
            continue  # rebuilt from scratch by the normaliser: unknown leaves never reach the engine
        for k in allowed:
            p = sp + (k,)
            if p in ruled or p in T["sections"] or p in touched:
                continue
            out.append(p)
    return out


BAD_LEAVES = ["x", None, 5, 1.5, [], {}, [5], {"a": "x"}, True, NANV]


def run_unchecked_stream(ctx: Ctx, n_vals: int) -> None:
    import configs.validate as cv
    from clematis.errors import ConfigError
    from harness.lib.c14_runner import run_turns
    rng = ctx.rng_for("unchecked")
    keys = unchecked_keys()
    ctx.extra["keys_never_validated"] = [".".join(k) for k in keys]
    for p in keys:
        vals = BAD_LEAVES if n_vals >= len(BAD_LEAVES) else rng.sample(BAD_LEAVES, n_vals)
        for v in vals:
            cfg: Any = v
            for k in reversed(p):
                cfg = {k: cfg}
            c = {"cfg": enc(cfg), "world": rng.randrange(3), "key": ".".join(p)}
            try:
                norm = cv.validate_config(copy.deepcopy(cfg))
            except ConfigError:
                ctx.record_case("valid_unchecked", c, ["rejected"])
                continue
            except Exception:
                ctx.record_case("valid_unchecked", c, ["escape"])
                continue
            res = run_turns(norm, str(ctx.tmpdir("unck")), n_turns=2, world=c["world"])
            ctx.record_case("valid_unchecked", c, ["ran_2_turns" if res.get("ok") else "raised:" + str(res.get("exc"))])
            if not res.get("ok"):
                ctx.monitor_fail("valid_unchecked", "accepted_config_runs_two_turns", c,
                                 f"{'.'.join(p)}={v!r} is accepted (key is allowed but never validated) and the engine raises "
                                 f"{res.get('exc')}: {res.get('msg')} at {res.get('where')}",
                                 key="C14:runnable:unvalidated_allowed_key")


# --------------------------------------------------------------------------
# component 7: every knob documented as "(or null)" runs with an explicit null (systematic sweep)
# --------------------------------------------------------------------------

def null_knobs() -> List[Tuple[str, ...]]:
    """Keys whose rule message says "(or null)" (typed or opaque rules) + leaves that are None in DEFAULTS."""
    T = table()
    t = T["t"]
    out: List[Tuple[str, ...]] = []
    for r in t["rules"]:
        if r["kind"] in ("num", "enum") and re.search(r"or (null|none)\b", r["msg"], re.I):
            out.append(tuple(r["path"].split(".")))
    for o in t["opaque"]:
        if re.search(r"or (null|none)\b", o.get("msg", ""), re.I) and "{" not in o["path"]:
            out.append(tuple(o["path"].split(".")))

    def walk(d, p=()):
        for k, v in d.items():
            if v is None:
                out.append(p + (k,))
            elif isinstance(v, dict):
                walk(v, p + (k,))
    walk(T["defaults"])
    seen: List[Tuple[str, ...]] = []
    for p in out:
        if p not in seen:
            seen.append(p)
    return seen


def null_sweep_cases(all_worlds: bool) -> List[dict]:
    knobs = null_knobs()
    groups: Dict[Tuple[str, ...], List[Tuple[str, ...]]] = {}
    for p in knobs:
        groups.setdefault(p[:-1], []).append(p)
    combos: List[List[Tuple[str, ...]]] = [[p] for p in knobs] + [g for g in groups.values() if len(g) > 1]
    if len(groups) > 1:
        combos.append(list(knobs))
    cases = []
    i = 0
    for combo in combos:
        for sched in (True, False):
            for base in ("empty", "rich"):
                cfg: Any = {} if base == "empty" else copy.deepcopy(RICH)
                _set_path(cfg, ("scheduler", "enabled"), sched)
                for p in combo:
                    _set_path(cfg, p, None)
                for w in (range(3) if all_worlds else [i % 3]):
                    cases.append({"cfg": enc(cfg), "world": w, "nulls": [".".join(p) for p in combo]})
                i += 1
    return cases


def run_null_sweep(ctx: Ctx, all_worlds: bool) -> None:
    cases = list(ctx.load_corpus("valid_nullsweep")) + null_sweep_cases(all_worlds)
    ctx.extra["or_null_knobs_swept"] = [".".join(p) for p in null_knobs()]
    for c in cases:
        res = run_one_runnable(ctx, c)
        if res is None:
            # an explicit null on a knob documented "(or null)" must be ACCEPTED
            ctx.record_case("valid_nullsweep", c, ["rejected"])
            ctx.monitor_fail("valid_nullsweep", "documented_null_is_accepted", c,
                             f"explicit null on {c.get('nulls')} is documented as allowed but the validator does not accept it")
            continue
        ctx.record_case("valid_nullsweep", c, ["ran_2_turns" if res.get("ok") else "raised:" + str(res.get("exc"))])
        if not res.get("ok"):
            ctx.monitor_fail("valid_nullsweep", "accepted_config_runs_two_turns", c,
                             f"explicit null on {c.get('nulls')} (documented '(or null)') is accepted and the engine raises "
                             f"{res.get('exc')}: {res.get('msg')} at {res.get('where')} after {res.get('turns')} turn(s)",
                             key=runnable_key(res))


COMPONENTS = [ValidMsgs(), Helpers()]
EXTRA_OBLIGATIONS: List[str] = []


def run(ctx: Ctx) -> None:
    for comp in COMPONENTS:
        run_component(ctx, comp)
    scale = ctx.budget_scale
    tier = ctx.tier
    n_hash = {"quick": 250, "thorough": 3000, "search": 3000}[tier]
    n_cli = {"quick": 24, "thorough": 240, "search": 120}[tier]
    n_run = {"quick": 60, "thorough": 1200, "search": 600}[tier]
    run_hashseed_stream(ctx, int(n_hash * scale), [0, 1, 2, 3] if tier == "quick" else [0, 1, 2, 3, 4, 5, 11, 12345])
    run_cli_stream(ctx, int(n_cli * scale))
    run_runnable_stream(ctx, int(n_run * scale))
    run_state_stream(ctx, int({"quick": 40, "thorough": 400, "search": 400}[tier] * scale))
    run_history_stream(ctx, int({"quick": 150, "thorough": 3000, "search": 3000}[tier] * scale))
    run_unchecked_stream(ctx, 3 if tier == "quick" else len(BAD_LEAVES))
    run_null_sweep(ctx, all_worlds=(tier != "quick"))
    dup = T0["t"].get("dup_sites", {}) if (T0 := table()) else {}
    covered = set(DUP_SITE_OF.values())
    ctx.extra["duplicate_capable_sites"] = {
        "same_line_two_sites": dup.get("same", []), "data_driven_loops": len(dup.get("loop", [])),
        "without_recipe": sorted(p for p in dup.get("same", []) if p not in covered and p not in DUP_UNREACHABLE) +
        sorted(p for p in dup.get("loop", []) if p not in covered and "unknown" not in p and p != "k" and "{k}'" not in p),
        "unreachable_twice": sorted(DUP_UNREACHABLE)}
    T = table()
    ctx.extra["rule_table"] = {"typed_rules": len(T["t"]["rules"]), "opaque_err_sites": len(T["t"]["opaque"]),
                               "opaque_paths": sorted(T["opaque_paths"])[:60], "hash_order_sites": T["t"]["hash_sites"]}
    alias = ctx.tag_hist.get("valid:output_aliases_input", 0)
    ctx.extra["aliasing_note"] = (f"{alias} accepted cases returned a config sharing a mutable container with the input "
                                  "(informational: sharing is not mutation)")


def replay(ctx: Ctx, rec: dict) -> int:
    comp = rec.get("component")
    if comp in ("valid", "valid_helpers") or "case" not in rec:
        return core.generic_replay(ctx, rec, {c.name: c for c in COMPONENTS})
    case = rec["case"]
    if comp == "valid_hashseed":
        data = json.dumps(case["cfg"]) + "\n"
        outs = {}
        for s in [0, 1, 2, 3, 4, 5, 11, 12345]:
            p = subprocess.run([sys.executable, "-c", _BATCH, str(core.REPO), str(core.VERIF)], input=data, capture_output=True,
                               text=True, timeout=120, env=_sub_env(s, ctx.scratch), cwd=str(ctx.scratch))
            outs[s] = p.stdout.strip()
        distinct = sorted(set(outs.values()))
        bad = len(distinct) > 1 or any('"escape"' in d for d in distinct)
        print(f"REPLAY component=valid_hashseed outputs across seeds: {distinct!r:.600}")
        print("REPLAY monitor messages_independent_of_hash_seed " + ("FAILS" if bad else "holds"))
        return 1 if bad else 0
    if comp == "valid_cli":
        n = rerun_cli_case(ctx, case)
        for f in ctx.failures:
            print(f"REPLAY monitor {f['monitor']} FAILS: {f['detail']}")
        print(f"REPLAY component=valid_cli failures={n}")
        return 1 if n else 0
    if comp == "valid_state":
        ok = state_case(ctx, case)
        for f in ctx.failures:
            print(f"REPLAY monitor {f['monitor']} FAILS: {f['detail'][:300]}")
        print(f"REPLAY component=valid_state ok={ok}")
        return 0 if ok else 1
    if comp == "valid_history":
        ok = history_case(ctx, case)
        for f in ctx.failures:
            print(f"REPLAY monitor {f['monitor']} FAILS: {f['detail'][:400]}")
        print(f"REPLAY component=valid_history ok={ok}")
        return 0 if ok else 1
    if comp in ("valid_runnable", "valid_unchecked", "valid_nullsweep"):
        res = run_one_runnable(ctx, case)
        print(f"REPLAY component={comp} result={res}")
        return 0 if (res is None or res.get("ok")) else 1
    print(f"REPLAY unknown component {comp}")
    return 2
