"""C10 — agent batch driver commits exactly like a sequential loop: correspondence + monitors.

Components
  select    clematis/engine/orchestrator/parallel.py:_select_independent_batch (+ _resolve_graphs_for_agent) on
            generated states (dict / attribute states, every shape the resolver accepts) vs the Lean model; the
            selection clauses (`selectOkB`) evaluated by Lean on the implementation's `picked`
  batch     the REAL `_run_agents_parallel_batch` (gate, selection, real `_run_turn_compute` with its ctx clone,
            read-only snapshot and log capture, staging with drain-flush-retry, `_sort_turn_buffers`, commit, final
            drain) with `Orchestrator.run_turn` and `apply_changes` replaced by a scripted world following the
            dry-run contract the repo's identity test encodes (and, in a separate stream, violating it), the
            staging limit set through the orchestrator's `enable_staging` hook.  Per case: the batch run, the real
            sequential loop (the driver's own fall-back) over the computed tasks, the same batch with an unlimited
            staging buffer, and the same batch with the compute phases executed up front in real threads that are
            forced to FINISH in a generated order.  Compared: model (compiled Lean `runDriver`) vs batch run
            exactly (results, state, every file's bytes, computed tasks, raise/no raise); real-vs-real monitors.
  gate      the exact decision table of `_agents_parallel_enabled` over (perf.enabled, perf.parallel.enabled,
            perf.parallel.agents, max_workers): which path the real driver takes (enable_staging called, dry-run vs
            full turns) vs the model's `parallelOn`; monitors gate_closed_takes_sequential_fallback / gate_open_takes_batch_path
  history   2-3 batches in one process on ONE ctx / live state / staging context with no clean-up in between, earlier
            batches aborting in the compute phase (turn raises), in the commit phase (apply_changes raises after logs
            were staged) or on a record above the byte limit; every batch vs the same batch from the same pre-state on a
            fresh context and vs the real sequential loop
  limitsweep  one contract batch under EVERY staging limit 1, 1+stride, … past the sum of all estimates, each against
            the real sequential loop (every served limit gives the same bytes; every limit >= the largest record
            estimate is served)
  fallback  the driver's sequential fall-back with the REAL pipeline and REAL apply_changes over 4-6 turns (snapshot
            cadence 2/3/4, on-apply cache busting) vs the same turns through Orchestrator.run_turn directly
  realpipe  the unmodified driver with the real stage pipeline on small rig worlds (known findings).
"""
from __future__ import annotations

import copy
import json
import os
import random
import shutil
import tempfile
import threading
import traceback
from pathlib import Path
from types import SimpleNamespace as SNS
from typing import Any, Dict, List, Optional, Tuple

from harness.core import Component, Ctx, run_component

RULE = ("seeded structured generators: select — 1..6 agent ids (pool with non-sorted and numeric-suffix ids, occasional duplicates), "
        "graph sets over a 5-graph pool (so overlaps are frequent) in every state shape the resolver reads, max_workers in -1..8; "
        "batch — 1..6 tasks, per-task scripts with 0..4 log records over identity/non-identity streams, payload pads 1 B..100 kB, "
        "deltas on own (contract) or foreign (off-contract) graphs, staging limits 1, around each record estimate, 95..415, "
        "multiples of the largest estimate, half the total, unlimited; CI normalisation on/off; worker limits 0..8 and gate flags; "
        "scripted turns that REUSE one payload dict across all their emits (cleared/refilled in between, mutated after the last emit; nested list/dict "
        "values fresh per emit), CI on and off, identity and non-identity streams; the scripted apply is non-idempotent (version bump, additive deltas) and records "
        "every hand-off with the identity of the task whose approved batch it received; a generated finishing order for the compute phases; turn ids of every shape (int, negative, '7', '007', non-numeric, empty string); "
        "gate — all 72 rows of the gate decision table every run; history — 2..3 batches per process history with injected aborts (apply raises, turn raises, tiny limit).  A case is non-trivial when it hits a non-default branch tag "
        "(backpressure_flush, overlap_skipped, worker_cap, retry_raises, off_contract, multi_record_file, big_payload, ...); distinct by canonical JSON")
ASSUMPTIONS = [
    "the turn-compute function and apply_changes are parameters of the theorems; the contract hypotheses (a turn reads and writes only graphs of its own agent, "
    "the dry run emits no apply.jsonl record, every buffer carries the batch ctx's (turn_id, slice_idx)) are those of the repo's own identity test; the scripted world "
    "of the correspondence is proved to satisfy them (C10_world_contract)",
    "agent ids within one batch are distinct (the driver tests `aid not in picked`, so a task list naming one agent twice computes it twice: "
    "machine-checked witness C10_batch_duplicate_agent_witness; such task lists are only compared against the model, not against the sequential loop)",
    "turn ids: any shape (int, negative, numeric / zero-padded / non-numeric string) is carried through the model as an opaque payload token and must reach "
    "every line untouched (type-strict: file bytes are compared); buffers that return turn ids DIFFERENT from the batch ctx's (off-contract stream) use integer ids only "
    "(the `(1, str(tid), …)` branch of _sort_turn_buffers is not modelled); perf.* flags are booleans (perf.enabled may be absent) and max_workers an integer",
    "payload values are opaque tokens carrying len(str(v)) / truthiness (C16 record model); log file names have no directory part",
    "a turn may reuse and mutate the TOP-LEVEL payload dict between emits; in-place mutation of a nested container after it was emitted is outside the stream "
    "(the capture copy `dict(record)` is shallow, so such a turn would differ from the write-through path on the unchanged tree as well)",
    "compute phases are pure functions of the read-only snapshot (the real driver runs them in a plain for-loop; the finishing-order stream runs the real "
    "_run_turn_compute in threads forced to finish in a generated order and hands the buffers to the driver by task)",
]
CLAIM = {
    "text": ("Unbounded Lean theorems about the executable model of _run_agents_parallel_batch (compute/apply as parameters, the C16 LogStager model reused): "
             "selection is pairwise disjoint, at most max(1, workers), a subsequence of the input and greedy-maximal, and (distinct ids) exactly the picked agents are computed; "
             "under the dry-run contract and pairwise-disjoint graph sets the batch returns the same results, final state and per-file line sequences as the sequential loop "
             "(induction over the batch; for every CI setting and every staging limit under which nothing raises); the driver finishes iff every single record's estimate "
             "fits the limit, and for all such limits results, state and every file are identical (back-pressure flushes invisible); buffers are collected by task index, "
             "so any finishing order of the compute phases gives the same outcome. Tied to the code by driving the REAL driver (real _run_turn_compute, ctx clone, "
             "read-only snapshot, log capture, stager, writer) with a scripted world and comparing results, state and file bytes with the compiled model AND with the "
             "driver's own sequential loop (deciding), for limits from 1 byte up."),
    "note": ("Known findings (proposed): (1) a staging limit below one record's estimate makes the retry raise and the exception leaves the driver — after apply_changes "
             "already committed when the record is an apply record (C10_batch_limit_too_small*, negation of the all-limits reading machine-checked); (2) the real stage "
             "pipeline cannot run through the batch driver at all: run_turn's boot hook assigns to the ReadOnlyState (AttributeError), and with the snapshot hook neutralised "
             "_run_turn_compute does set() on T1's integer graphs_touched (TypeError); the dry run also skips T3. The real-pipeline clause of the statement is therefore only "
             "covered by these findings, not by a theorem. Contract clauses are necessary: witnesses C10_contract_apply_log_needed, C10_contract_key_needed. "
             "Deep immutability of the snapshot (freeze is shallow for lists) and string turn ids are not modelled. _resolve_graphs_for_agent's shape dispatch "
             "(dict vs attribute, agents vs graphs_by_agent) is modelled as resolveGraphs and covered by correspondence."),
    "technique": "Lean 4 induction over the batch + reuse of the C16 stager theorems; exact correspondence and real-vs-real differential on the real driver",
    "design_ref": "DESIGN.md §4 C10",
}
MODELLED = {
    "clematis/engine/orchestrator/parallel.py": ["_select_independent_batch", "_resolve_graphs_for_agent", "_sort_turn_buffers",
                                                 "_run_agents_parallel_batch", "_agents_parallel_enabled", "_run_turn_compute",
                                                 "_clone_ctx_for_agent", "_extract_dryrun_artifacts"],
    "clematis/engine/util/io_logging.py": ["LogStager", "default_key_for"],
}
TRUSTED = ["CPython dict insertion order / stable sort; contextvars give each thread its own LogMux",
           "the scripted world (harness) implements the same compute/apply functions as Clem.Batch.worldParams (checked by the exact correspondence itself)"]
DRIVER_MODULES = ["HLogs", "HBatch"]
TABLES = ["logs"]

KEY_LIMIT = "limit_below_record_estimate"   # finding key: C10:batch:limit_below_record_estimate
GRAPHS = ["G1", "G2", "G3", "G4", "G5"]
AGENT_POOLS = [["A", "B", "C", "D", "E", "F"], ["C", "A", "B", "F", "D", "E"], ["agent10", "agent2", "agent1", "b", "a", "Z"],
               ["z9", "z10", "é", "a b", "", "A"]]
STREAMS = ["t1.jsonl", "t2.jsonl", "t4.jsonl", "turn.jsonl", "health.jsonl", "t3_plan.jsonl", "foo.jsonl", "t1.jsonl", "t1.jsonl", "t4.jsonl"]
TURN_IDS = [0, 1, 7, 100, -3, 7, "7", "007", "1", "-5", "t-1", "turn9", ""]
PAD_SIZES = [1, 1, 5, 20, 60, 100, 150, 300, 1000, 4000, 8192, 100_000]

_SCRATCH: Optional[Path] = None


def scratch_dir(name: str) -> Path:
    global _SCRATCH
    if _SCRATCH is None or not _SCRATCH.exists():
        base = os.environ.get("CLEMATIS_LOG_DIR")
        root = Path(base).parent if base else Path(tempfile.gettempdir())
        root.mkdir(parents=True, exist_ok=True)
        _SCRATCH = Path(tempfile.mkdtemp(prefix="c10_", dir=str(root)))
    return Path(tempfile.mkdtemp(prefix=name + "_", dir=str(_SCRATCH)))


def drop_scratch() -> None:
    global _SCRATCH
    if _SCRATCH is not None:
        shutil.rmtree(_SCRATCH, ignore_errors=True)
        _SCRATCH = None


class with_env:
    def __init__(self, **kv):
        self.kv = kv

    def __enter__(self):
        self.old = {k: os.environ.get(k) for k in self.kv}
        for k, v in self.kv.items():
            if v is None:
                os.environ.pop(k, None)
            else:
                os.environ[k] = v

    def __exit__(self, *a):
        for k, v in self.old.items():
            if v is None:
                os.environ.pop(k, None)
            else:
                os.environ[k] = v


# ---------------------------------------------------------------------------
# states in the shapes `_resolve_graphs_for_agent` reads
# ---------------------------------------------------------------------------
AGENT_KINDS = ["agents", "agents", "gba", "gba", "both", "agents_none", "empty_entry", "none", "gba_none", "obj", "agents_empty",
               "profile_only", "obj_nographs", "obj_none", "entry_none", "profile_only_nogba"]


def build_agent_maps(agents_spec: List[list]) -> Tuple[dict, dict]:
    agents: Dict[str, Any] = {}
    gba: Dict[str, Any] = {}
    for aid, kind, g1, g2 in agents_spec:
        if kind == "agents":
            agents[aid] = {"graphs": list(g1)}
        elif kind == "agents_empty":
            agents[aid] = {"graphs": []}
            gba[aid] = list(g2)
        elif kind == "gba":
            gba[aid] = list(g1)
        elif kind == "both":
            agents[aid] = {"graphs": list(g1)}
            gba[aid] = list(g2)
        elif kind == "agents_none":
            agents[aid] = {"graphs": None}
            gba[aid] = list(g1)
        elif kind == "empty_entry":
            agents[aid] = {}
            gba[aid] = list(g1)
        elif kind == "profile_only":          # a record without any graph list: graphs_by_agent decides
            agents[aid] = {"name": aid, "role": "x"}
            gba[aid] = list(g1)
        elif kind == "profile_only_nogba":
            agents[aid] = {"name": aid}
        elif kind == "obj_nographs":          # attribute-style record without .graphs
            agents[aid] = SNS(name=aid)
            gba[aid] = list(g1)
        elif kind == "obj_none":
            agents[aid] = SNS(graphs=None)
            gba[aid] = list(g1)
        elif kind == "entry_none":
            agents[aid] = None
            gba[aid] = list(g1)
        elif kind == "gba_none":
            gba[aid] = None
        elif kind == "obj":
            agents[aid] = SNS(graphs=list(g1))
    return agents, gba


def resolver_inputs(agents_spec: List[list]) -> Tuple[list, list]:
    """what the model's `resolveGraphs` is given: `agents[aid].graphs` (or null) and `gba[aid] or []`, as strings."""
    ag, gb = [], []
    for aid, kind, g1, g2 in agents_spec:
        s1, s2 = [str(x) for x in g1], [str(x) for x in g2]
        if kind in ("agents", "obj"):
            ag.append([aid, s1])
        elif kind == "agents_empty":
            ag.append([aid, []])
            gb.append([aid, s2])
        elif kind == "gba":
            gb.append([aid, s1])
        elif kind == "both":
            ag.append([aid, s1])
            gb.append([aid, s2])
        elif kind in ("agents_none", "empty_entry", "profile_only", "obj_nographs", "obj_none", "entry_none"):
            ag.append([aid, None])
            gb.append([aid, s1])
        elif kind == "profile_only_nogba":
            ag.append([aid, None])
        elif kind == "gba_none":
            gb.append([aid, []])
    return ag, gb


def resolved(agents_spec: List[list]) -> Dict[str, List[str]]:
    ag, gb = resolver_inputs(agents_spec)
    out: Dict[str, List[str]] = {}
    gbd = dict((a, g) for a, g in gb)
    agd = dict((a, g) for a, g in ag)
    for aid, *_ in agents_spec:
        if agd.get(aid) is not None:
            out[aid] = agd[aid]
        elif aid in gbd:
            out[aid] = gbd[aid]
        else:
            out[aid] = []
    return out


def gen_agents_spec(rng: random.Random, ids: List[str], disjoint: bool, simple: bool = False) -> List[list]:
    spec = []
    pool = list(GRAPHS)
    rng.shuffle(pool)
    uniq = []
    for a in ids:
        if a not in uniq:
            uniq.append(a)
    spare = pool[len(uniq):]
    for i, aid in enumerate(uniq):
        kind = rng.choice(["agents", "gba", "both"] if simple else AGENT_KINDS)
        if disjoint:
            g1 = [pool[i]] if i < len(pool) else []
            if spare and rng.random() < 0.3:
                g1 = g1 + [spare.pop()]
            g2 = list(g1)
        else:
            g1 = rng.sample(GRAPHS, rng.choice([0, 1, 1, 1, 2, 2, 3]))
            g2 = rng.sample(GRAPHS, rng.choice([0, 1, 2]))
        spec.append([aid, kind, g1, g2])
    return spec


# ---------------------------------------------------------------------------
# select
# ---------------------------------------------------------------------------
class SelectComp(Component):
    name = "select"
    budget = {"quick": 1500, "thorough": 20000, "search": 8000}

    def gen(self, rng, i):
        pool = rng.choice(AGENT_POOLS)
        n = rng.choice([1, 2, 2, 3, 3, 4, 5, 6])
        ids = rng.sample(pool, n)
        if rng.random() < 0.15 and n > 1:
            ids[rng.randrange(n)] = ids[rng.randrange(n)]
        if rng.random() < 0.1:
            ids.append("ghost")  # an agent the state does not know
        spec = gen_agents_spec(rng, [a for a in ids if a != "ghost"], disjoint=rng.random() < 0.25)
        if rng.random() < 0.15:  # graph ids that only coincide after str()
            for e in spec:
                e[2] = [rng.choice([1, "1", 2, "2", "G1"]) for _ in range(rng.choice([1, 2]))]
        return {"ids": ids, "agents": spec, "mw": rng.choice([-1, 0, 1, 1, 2, 2, 3, 3, 4, 6, 8]),
                "shape": rng.choice(["dict", "obj", "dict", "obj", "dict_no_gba", "obj_no_agents"])}

    def _state(self, case):
        agents, gba = build_agent_maps(case["agents"])
        sh = case["shape"]
        if sh == "dict":
            return {"agents": agents, "graphs_by_agent": gba}
        if sh == "obj":
            return SNS(agents=agents, graphs_by_agent=gba)
        if sh == "dict_no_gba":
            return {"agents": agents} if not gba else {"agents": agents, "graphs_by_agent": gba}
        return SNS(graphs_by_agent=gba) if not agents else SNS(agents=agents, graphs_by_agent=gba)

    def impl(self, case):
        from clematis.engine.orchestrator import parallel as par
        st = self._state(case)
        picked = par._select_independent_batch(list(case["ids"]), st, case["mw"])
        return {"picked": list(picked), "graphs": [sorted(par._resolve_graphs_for_agent(st, a)) for a in case["ids"]]}

    def request(self, case):
        ag, gb = resolver_inputs(case["agents"])
        return {"c": "c10.select", "ids": case["ids"], "agents": ag, "gba": gb, "mw": case["mw"]}

    def compare(self, case, impl_out, model_out):
        if not isinstance(model_out, dict) or "picked" not in model_out:
            return f"model error {model_out}"
        if "__raised__" in impl_out:
            return f"implementation raised {impl_out}"
        if impl_out["picked"] != model_out["picked"]:
            return f"picked: impl={impl_out['picked']} model={model_out['picked']}"
        mg = [sorted(set(g)) for g in model_out["graphs"]]
        if impl_out["graphs"] != mg:
            return f"resolved graph sets: impl={impl_out['graphs']} model={mg}"
        return None

    def monitor_requests(self, case, impl_out):
        ag, gb = resolver_inputs(case["agents"])
        return [("selection_disjoint_capped_subsequence_maximal",
                 {"c": "c10.select.mon", "ids": case["ids"], "agents": ag, "gba": gb, "mw": case["mw"], "picked": impl_out["picked"]})]

    def monitors(self, case, impl_out):
        gs = resolved(case["agents"])
        p = impl_out["picked"]
        bad = [(a, b) for i, a in enumerate(p) for b in p[i + 1:] if set(gs.get(a, [])) & set(gs.get(b, []))]
        return [("picked_pairwise_disjoint", not bad, f"overlapping picked agents {bad}"),
                ("picked_within_worker_limit", len(p) <= max(1, case["mw"]), f"{len(p)} picked, max_workers={case['mw']}")]

    def tags(self, case, impl_out):
        t = set()
        p = impl_out["picked"]
        if len(p) < len(case["ids"]):
            t.add("some_skipped")
        if len(p) == max(1, case["mw"]) and len(p) < len(case["ids"]):
            t.add("worker_cap")
        if len(set(case["ids"])) < len(case["ids"]):
            t.add("duplicate_ids")
        if case["mw"] < 1:
            t.add("mw_below_one")
        if any(not g for g in impl_out["graphs"]):
            t.add("empty_graph_set")
        return sorted(t) or ["default"]

    def shrink(self, case):
        for i in range(len(case["ids"])):
            if len(case["ids"]) > 1:
                yield dict(case, ids=case["ids"][:i] + case["ids"][i + 1:])


# ---------------------------------------------------------------------------
# the scripted world
# ---------------------------------------------------------------------------
def enc_value(v: Any, table: List[Any]) -> dict:
    table.append(v)
    d = {"t": "opq", "id": len(table) - 1, "truthy": bool(v), "slen": len(str(v))}
    try:
        d["asInt"] = int(v)
    except Exception:
        pass
    return d


def dec_value(j: dict, table: List[Any]) -> Any:
    t = j["t"]
    if t == "flt0":
        return 0.0
    if t == "tru":
        return True
    if t == "int":
        return int(j["n"])
    if t == "zeros":
        return {k: 0.0 for k in j["keys"]}
    return table[j["id"]]


def pad_of(n: int, ch: str = "x") -> str:
    return ch * n


def expand_fields(fields: List[list]) -> List[Tuple[str, Any]]:
    """case fields are JSON-stable: `["pad", n]` stands for a string of n characters."""
    out = []
    for k, v in fields:
        if k == "pad":
            out.append((k, pad_of(int(v))))
        else:
            out.append((k, v))
    return out


def script_of(case: dict, aid: str, text: str) -> dict:
    for sc in case["scripts"]:
        if sc["agent"] == aid and sc["text"] == text:
            return sc
    return {"agent": aid, "text": text, "turn": case["turn"], "slice": case["slice"], "reads": [], "logs": [], "deltas": [], "line": ""}


DELTA_SHAPES = ["tuple", "tuple", "obj", "obj", "dict", "obj_f"]
ZERO_SHAPES = ["obj_f", "obj_negzero", "obj", "dict", "tuple"]


def mk_delta(g: str, inc: int, shape: str):
    """an approved-delta entry in one of the shapes the hand-over must carry verbatim: ProposedDelta objects (int, float,
    -0.0 magnitudes), dict-shaped entries, plain pairs."""
    from clematis.engine.types import ProposedDelta
    if shape == "obj":
        return ProposedDelta("node", g, "weight", inc)
    if shape == "obj_f":
        return ProposedDelta("node", g, "weight", float(inc))
    if shape == "obj_negzero":
        return ProposedDelta("node", g, "weight", -0.0 if inc == 0 else float(inc))
    if shape == "dict":
        return {"target": g, "delta": inc}
    return (g, inc)


def read_delta(d) -> Tuple[Any, Any]:
    if isinstance(d, (tuple, list)):
        return d[0], d[1]
    if isinstance(d, dict):
        return d["target"], d["delta"]
    return d.target_id, d.delta


def script_deltas(sc: dict) -> list:
    shapes = sc.get("delta_shapes") or []
    return [mk_delta(g, inc, shapes[i] if i < len(shapes) else "tuple") for i, (g, inc) in enumerate(sc["deltas"])]


_HOLDERS: Optional[List[str]] = None
CLONE_LIST = ["cfg", "config", "now", "now_ms", "seed", "slice_idx", "slice_budgets"]


def ctx_holders() -> List[str]:
    """ctx attributes the stages read: derived from the source of run_turn (orchestrator/core.py) and apply_changes
    (engine/apply.py) — `ctx.X` / `getattr(ctx, "X"` — plus the driver's documented clone list."""
    global _HOLDERS
    if _HOLDERS is None:
        import re
        from harness.core import REPO
        names = set(CLONE_LIST)
        for rel in ("clematis/engine/orchestrator/core.py", "clematis/engine/apply.py"):
            try:
                src = (REPO / rel).read_text(encoding="utf-8")
            except Exception:
                continue
            names |= set(re.findall(r"\bctx\.([A-Za-z_][A-Za-z0-9_]*)", src))
            names |= set(re.findall(r"getattr\(\s*ctx\s*,\s*[\"']([A-Za-z_][A-Za-z0-9_]*)[\"']", src))
        _HOLDERS = sorted(n for n in names if n not in ("agent_id", "turn_id", "get") and not n.startswith("_"))
    return _HOLDERS


class RigAbort(Exception):
    """injected failure of a scripted turn / apply function."""


def turn_rank(t: Any) -> int:
    """`_sort_turn_buffers`' integer key of a turn id (`int(tid)`; non-numeric ids only occur batch-constant)."""
    try:
        return int(t)
    except Exception:
        return 0


class World:
    """installs the scripted turn function / apply function on the real orchestrator, restores on exit.
    `case`, `limit` and the log directory may be switched between batches (`set_batch`) without leaving the
    context: histories of several batches run on ONE orchestrator / ctx / contextvars context."""

    def __init__(self, case: dict, limit: int, logdir: Path):
        self.case, self.limit, self.logdir = case, limit, logdir
        self.computed: List[Tuple[str, str]] = []
        self.lock = threading.Lock()
        self.staging_calls = 0
        self.dry_calls = 0
        self.full_calls = 0
        self.apply_trace: List[list] = []    # [task id, deltas] per apply_changes call, in call order
        self.src_ctx = None                  # the ctx handed to the driver: every per-agent clone is compared with it
        self.clone_bad: List[str] = []

    def set_batch(self, case: dict, limit: int, logdir: Path) -> None:
        self.case, self.limit, self.logdir = case, limit, logdir
        os.environ["CLEMATIS_LOG_DIR"] = str(logdir)
        os.environ["CLEMATIS_LOGS_DIR"] = str(logdir)
        self.computed = []
        self.staging_calls = self.dry_calls = self.full_calls = 0
        self.apply_trace = []
        self.clone_bad = []

    def path_taken(self) -> dict:
        return {"path": "batch" if self.staging_calls else "sequential", "staging_calls": self.staging_calls,
                "dry_calls": self.dry_calls, "full_calls": self.full_calls}

    def __enter__(self):
        import clematis.engine.orchestrator as orch
        from clematis.engine.orchestrator import core as ocore
        from clematis.engine.util import io_logging as IOL
        from clematis.io.log import append_jsonl
        case = self.case
        try:
            IOL.disable_staging()   # every World starts from a clean staging context
        except Exception:
            pass
        self.orch, self.ocore, self.IOL = orch, ocore, IOL
        self.saved = {k: (hasattr(orch, k), getattr(orch, k, None)) for k in ("apply_changes", "enable_staging", "_run_turn_compute")}
        self.saved_run_turn = ocore.Orchestrator.run_turn
        self.env = with_env(CI=case["ci_env"] or None, CLEMATIS_LOG_DIR=str(self.logdir), CLEMATIS_LOGS_DIR=str(self.logdir))
        self.env.__enter__()
        world = self

        def apply_changes(ctx, state, t4):
            ds = [read_delta(d) for d in list(getattr(t4, "approved_deltas", []) or [])]
            ident = [g for g, _ in ds if isinstance(g, str) and g.startswith("__task__:")]
            ds = [d for d in ds if not (isinstance(d[0], str) and d[0].startswith("__task__:"))]
            world.apply_trace.append([ident[0][9:] if ident else "?", [[g, int(inc)] for g, inc in ds if g != "__raise__"]])
            if any(g == "__raise__" for g, _ in ds):
                raise RigAbort("apply")
            for g, inc in ds:
                state.graphs[g] = state.graphs.get(g, 0) + int(inc)   # additive, non-idempotent store double
            state.version += 1
            v = state.version
            return SNS(applied=len(ds), clamps=0, version_etag=v, snapshot_path=7 * v, metrics={"cache_invalidations": len(ds)})

        def run_turn(self_, ctx, state, text):
            aid = ctx.agent_id
            case = world.case
            sc = script_of(case, aid, text)
            dry = bool(getattr(ctx, "_dry_run_until_t4", False))
            src = world.src_ctx
            if src is not None and ctx is not src:
                bad = []
                for attr in ctx_holders():
                    if hasattr(src, attr):
                        if not hasattr(ctx, attr):
                            bad.append(f"{attr}: missing on the per-agent ctx")
                        elif getattr(ctx, attr) is not getattr(src, attr):
                            bad.append(f"{attr}: not the source ctx's object")
                if type(ctx.turn_id) is not type(src.turn_id) or ctx.turn_id != src.turn_id:
                    bad.append(f"turn_id: {ctx.turn_id!r} vs {src.turn_id!r}")
                if not hasattr(ctx, "_dry_run_until_t4"):
                    bad.append("_dry_run_until_t4: missing")
                with world.lock:
                    world.clone_bad.extend(bad)
            with world.lock:
                if dry:
                    world.dry_calls += 1
                else:
                    world.full_calls += 1
            graphs = state.graphs
            val = sum(graphs.get(g, 0) for g in sc["reads"])
            if sc["turn"] != case["turn"] or sc["slice"] != case["slice"]:
                # off-contract script: the buffer carries its own (turn_id, slice_idx)
                ctx.turn_id = sc["turn"]
                ctx.slice_idx = sc["slice"]
            scratch: Dict[str, Any] = {}
            for path, fields in sc["logs"]:
                if sc.get("reuse"):
                    # ONE payload dict for every line of the turn, cleared and refilled between emits (legal on the
                    # write-through path: each line is serialised when emitted); nested containers are fresh per emit
                    rec = scratch
                    rec.clear()
                else:
                    rec = {}
                rec.update((k, copy.deepcopy(v)) for k, v in expand_fields(fields))
                rec["turn"] = ctx.turn_id
                rec["val"] = val
                append_jsonl(path, rec)
            if sc.get("reuse"):
                scratch.clear()
                scratch["stale"] = "payload dict mutated after its last emit"
            line = f"{sc['line']}:{val}"
            with world.lock:
                world.computed.append((aid, text))
            if sc.get("raise_compute"):
                raise RigAbort("compute")
            # the approved batch carries its task's identity so that the scripted apply can count hand-offs per task
            deltas = script_deltas(sc) + ([("__raise__", 0)] if sc.get("raise_apply") else []) + [(f"__task__:{aid}/{text}", 0)]
            if dry:
                ctx._dryrun_t4 = SNS(approved_deltas=deltas)
                ctx._dryrun_utter = line
                ctx._dryrun_t1 = {"graphs_touched": list(sc["reads"])}
                ctx._dryrun_t2 = {}
                return SNS(line=line, events=[])
            res = apply_changes(ctx, state, SNS(approved_deltas=deltas))
            append_jsonl("apply.jsonl", {"turn": ctx.turn_id, "agent": aid, "applied": res.applied, "clamps": res.clamps,
                                         "version_etag": res.version_etag, "snapshot": res.snapshot_path,
                                         "cache_invalidations": int(res.metrics["cache_invalidations"]), "ms": 0.0})
            return SNS(line=line, events=[])

        orch.apply_changes = apply_changes
        def enable_staging_hook():
            world.staging_calls += 1
            return IOL.enable_staging(world.limit)
        orch.enable_staging = enable_staging_hook
        ocore.Orchestrator.run_turn = run_turn
        return self

    def __exit__(self, *a):
        orch = self.orch
        self.ocore.Orchestrator.run_turn = self.saved_run_turn
        for k, (had, v) in self.saved.items():
            if had:
                setattr(orch, k, v)
            else:
                try:
                    delattr(orch, k)
                except AttributeError:
                    pass
        try:
            self.IOL.disable_staging()
        except Exception:
            pass
        self.env.__exit__()


def eff_enabled(case: dict) -> bool:
    """the agent gate's first conjunct: perf.enabled (the master switch of every perf.* feature) AND
    perf.parallel.enabled — `_agents_parallel_enabled` after fix "agent-level parallel driver honours perf.enabled"."""
    return bool(case["enabled"]) and case.get("perf_enabled", True) is True


def make_state(case: dict):
    agents, gba = build_agent_maps(case["agents"])
    return SNS(graphs={g: v for g, v in case["world"]["graphs"]}, version=case["world"]["version"], agents=agents, graphs_by_agent=gba)


def make_ctx(case: dict, enabled: bool, agents_flag: bool):
    cfg = {"perf": {"enabled": True, "parallel": {"enabled": enabled, "agents": agents_flag, "max_workers": case["mw"]}}}
    pe = case.get("perf_enabled", True)   # perf.enabled IS part of the agent gate (master switch), see eff_enabled
    if pe is None:
        del cfg["perf"]["enabled"]
    else:
        cfg["perf"]["enabled"] = pe
    extra = {}
    shape = case.get("ctx_shape") or []
    if "now_ms" in shape:
        extra["now_ms"] = 1_767_225_600_000
    if "config_same" in shape:
        extra["config"] = cfg
    elif "config_copy" in shape:
        extra["config"] = copy.deepcopy(cfg)
    if "seed" in shape:
        extra["seed"] = 1234
    if "budgets" in shape:
        extra["slice_budgets"] = {"t1_iters": 3, "t2_k": 2}
    if "now" in shape:
        extra["now"] = "2026-01-01T00:00:00Z"
    kw = dict(turn_id=case["turn"], slice_idx=case["slice"], cfg=cfg, now_ms=None, agent_id="batch")
    kw.update(extra)
    return SNS(**kw)


def observe(state, res, logdir: Path, err: Optional[str]) -> dict:
    files = {}
    if logdir.exists():
        for p in sorted(logdir.iterdir()):
            files[p.name] = p.read_bytes().decode("utf-8", "replace")
    return {"ok": err is None, "err": err, "state": {"graphs": sorted([g, v] for g, v in state.graphs.items()), "version": state.version},
            "lines": [r.line for r in res] if res is not None else [], "files": files}


def run_real(case: dict, mode: str) -> dict:
    """mode: par | seq:<computed tasks> (via mode dict) | unlimited | perm"""
    from clematis.engine.orchestrator import parallel as par
    kind = mode if isinstance(mode, str) else mode["kind"]
    limit = case["limit"] if kind in ("par", "perm") else 32 * 1024 * 1024
    d = scratch_dir(kind)
    try:
        with World(case, limit, d) as w:
            state = make_state(case)
            if kind == "seq":
                ctx = make_ctx(case, False, False)
                tasks = [tuple(t) for t in mode["tasks"]]
            else:
                ctx = make_ctx(case, case["enabled"], case["agents_flag"])
                tasks = [tuple(t) for t in case["tasks"]]
            w.src_ctx = ctx
            if kind == "perm":
                # compute phases in real threads, forced to FINISH in the order case["perm"]; buffers handed over by task
                base = par._make_readonly_snapshot(state)
                order = [i for i in case["perm"] if i < len(tasks)]
                done: Dict[int, Any] = {}
                errs: List[str] = []
                gates = {i: threading.Event() for i in order}
                if order:
                    gates[order[0]].set()

                def worker(i: int):
                    try:
                        buf = par._run_turn_compute(ctx, base, tasks[i][0], tasks[i][1])
                    except Exception as e:  # pragma: no cover
                        errs.append(f"{type(e).__name__}: {e}")
                        buf = None
                    gates[i].wait(timeout=60)
                    done[i] = buf
                    k = order.index(i)
                    if k + 1 < len(order):
                        gates[order[k + 1]].set()

                ths = [threading.Thread(target=worker, args=(i,)) for i in order]
                for t in ths:
                    t.start()
                for t in ths:
                    t.join(timeout=120)
                if errs:
                    return observe(state, None, d, "compute:" + errs[0])
                w.computed.clear()
                asked: List[Tuple[str, str]] = []
                by_task = {tasks[i]: done[i] for i in order}

                def handover(ctx_, base_, aid, text):
                    asked.append((aid, text))
                    return by_task[(aid, text)]
                w.orch._run_turn_compute = handover
            res, err = None, None
            if kind != "perm":
                asked = []
            try:
                res = par._run_agents_parallel_batch(ctx, state, list(tasks))
            except RuntimeError as e:
                err = "backpressure" if str(e) == "LOG_STAGING_BACKPRESSURE" else f"RuntimeError:{e}"
            except RigAbort as e:
                err = f"abort:{e}"
            out = observe(state, res, d, err)
            out.update(w.path_taken())
            out["applies"] = [list(x) for x in w.apply_trace]
            out["clone_bad"] = sorted(set(w.clone_bad))
            par_on = bool(eff_enabled(case) and ctx.cfg["perf"]["parallel"]["agents"] and case["mw"] > 1)
            out["computed"] = [list(t) for t in (asked if (kind == "perm" and par_on) else w.computed)]
            return out
    finally:
        shutil.rmtree(d, ignore_errors=True)


# ---------------------------------------------------------------------------
# batch component
# ---------------------------------------------------------------------------
def est_of_fields(fields: List[list], val_len: int = 2) -> int:
    return sum(len(str(k)) + len(str(v)) for k, v in expand_fields(fields)) + 3 + val_len + 7 + 2


def contract_ok(case: dict, computed: List[list]) -> bool:
    gs = resolved(case["agents"])
    ids = [a for a, _ in computed]
    for i, a in enumerate(ids):
        for b in ids[i + 1:]:
            if set(gs.get(a, [])) & set(gs.get(b, [])):
                return False
    for aid, text in computed:
        sc = script_of(case, aid, text)
        own = set(gs.get(aid, []))
        if not set(sc["reads"]) <= own or not {g for g, _ in sc["deltas"]} <= own:
            return False
        if any(p == "apply.jsonl" for p, _ in sc["logs"]):
            return False
        if sc["turn"] != case["turn"] or sc["slice"] != case["slice"]:
            return False
    return True


def key_const(case: dict, computed: List[list]) -> bool:
    return all(script_of(case, a, t)["turn"] == case["turn"] and script_of(case, a, t)["slice"] == case["slice"] for a, t in computed)


def apply_once(run: dict) -> Optional[str]:
    """C10_batch_applies_each_once on an observed run: no task's approved batch is handed to apply twice; when the
    driver finishes every executed task's batch was handed over exactly once, in commit order."""
    ids = [i for i, _ in run["applies"]]
    dup = sorted({i for i in ids if ids.count(i) > 1})
    if dup:
        return f"approved batch handed to apply more than once for {dup}"
    want = [f"{a}/{t}" for a, t in run["computed"]]
    if run["ok"] and len(want) == len(set(want)) and sorted(ids) != sorted(want):
        return f"finished, but apply was called for {ids} while the executed tasks are {want}"
    return None


def approved_verbatim(case: dict, run: dict) -> Optional[str]:
    """what reaches apply_changes for a task is that task's approved list verbatim: same length, order, multiplicity."""
    for ident, got in run["applies"]:
        aid, _, text = ident.partition("/")
        want = [[g, int(inc)] for g, inc in script_of(case, aid, text)["deltas"]]
        if got != want:
            sc = script_of(case, aid, text)
            return (f"task {ident}: approved {want} (shapes {sc.get('delta_shapes')}) but apply received {got}")
    return None


def max_record_estimate(unl: dict) -> Optional[int]:
    """`LogStager.stage`'s estimate of every record of the (unlimited) run, from what reached the files."""
    if not unl["ok"]:
        return None
    mx = 0
    for text in unl["files"].values():
        for l in text.split("\n")[:-1]:
            try:
                rec = json.loads(l)
            except Exception:
                return None
            mx = max(mx, sum(len(str(k)) + len(str(v)) for k, v in rec.items()) + 2)
    return mx


class BatchComp(Component):
    name = "batch"
    budget = {"quick": 700, "thorough": 16000, "search": 3000}

    def gen(self, rng, i):
        style = rng.choice(["contract"] * 6 + ["overlap"] * 2 + ["off_reads", "off_writes", "off_applylog", "off_keys", "dup_agent", "gate"])
        pool = rng.choice(AGENT_POOLS[:3])
        n = rng.choice([1, 2, 2, 3, 3, 3, 4, 4, 5, 6])
        ids = rng.sample(pool, n)
        if style == "dup_agent" and n > 1:
            ids[-1] = ids[0]
        disjoint = style not in ("overlap",)
        spec = gen_agents_spec(rng, ids, disjoint=disjoint and n <= len(GRAPHS), simple=rng.random() < 0.6)
        gs = resolved(spec)
        turn, sl = rng.choice(TURN_IDS), rng.choice([0, 0, 0, 2])
        if style == "off_keys":
            turn = rng.choice([0, 1, 7, 100, -3])   # buffers with their OWN turn ids: integer ids only
        world = {"graphs": [[g, rng.randrange(0, 50)] for g in GRAPHS if rng.random() < 0.85], "version": rng.choice([0, 0, 3, 41])}
        big = rng.random() < 0.12
        rec_id = 0
        scripts, tasks = [], []
        for k, aid in enumerate(ids):
            text = f"t{k}"
            tasks.append([aid, text])
            own = gs.get(aid, [])
            logs = []
            for _ in range(rng.choice([0, 1, 2, 2, 3, 4])):
                p = rng.choice(STREAMS)
                fields = [["uid", f"{aid}.{k}.{rec_id}"]]
                rec_id += 1
                if rng.random() < 0.6:
                    fields.append(["pad", rng.choice(PAD_SIZES if big else PAD_SIZES[:8])])
                if rng.random() < 0.3:
                    fields.append(["ms", rng.choice([7, 0, 125])])
                if rng.random() < 0.2:
                    fields.append(["now", "2026-01-01T00:00:00Z"])
                if rng.random() < 0.15:
                    fields.append(["agent", aid])
                if rng.random() < 0.2:
                    fields.append(rng.choice([["tags", [k, "x"]], ["meta", {"k": rec_id}], ["ids", []], ["stage", p[:2]]]))
                rng.shuffle(fields)
                logs.append([p, fields])
            reads = [g for g in own if rng.random() < 0.8]
            deltas = [[g, rng.choice([1, 2, -1, 10])] for g in own if rng.random() < 0.7]
            if deltas and rng.random() < 0.2:
                deltas.append([deltas[0][0], 5])
            shapes = [rng.choice(DELTA_SHAPES) for _ in deltas]
            if deltas and rng.random() < 0.3:       # two EQUAL additive entries (same target, amount and shape): both must be applied
                j = rng.randrange(len(deltas))
                deltas.append(list(deltas[j]))
                shapes.append(shapes[j])
            if own and rng.random() < 0.3:          # an approved entry of magnitude exactly 0 / 0.0 / -0.0 still reaches apply
                deltas.insert(rng.randrange(len(deltas) + 1), [rng.choice(own), 0])
                shapes.insert(deltas.index([d for d in deltas if d[1] == 0][0]), rng.choice(ZERO_SHAPES))
            sc = {"agent": aid, "text": text, "turn": turn, "slice": sl, "reads": reads, "logs": logs, "deltas": deltas, "delta_shapes": shapes, "line": f"L{k}{aid}",
                  "reuse": rng.random() < 0.4}
            scripts.append(sc)
        others = lambda aid: [g for g in GRAPHS if g not in gs.get(aid, [])]
        if style == "off_reads" and scripts:
            sc = rng.choice(scripts)
            sc["reads"] = sc["reads"] + rng.sample(others(sc["agent"]), 1) if others(sc["agent"]) else sc["reads"]
        if style == "off_writes" and scripts:
            sc = rng.choice(scripts)
            if others(sc["agent"]):
                sc["deltas"] = sc["deltas"] + [[rng.choice(others(sc["agent"])), 3]]
        if style == "off_applylog" and scripts:
            sc = rng.choice(scripts)
            sc["logs"] = sc["logs"] + [["apply.jsonl", [["uid", f"x{rec_id}"]]]]
        if style == "off_keys" and scripts:
            for sc in scripts:
                if rng.random() < 0.6:
                    sc["turn"] = turn + rng.choice([-2, -1, 1, 2])
                if rng.random() < 0.3:
                    sc["slice"] = sl + rng.choice([-1, 1])
        if rng.random() < 0.08 and scripts:
            scripts.pop(rng.randrange(len(scripts)))  # a task without a script: empty turn
        ests = [est_of_fields(f) for sc in scripts for _, f in sc["logs"]] or [12]
        apply_est = 90
        mx, tot = max(ests + [apply_est]), sum(ests) + apply_est * len(ids)
        limit = rng.choice([1, min(ests), max(ests) - 1, mx - 3, mx, mx + 1, mx + 7, rng.randrange(95, 416), rng.randrange(95, 416),
                            rng.randrange(95, 416), rng.randrange(60, 130), rng.randrange(60, 130), rng.randrange(70, 100), mx + min(ests), 2 * mx, 2 * mx + 5, 3 * mx, tot // 2 + mx, tot - 1, tot + 50, 32 * 1024 * 1024])
        if big and rng.random() < 0.7:
            limit = max(limit, mx + rng.choice([0, 1, 50, 5000]))
        limit = max(1, int(limit))
        mw = rng.choice([2, 2, 3, 4, 6, 6, 8, 8, 8]) if style != "gate" else rng.choice([0, 1, 2, 8])
        enabled, agents_flag = (True, True) if style != "gate" else (rng.random() < 0.5, rng.random() < 0.7)
        perm = list(range(n))
        rng.shuffle(perm)
        return {"style": style, "ci_env": rng.choice(["", "", "true", "true", "TRUE"]), "limit": limit, "enabled": enabled, "agents_flag": agents_flag,
                "perf_enabled": rng.choice([True, True, False, None]),
                "ctx_shape": [f for f in (rng.choice(["config_same", "config_same", "config_copy", "no_config"]), "seed", "budgets", "now", "now_ms") if f == "config_same" or f == "config_copy" or (f != "no_config" and rng.random() < 0.5)],
                "mw": mw, "turn": turn, "slice": sl, "world": world, "agents": spec, "tasks": tasks, "scripts": scripts, "perm": perm}

    # -- implementation -------------------------------------------------------
    def impl(self, case):
        parr = run_real(case, "par")
        out = {"par": parr}
        out["seq"] = run_real(case, {"kind": "seq", "tasks": parr["computed"]})
        out["unl"] = run_real(case, "unlimited")
        out["perm"] = run_real(case, "perm")
        return out

    # -- model ----------------------------------------------------------------
    def _request(self, case) -> Tuple[dict, List[Any]]:
        table: List[Any] = []
        ag, gb = resolver_inputs(case["agents"])
        scripts = []
        for sc in case["scripts"]:
            logs = [[p, [[k, enc_value(v, table)] for k, v in expand_fields(f)]] for p, f in sc["logs"]]
            scripts.append({"agent": sc["agent"], "text": sc["text"], "agentV": enc_value(sc["agent"], table),
                            "turnV": enc_value(sc["turn"], table), "turn": turn_rank(sc["turn"]),
                            "slice": sc["slice"], "reads": sc["reads"], "logs": logs, "deltas": sc["deltas"], "line": sc["line"]})
        # tasks without a script: the model's empty script needs the agent token too
        have = {(s["agent"], s["text"]) for s in case["scripts"]}
        for aid, text in case["tasks"]:
            if (aid, text) not in have:
                scripts.append({"agent": aid, "text": text, "agentV": enc_value(aid, table), "turnV": enc_value(case["turn"], table),
                                "turn": turn_rank(case["turn"]), "slice": case["slice"],
                                "reads": [], "logs": [], "deltas": [], "line": ""})
        rq = {"c": "c10.batch", "ci_env": case["ci_env"], "limit": case["limit"], "agents": ag, "gba": gb, "enabled": eff_enabled(case),
              "agents_flag": case["agents_flag"], "mw": case["mw"], "turn": turn_rank(case["turn"]), "slice": case["slice"],
              "world": case["world"], "tasks": case["tasks"], "scripts": scripts}
        return rq, table

    def request(self, case):
        return self._request(case)[0]

    @staticmethod
    def _model_out(mo: dict, table: List[Any]) -> dict:
        files: Dict[str, str] = {}
        for p, rec in mo["written"]:
            d = {k: dec_value(v, table) for k, v in rec}
            files[p] = files.get(p, "") + json.dumps(d, ensure_ascii=False) + "\n"
        return {"ok": mo["ok"], "state": {"graphs": sorted([g, v] for g, v in mo["state"]["graphs"]), "version": mo["state"]["version"]},
                "lines": [f"{l}:{v}" for l, v in mo["lines"]], "files": files}

    @staticmethod
    def _diff(tag: str, a: dict, b: dict) -> Optional[str]:
        """a = implementation, b = model/other run"""
        if a["ok"] != b["ok"]:
            return f"{tag}: finished impl={a['ok']} ({a.get('err')}) other={b['ok']}"
        if a["ok"] and a["lines"] != b["lines"]:
            return f"{tag}: result lines impl={a['lines']} other={b['lines']}"
        if a["state"] != b["state"]:
            return f"{tag}: state impl={a['state']} other={b['state']}"
        if a["files"] != b["files"]:
            for k in sorted(set(a["files"]) | set(b["files"])):
                if a["files"].get(k) != b["files"].get(k):
                    x, y = a["files"].get(k, "").split("\n"), b["files"].get(k, "").split("\n")
                    j = next((i for i, (u, v) in enumerate(zip(x, y)) if u != v), min(len(x), len(y)))
                    return (f"{tag}: file {k} differs at line {j}: impl={x[j][:160] if j < len(x) else None!r} other={y[j][:160] if j < len(y) else None!r} "
                            f"(lines impl={len(x) - 1} other={len(y) - 1})")
        return None

    def compare(self, case, impl_out, model_out):
        if not isinstance(model_out, dict) or "out" not in model_out:
            return f"model error {str(model_out)[:300]}"
        if "__raised__" in impl_out:
            return f"implementation raised {impl_out}"
        _, table = self._request(case)
        parr = impl_out["par"]
        if parr["err"] not in (None, "backpressure"):
            return f"implementation raised {parr['err']}"
        if (parr["path"] == "batch") != model_out["parallel"]:
            return (f"gate: the driver took the {parr['path']} path, the model says parallel={model_out['parallel']} for perf.enabled={case.get('perf_enabled', True)} "
                    f"parallel.enabled={case['enabled']} agents={case['agents_flag']} max_workers={case['mw']}")
        if parr["computed"] != model_out["computed"]:
            return f"computed tasks: impl={parr['computed']} model={model_out['computed']}"
        d = self._diff("batch", parr, self._model_out(model_out["out"], table))
        if d:
            return d
        d = self._diff("sequential", impl_out["seq"], self._model_out(model_out["seq"], table))
        if d:
            return d
        if model_out.get("applied") is not None:
            impl_tr = [ds for _, ds in parr["applies"]]
            if impl_tr != model_out["applied"]:
                return f"apply_changes call trace (delta batches in call order): impl={parr['applies']} model={model_out['applied']}"
        if model_out["contract"] != contract_ok(case, parr["computed"]):
            return f"contract classification: lean={model_out['contract']} harness={contract_ok(case, parr['computed'])}"
        return None

    # -- monitors ---------------------------------------------------------------
    @staticmethod
    def _tokenise(outs: List[dict]) -> Tuple[List[dict], List[str]]:
        """lines of all runs → tokens (equal text ⇔ equal token) for the Lean predicate `sameOutcomeB`."""
        table: Dict[str, int] = {}
        paths: List[str] = []
        enc = []
        for o in outs:
            written = []
            for p in sorted(o["files"]):
                if p not in paths:
                    paths.append(p)
                for l in o["files"][p].split("\n")[:-1]:
                    k = table.setdefault(l, len(table))
                    written.append([p, [["l", {"t": "opq", "id": k, "truthy": True, "slen": 0}]]])
                if not o["files"][p].endswith("\n"):
                    written.append([p, [["partial", {"t": "opq", "id": 10 ** 6, "truthy": True, "slen": 0}]]])
            enc.append({"ok": o["ok"], "state": {"graphs": o["state"]["graphs"], "version": o["state"]["version"]},
                        "lines": [[l, 0] for l in o["lines"]], "written": written})
        return enc, paths

    def monitor_requests(self, case, impl_out):
        parr, seq, unl = impl_out["par"], impl_out["seq"], impl_out["unl"]
        reqs = []
        distinct = len({a for a, _ in case["tasks"]}) == len(case["tasks"])
        if parr["ok"] and seq["ok"] and distinct and contract_ok(case, parr["computed"]):
            (a, b), paths = self._tokenise([parr, seq])
            reqs.append(("batch_equals_sequential_loop", {"c": "c10.same", "a": a, "b": b, "paths": paths}))
        if parr["ok"] and unl["ok"] and key_const(case, parr["computed"]):
            (a, b), paths = self._tokenise([parr, unl])
            reqs.append(("staging_limit_invisible", {"c": "c10.same", "a": a, "b": b, "paths": paths}))
        if distinct and eff_enabled(case) and case["agents_flag"] and case["mw"] > 1:
            ag, gb = resolver_inputs(case["agents"])
            reqs.append(("computed_agents_are_a_valid_selection",
                         {"c": "c10.select.mon", "ids": [a for a, _ in case["tasks"]], "agents": ag, "gba": gb, "mw": case["mw"],
                          "picked": [a for a, _ in parr["computed"]]}))
        return reqs

    def monitors(self, case, impl_out):
        res = []
        parr, seq, unl, perm = impl_out["par"], impl_out["seq"], impl_out["unl"], impl_out["perm"]
        distinct = len({a for a, _ in case["tasks"]}) == len(case["tasks"])
        par_on = eff_enabled(case) and case["agents_flag"] and case["mw"] > 1
        if parr["err"] not in (None, "backpressure"):
            res.append(("driver_raised", False, parr["err"]))
            return res
        # every limit >= 1 must be served.  Below one record's estimate the driver raises: recorded finding (its own key);
        # a raise although every single record fits is a different violation (C10_batch_ok_iff)
        mx = max_record_estimate(unl)
        detail = (f"limit={case['limit']} (largest record estimate {mx}): LOG_STAGING_BACKPRESSURE left the driver; state after = {parr['state']}, "
                  f"lines written = { {k: v.count(chr(10)) for k, v in parr['files'].items()} }")
        if mx is not None and mx <= case["limit"]:
            res.append(("finishes_when_every_record_fits", parr["ok"], detail))
        else:
            res.append((KEY_LIMIT, parr["ok"], detail))
        gate = (f"perf.enabled={case.get('perf_enabled', True)} perf.parallel.enabled={case['enabled']} agents={case['agents_flag']} max_workers={case['mw']}: "
                f"path={parr['path']} enable_staging calls={parr['staging_calls']} dry-run turns={parr['dry_calls']} full turns={parr['full_calls']}")
        if not par_on:
            res.append(("gate_closed_takes_sequential_fallback", parr["path"] == "sequential" and parr["dry_calls"] == 0, gate))
        else:
            res.append(("gate_open_takes_batch_path", parr["path"] == "batch" and parr["staging_calls"] == 1 and parr["full_calls"] == 0, gate))
        if not par_on:
            res.append(("gate_off_runs_every_task_sequentially", parr["computed"] == [list(t) for t in case["tasks"]] and len(parr["lines"]) == len(case["tasks"]),
                        f"parallel gate is off (enabled={case['enabled']} agents={case['agents_flag']} max_workers={case['mw']}) but executed {parr['computed']} of {case['tasks']}"))
        for run_name, r in (("batch/fall-back run", parr), ("sequential loop", seq)):
            res.append(("ctx_clone_carries_every_holder_the_stages_read", not r.get("clone_bad"),
                        f"{run_name}: {r.get('clone_bad')} (source ctx holders: {sorted(case.get('ctx_shape') or [])})"))
        dv = approved_verbatim(case, parr)
        res.append(("apply_receives_the_approved_list_verbatim", dv is None, str(dv)))
        d1 = apply_once(parr)
        res.append(("each_approved_batch_reaches_apply_exactly_once", d1 is None, f"limit={case['limit']}: {d1}; apply calls = {parr['applies']}"))
        if parr["ok"] and distinct and contract_ok(case, parr["computed"]):
            d = BatchComp._diff("batch vs sequential loop", parr, seq)
            res.append(("batch_bytes_equal_sequential_loop", d is None, d or ""))
        if parr["ok"] and unl["ok"] and key_const(case, parr["computed"]):
            d = BatchComp._diff("limited vs unlimited staging", parr, unl)
            res.append(("limit_independent_bytes", d is None, d or ""))
        if perm["err"] is None or perm["err"] == "backpressure":
            d = BatchComp._diff("in-order vs forced finishing order", parr, perm)
            res.append(("compute_finish_order_invisible", d is None and perm["computed"] == parr["computed"],
                        d or f"computed {parr['computed']} vs {perm['computed']}"))
        else:
            res.append(("compute_finish_order_invisible", False, perm["err"]))
        if distinct and par_on:
            gs = resolved(case["agents"])
            ids = [a for a, _ in parr["computed"]]
            bad = [(a, b) for i, a in enumerate(ids) for b in ids[i + 1:] if set(gs.get(a, [])) & set(gs.get(b, []))]
            res.append(("overlapping_agents_never_computed_together", not bad, f"{bad}"))
            full = len(ids) == len(case["tasks"])
            alld = not any(set(gs.get(a, [])) & set(gs.get(b, [])) for i, (a, _) in enumerate(case["tasks"]) for b, _ in case["tasks"][i + 1:])
            if alld and len(case["tasks"]) <= case["mw"]:
                res.append(("disjoint_batch_fully_computed", full, f"computed {ids} of {case['tasks']}"))
        return res

    def tags(self, case, impl_out):
        t = set()
        parr = impl_out["par"]
        par_on = eff_enabled(case) and case["agents_flag"] and case["mw"] > 1
        t.add("style:" + ("contract" if contract_ok(case, parr["computed"]) else "off_contract"))
        if not par_on:
            t.add("gate_off")
        if not parr["ok"]:
            t.add("retry_raises")
            if parr["state"]["version"] != case["world"]["version"]:
                t.add("raised_after_commit")
        nrec = sum(len(script_of(case, a, x)["logs"]) for a, x in parr["computed"]) + len(parr["computed"])
        tot = sum(est_of_fields(f) for a, x in parr["computed"] for _, f in script_of(case, a, x)["logs"]) + 80 * len(parr["computed"])
        if parr["ok"] and par_on and case["limit"] < tot:
            t.add("backpressure_flush")
        if par_on and len(parr["computed"]) < len(case["tasks"]):
            t.add("overlap_skipped" if len(parr["computed"]) < case["mw"] else "worker_cap")
        if len(parr["computed"]) >= 3:
            t.add("agents>=3")
        if any(v.count("\n") > 1 for k, v in parr["files"].items() if k != "apply.jsonl"):
            t.add("multi_record_file")
        if any(len(v) > 8192 for v in parr["files"].values()):
            t.add("big_payload")
        if case["ci_env"].lower() == "true":
            t.add("ci")
        if isinstance(case["turn"], str):
            t.add("turn_id:numeric_string" if turn_rank(case["turn"]) or case["turn"].strip("0") == "" and case["turn"] else "turn_id:non_numeric_string")
        elif case["turn"] < 0:
            t.add("turn_id:negative")
        if case.get("perf_enabled", True) is not True:
            t.add("perf_enabled_off_or_absent")
        if any(script_of(case, a, x).get("reuse") and len(script_of(case, a, x)["logs"]) > 1 for a, x in parr["computed"]):
            t.add("payload_dict_reused_across_emits")
        for a, x in parr["computed"]:
            sc = script_of(case, a, x)
            ds = [tuple(d) + (sh,) for d, sh in zip(sc["deltas"], sc.get("delta_shapes") or [])]
            if len(set(ds)) < len(ds):
                t.add("approved_list_with_equal_duplicates")
            if any(d[1] == 0 for d in sc["deltas"]):
                t.add("approved_zero_delta")
            if any(sh in ("obj", "obj_f", "obj_negzero") for sh in sc.get("delta_shapes") or []):
                t.add("approved_ProposedDelta_objects")
        if any(f.startswith("config") for f in case.get("ctx_shape") or []):
            t.add("ctx_with_cfg_and_config")
        if case["perm"] != sorted(case["perm"]):
            t.add("finish_order_permuted")
        if [a for a, _ in case["tasks"]] != sorted(a for a, _ in case["tasks"]):
            t.add("ids_not_sorted")
        return sorted(t)

    def shrink(self, case):
        n = len(case["tasks"])
        for i in range(n):
            if n > 1:
                t = case["tasks"][i]
                yield dict(case, tasks=case["tasks"][:i] + case["tasks"][i + 1:],
                           scripts=[s for s in case["scripts"] if not (s["agent"] == t[0] and s["text"] == t[1])],
                           perm=[p for p in range(n - 1)])
        for si, sc in enumerate(case["scripts"]):
            for k in range(len(sc["logs"])):
                scs = [dict(s) for s in case["scripts"]]
                scs[si] = dict(sc, logs=sc["logs"][:k] + sc["logs"][k + 1:])
                yield dict(case, scripts=scs)
        if case["ci_env"]:
            yield dict(case, ci_env="")


# ---------------------------------------------------------------------------
# limit sweep: EVERY staging limit from 1 byte up to beyond the total, same batch
# ---------------------------------------------------------------------------
class LimitSweepComp(Component):
    """Real-vs-real only (the model side of every single limit is the `batch` component's job): a contract batch
    is run once sequentially and once per staging limit 1, 1+stride, … up to past the sum of all estimates."""
    name = "limitsweep"
    budget = {"quick": 4, "thorough": 70, "search": 20}

    def gen(self, rng, i):
        b = BatchComp()
        for _ in range(50):
            c = b.gen(rng, i)
            if c["style"] == "contract" and len(c["tasks"]) >= 2:
                break
        for sc in c["scripts"]:
            for _, fields in sc["logs"]:
                for f in fields:
                    if f[0] == "pad":
                        f[1] = min(int(f[1]), rng.choice([5, 20, 60]))
        c["enabled"], c["agents_flag"], c["mw"], c["perf_enabled"] = True, True, 8, True
        c["stride"] = rng.choice([1, 1, 2, 3])
        return c

    def impl(self, case):
        unl = run_real(case, "unlimited")
        seq = run_real(case, {"kind": "seq", "tasks": unl["computed"]})
        mx = max_record_estimate(unl)
        tot = 0
        for text in unl["files"].values():
            for l in text.split("\n")[:-1]:
                rec = json.loads(l)
                tot += sum(len(str(k)) + len(str(v)) for k, v in rec.items()) + 2
        rows = []
        flushes_possible = 0
        for limit in range(1, tot + 3, case["stride"]):
            r = run_real(dict(case, limit=limit), "par")
            d = BatchComp._diff(f"limit {limit} vs sequential loop", r, seq) if r["ok"] else None
            a1 = apply_once(r)
            if a1 is not None:
                d = f"limit {limit}: {a1}" + (f"; {d}" if d else "")
            rows.append([limit, r["ok"], d, r["err"]])
            if r["ok"] and limit < tot:
                flushes_possible += 1
        return {"mx": mx, "tot": tot, "rows": rows, "unl_equals_seq": BatchComp._diff("unlimited vs sequential loop", unl, seq),
                "computed": unl["computed"], "with_flush": flushes_possible}

    def request(self, case):
        return {"c": "const", "v": 0}

    def compare(self, case, impl_out, model_out):
        return None

    def monitors(self, case, impl_out):
        res = []
        if not contract_ok(case, impl_out["computed"]) or len({a for a, _ in case["tasks"]}) != len(case["tasks"]):
            return res
        res.append(("sweep_unlimited_equals_sequential", impl_out["unl_equals_seq"] is None, str(impl_out["unl_equals_seq"])))
        bad_eq = [(l, d) for l, ok, d, _ in impl_out["rows"] if d is not None]
        res.append(("sweep_every_served_limit_equals_sequential_loop", not bad_eq, f"{bad_eq[:2]}"))
        mx = impl_out["mx"]
        bad_ok = [(l, e) for l, ok, _, e in impl_out["rows"] if not ok and mx is not None and l >= mx]
        res.append(("sweep_finishes_when_every_record_fits", not bad_ok, f"largest record estimate {mx}; raised at limits {bad_ok[:5]}"))
        return res

    def tags(self, case, impl_out):
        t = {"limits:%d" % (10 * (len(impl_out["rows"]) // 10))} if len(impl_out["rows"]) < 50 else {"limits>=50"}
        if impl_out["with_flush"]:
            t.add("served_with_backpressure")
        if any(not ok for _, ok, _, _ in impl_out["rows"]):
            t.add("some_limits_raise")
        return sorted(t)

    def shrink(self, case):
        return BatchComp().shrink(case)


# ---------------------------------------------------------------------------
# gate: exact decision table of `_agents_parallel_enabled`
# ---------------------------------------------------------------------------
GATE_TABLE = [(pe, en, ag, mw) for pe in (True, False, None) for en in (True, False) for ag in (True, False) for mw in (-1, 0, 1, 2, 3, 8)]


class GateComp(BatchComp):
    """Every row of (perf.enabled, perf.parallel.enabled, perf.parallel.agents, max_workers) on one fixed two-agent
    contract batch: the path the real driver takes (enable_staging called / dry-run turns vs full turns) against the
    model's `parallelOn`, and the monitors `gate_closed_takes_sequential_fallback` / `gate_open_takes_batch_path`."""
    name = "gate"
    budget = {"quick": len(GATE_TABLE), "thorough": len(GATE_TABLE), "search": len(GATE_TABLE)}

    def gen(self, rng, i):
        pe, en, ag, mw = GATE_TABLE[i % len(GATE_TABLE)]
        turn = TURN_IDS[i % len(TURN_IDS)]
        mk = lambda a, t, g: {"agent": a, "text": t, "turn": turn, "slice": 0, "reads": [g],
                              "logs": [["t1.jsonl", [["uid", a + ".0"]]], ["t4.jsonl", [["uid", a + ".1"], ["pad", 30]]]], "deltas": [[g, 1]], "line": "L" + a}
        return {"style": "gate_table", "ci_env": "", "limit": rng.choice([120, 200, 32 * 1024 * 1024]), "enabled": en, "agents_flag": ag, "perf_enabled": pe,
                "mw": mw, "turn": turn, "slice": 0, "world": {"graphs": [["G1", 5], ["G2", 7]], "version": 0},
                "agents": [["B", "gba", ["G1"], ["G1"]], ["A", "agents", ["G2"], ["G2"]]], "tasks": [["B", "t0"], ["A", "t1"]],
                "scripts": [mk("B", "t0", "G1"), mk("A", "t1", "G2")], "perm": [1, 0]}

    def tags(self, case, impl_out):
        return [f"row:pe={case['perf_enabled']},en={case['enabled']},ag={case['agents_flag']},mw={case['mw']}", "path:" + impl_out["par"]["path"]]


# ---------------------------------------------------------------------------
# histories: 2-3 batches on ONE orchestrator / ctx / staging context, with aborted batches in between
# ---------------------------------------------------------------------------
ABORTS = ["none", "apply_raise", "apply_raise", "compute_raise", "limit_tiny", "limit_below_apply", "limit_below_apply"]


class HistoryComp(Component):
    """Batches run one after another in one process on the same ctx and live state, WITHOUT any clean-up between them
    (a batch that aborts leaves whatever it leaves).  Each batch writes to its own log directory.  Every batch of the
    history is compared with the same batch started from the same pre-state on a fresh staging context, and (when it
    finishes and follows the contract) with the real sequential loop from that pre-state."""
    name = "history"
    budget = {"quick": 120, "thorough": 2500, "search": 600}

    def gen(self, rng, i):
        b = BatchComp()
        for _ in range(50):
            base = b.gen(rng, i)
            if base["style"] in ("contract", "overlap") and len(base["tasks"]) >= 2:
                break
        base["enabled"], base["agents_flag"], base["mw"], base["perf_enabled"] = True, True, rng.choice([4, 8]), True
        nb = rng.choice([2, 2, 3])
        batches = []
        for k in range(nb):
            scs = json.loads(json.dumps(base["scripts"]))
            for sc in scs:
                for _, fields in sc["logs"]:
                    for f in fields:
                        if f[0] == "uid":
                            f[1] = f"b{k}.{f[1]}"
                        if f[0] == "pad":
                            f[1] = min(int(f[1]), 300)
            tasks = list(base["tasks"])
            if k and rng.random() < 0.4 and len(tasks) > 1:
                tasks = tasks[1:] + tasks[:1]
            abort = rng.choice(ABORTS) if k < nb - 1 else rng.choice(["none", "none", "none", "limit_below_apply"])
            ests = [est_of_fields(f) for sc in scs for _, f in sc["logs"]] or [12]
            big = max(ests + [95]) + rng.choice([0, 10, 60, 200, 10 ** 6])
            limit = big
            if abort in ("apply_raise", "compute_raise") and scs:
                j = rng.randrange(len(tasks))
                for sc in scs:
                    if [sc["agent"], sc["text"]] == tasks[j]:
                        sc["raise_apply" if abort == "apply_raise" else "raise_compute"] = True
            elif abort == "limit_tiny":
                limit = rng.choice([1, 5, 20])
            elif abort == "limit_below_apply":
                limit = rng.choice([40, 60, 70])
            batches.append({"tasks": tasks, "scripts": scs, "limit": limit, "abort": abort})
        base["batches"] = batches
        base["style"] = "history"
        return base

    @staticmethod
    def _batch_case(case: dict, k: int, world: Optional[dict] = None) -> dict:
        b = case["batches"][k]
        c = {kk: v for kk, v in case.items() if kk != "batches"}
        c.update(tasks=b["tasks"], scripts=b["scripts"], limit=b["limit"], perm=list(range(len(b["tasks"]))))
        if world is not None:
            c["world"] = world
        return c

    def impl(self, case):
        from clematis.engine.orchestrator import parallel as par
        root = scratch_dir("hist")
        hist: List[dict] = []
        pres: List[dict] = []
        try:
            c0 = self._batch_case(case, 0)
            with World(c0, c0["limit"], root / "b0") as w:
                state = make_state(c0)
                ctx = make_ctx(c0, True, True)     # ONE ctx for the whole history
                w.src_ctx = ctx
                for k in range(len(case["batches"])):
                    ck = self._batch_case(case, k)
                    d = root / f"b{k}"
                    d.mkdir(parents=True, exist_ok=True)
                    w.set_batch(ck, ck["limit"], d)
                    pres.append({"graphs": sorted([g, v] for g, v in state.graphs.items()), "version": state.version})
                    res, err = None, None
                    try:
                        res = par._run_agents_parallel_batch(ctx, state, [tuple(t) for t in ck["tasks"]])
                    except RuntimeError as e:
                        err = "backpressure" if str(e) == "LOG_STAGING_BACKPRESSURE" else f"RuntimeError:{e}"
                    except RigAbort as e:
                        err = f"abort:{e}"
                    o = observe(state, res, d, err)
                    o["computed"] = [list(t) for t in w.computed]
                    hist.append(o)
        finally:
            shutil.rmtree(root, ignore_errors=True)
        fresh, seqs = [], []
        for k, pre in enumerate(pres):
            ck = self._batch_case(case, k, world=pre)
            f = run_real(ck, "par")
            fresh.append(f)
            seqs.append(run_real(ck, {"kind": "seq", "tasks": f["computed"]}) if f["ok"] else None)
        return {"hist": hist, "fresh": fresh, "seq": seqs, "pre": pres}

    def request(self, case):
        return {"c": "const", "v": 0}

    def compare(self, case, impl_out, model_out):
        return None  # each single batch is tied to the model by the `batch` component; here: real vs real

    @staticmethod
    def _same(a: dict, b: dict) -> Optional[str]:
        if a["err"] != b["err"]:
            return f"outcome: history={a['err'] or 'finished'} fresh={b['err'] or 'finished'}"
        if a["computed"] != b["computed"]:
            return f"computed: history={a['computed']} fresh={b['computed']}"
        return BatchComp._diff("history vs fresh ctx", a, b)

    def monitors(self, case, impl_out):
        res = []
        for k, (h, f, q) in enumerate(zip(impl_out["hist"], impl_out["fresh"], impl_out["seq"])):
            prev = [x["err"] or "finished" for x in impl_out["hist"][:k]]
            d = self._same(h, f)
            res.append(("history_batch_equals_same_batch_on_fresh_ctx", d is None, f"batch #{k + 1} after {prev}: {d}"))
            ck = self._batch_case(case, k)
            distinct = len({a for a, _ in ck["tasks"]}) == len(ck["tasks"])
            if h["ok"] and q is not None and distinct and contract_ok(ck, h["computed"]):
                d2 = BatchComp._diff("history batch vs sequential loop", h, q)
                res.append(("history_batch_equals_sequential_loop", d2 is None, f"batch #{k + 1} after {prev}: {d2}"))
        return res

    def monitor_requests(self, case, impl_out):
        reqs = []
        for k, (h, q) in enumerate(zip(impl_out["hist"], impl_out["seq"])):
            ck = self._batch_case(case, k)
            if k and h["ok"] and q is not None and q["ok"] and contract_ok(ck, h["computed"]) and len({a for a, _ in ck["tasks"]}) == len(ck["tasks"]):
                (a, b), paths = BatchComp._tokenise([h, q])
                reqs.append((f"later_batch_equals_sequential_loop", {"c": "c10.same", "a": a, "b": b, "paths": paths}))
        return reqs

    def tags(self, case, impl_out):
        t = {f"batches:{len(impl_out['hist'])}"}
        for k, h in enumerate(impl_out["hist"][:-1]):
            if h["err"]:
                t.add("earlier_batch_aborted:" + h["err"])
                if h["err"] in ("abort:apply", "backpressure") and any(h2["ok"] for h2 in impl_out["hist"][k + 1:]):
                    t.add("batch_finishes_after_commit_phase_abort")
        if all(h["ok"] for h in impl_out["hist"]):
            t.add("all_finish")
        return sorted(t)

    def shrink(self, case):
        for k in range(len(case["batches"]) - 1, 0, -1):
            if len(case["batches"]) > 2:
                yield dict(case, batches=case["batches"][:k] + case["batches"][k + 1:])
        for k, b in enumerate(case["batches"]):
            for i in range(len(b["tasks"])):
                if len(b["tasks"]) > 1:
                    bs = list(case["batches"])
                    bs[k] = dict(b, tasks=b["tasks"][:i] + b["tasks"][i + 1:])
                    yield dict(case, batches=bs)


# ---------------------------------------------------------------------------
# real pipeline through the unmodified driver
# ---------------------------------------------------------------------------
REAL_WORLDS = [
    {"graph": {"nodes": [["n1", "hello"], ["n2", "world"]], "edges": [["e1", "n1", "n2", 0.5, "rel"]]},
     "episodes": [{"id": "e1", "text": "hello world", "owner": "a1", "ts": "2026-01-01T00:00:00Z"}]},
    {"graph": {"nodes": [["n1", "alpha"]], "edges": []}},
    {"graph": {"nodes": [["n1", "tea"], ["n2", "cup"], ["n3", "pot"]], "edges": [["e1", "n1", "n2", 0.9, "rel"], ["e2", "n2", "n3", 0.4, "rel"]]},
     "boot_loaded": True},
]


def _raise_site(e: BaseException) -> str:
    fn = "?"
    for fr in traceback.extract_tb(e.__traceback__):
        if "clematis" in fr.filename:
            fn = fr.name
    return fn


class RealPipeComp(Component):
    """The statement's second quantifier: the real stage pipeline through the batch driver."""
    name = "realpipe"
    budget = {"quick": 6, "thorough": 24, "search": 12}

    def gen(self, rng, i):
        return {"world": i % len(REAL_WORLDS), "snapshot": ["real", "real", "live"][i % 3], "n": rng.choice([1, 2, 2, 3]),
                "texts": rng.sample(["hello", "world", "tea", "alpha", "what about the cup", ""], 3), "turn": rng.choice([1, 5, 12])}

    def _run(self, case, par_on: bool) -> dict:
        import contextlib
        from harness.lib import turnrig as TR
        import clematis.engine.orchestrator as orch
        from clematis.engine.orchestrator import parallel as par
        from clematis.engine.util import io_logging as IOL
        d = scratch_dir("real")
        spec = dict(REAL_WORLDS[case["world"]])
        spec["cfg"] = {"perf": {"enabled": True, "parallel": {"enabled": par_on, "agents": par_on, "max_workers": 4}}}
        tasks = [(f"a{k + 1}", case["texts"][k]) for k in range(case["n"])]
        saved = (hasattr(orch, "_make_readonly_snapshot"), getattr(orch, "_make_readonly_snapshot", None))
        try:
            w = TR.build_world(d, spec)
            ctx = TR.make_ctx(w, case["turn"])
            envcm = TR._env if hasattr(TR._env, "__wrapped__") else contextlib.contextmanager(TR._env)
            if case["snapshot"] == "live" and par_on:
                orch._make_readonly_snapshot = lambda s: s   # the hook the repo's own back-pressure test uses
            out: Dict[str, Any] = {"raised": None, "lines": None}
            with envcm(w):
                try:
                    res = par._run_agents_parallel_batch(ctx, w.state, tasks)
                    out["lines"] = [r.line for r in res]
                except Exception as e:
                    out["raised"] = f"{type(e).__name__}@{_raise_site(e)}"
                    out["msg"] = str(e)[:200]
            files = {}
            for p in sorted(w.log_dir.glob("*.jsonl")):
                recs = []
                for l in p.read_text(encoding="utf-8").splitlines():
                    try:
                        recs.append(TR.canon_record(json.loads(l)))
                    except Exception:
                        recs.append({"__unparsable__": l[:80]})
                files[p.name] = recs
            out["files"] = files
            return out
        finally:
            if saved[0]:
                orch._make_readonly_snapshot = saved[1]
            try:
                IOL.disable_staging()
            except Exception:
                pass
            shutil.rmtree(d, ignore_errors=True)

    def impl(self, case):
        return {"par": self._run(case, True), "seq": self._run(case, False)}

    def request(self, case):
        return {"c": "const", "v": 0}

    def compare(self, case, impl_out, model_out):
        return None  # no model of the stage pipeline here: monitors only (real vs real)

    def monitors(self, case, impl_out):
        parr, seq = impl_out["par"], impl_out["seq"]
        res = []
        if seq["raised"]:
            res.append(("realpipe_sequential_loop_completes", False, f"{seq['raised']}: {seq.get('msg')}"))
            return res
        if parr["raised"]:
            res.append((f"raises:{parr['raised']}", False, f"the real pipeline through the batch driver raised {parr['raised']}: {parr.get('msg')} "
                                                          f"(the sequential loop over the same tasks completes with {seq['lines']})"))
            return res
        res.append(("realpipe_results_equal_sequential", parr["lines"] == seq["lines"], f"batch={parr['lines']} sequential={seq['lines']}"))
        for name in ("t1.jsonl", "t2.jsonl", "t4.jsonl", "apply.jsonl", "turn.jsonl"):
            res.append((f"realpipe_file_equal_sequential:{name}", parr["files"].get(name) == seq["files"].get(name),
                        f"{name}: batch={json.dumps(parr['files'].get(name))[:200]} sequential={json.dumps(seq['files'].get(name))[:200]}"))
        return res

    def tags(self, case, impl_out):
        return [f"snapshot:{case['snapshot']}", "raised" if impl_out["par"]["raised"] else "completed"]


class FallbackComp(Component):
    """The driver's sequential fall-back (agent parallelism off) with the REAL stage pipeline and the REAL apply_changes:
    a sequence of turns through `_run_agents_parallel_batch` (per-agent ctx CLONE) against the same turns through
    `Orchestrator.run_turn` directly (no clone) on an identical world, with a snapshot cadence != 1 and on-apply cache
    busting: apply records (snapshot written or not, cache invalidations, version), snapshot files and results must agree."""
    name = "fallback"
    budget = {"quick": 6, "thorough": 30, "search": 12}

    def gen(self, rng, i):
        return {"world": i % len(REAL_WORLDS), "every": [3, 2, 3, 4][i % 4], "bust": ["on-apply", "on-apply", "none"][i % 3],
                "turns": rng.choice([4, 5, 6]), "texts": rng.sample(["hello", "world", "tea", "alpha", "what about the cup", "pot"], 3),
                "first_turn": rng.choice([1, 1, 2, 7])}

    def _spec(self, case):
        spec = dict(REAL_WORLDS[case["world"]])
        spec["cfg"] = {"perf": {"enabled": True, "parallel": {"enabled": False, "agents": False, "max_workers": 1}},
                       "t4": {"snapshot_every_n_turns": case["every"], "cache_bust_mode": case["bust"]}}
        return spec

    def _through_driver(self, case) -> dict:
        import contextlib
        from harness.lib import turnrig as TR
        from clematis.engine.orchestrator import parallel as par
        d = scratch_dir("fb_drv")
        try:
            w = TR.build_world(d, self._spec(case))
            envcm = TR._env if hasattr(TR._env, "__wrapped__") else contextlib.contextmanager(TR._env)
            lines, raised, snaps = [], None, []
            with envcm(w):
                for k in range(case["turns"]):
                    ctx = TR.make_ctx(w, case["first_turn"] + k)
                    try:
                        res = par._run_agents_parallel_batch(ctx, w.state, [(w.agent, case["texts"][k % len(case["texts"])])])
                        lines.append([r.line for r in res])
                    except Exception as e:
                        raised = f"{type(e).__name__}@{_raise_site(e)}: {str(e)[:120]}"
                        break
                    snaps.append(sorted(p.name for p in w.snap_dir.iterdir()))
            recs = []
            p = w.log_dir / "apply.jsonl"
            if p.exists():
                recs = [TR.canon_record(json.loads(l)) for l in p.read_text(encoding="utf-8").splitlines() if l.strip()]
            return {"raised": raised, "lines": lines, "apply": recs, "snaps": snaps}
        finally:
            shutil.rmtree(d, ignore_errors=True)

    def _direct(self, case) -> dict:
        from harness.lib import turnrig as TR
        d = scratch_dir("fb_dir")
        try:
            w = TR.build_world(d, self._spec(case))
            lines, recs, snaps, raised = [], [], [], None
            for k in range(case["turns"]):
                run = TR.run_turn(w, case["texts"][k % len(case["texts"])], turn_id=case["first_turn"] + k)
                if run.raised:
                    raised = str(run.raised)
                    break
                lines.append([run.result["line"]])
                recs.extend(run.files.get("apply", []))
                snaps.append(sorted(p.name for p in w.snap_dir.iterdir()))
            return {"raised": raised, "lines": lines, "apply": recs, "snaps": snaps}
        finally:
            shutil.rmtree(d, ignore_errors=True)

    def impl(self, case):
        return {"driver": self._through_driver(case), "direct": self._direct(case)}

    def request(self, case):
        return {"c": "const", "v": 0}

    def compare(self, case, impl_out, model_out):
        return None

    def monitors(self, case, impl_out):
        a, b = impl_out["driver"], impl_out["direct"]
        if b["raised"]:
            return [("fallback_reference_completes", False, b["raised"])]
        res = [("fallback_completes", a["raised"] is None, str(a["raised"]))]
        if a["raised"] is None:
            res.append(("fallback_results_equal_direct_turns", a["lines"] == b["lines"], f"driver={a['lines']} direct={b['lines']}"))
            res.append(("fallback_apply_records_equal_direct_turns", a["apply"] == b["apply"],
                        f"snapshot_every_n_turns={case['every']} cache_bust_mode={case['bust']}: through the driver {json.dumps(a['apply'])[:300]} direct {json.dumps(b['apply'])[:300]}"))
            res.append(("fallback_snapshot_cadence_equals_direct_turns", a["snaps"] == b["snaps"], f"driver={a['snaps']} direct={b['snaps']}"))
        return res

    def tags(self, case, impl_out):
        b = impl_out["direct"]
        t = {f"every:{case['every']}", f"bust:{case['bust']}"}
        if any(not r.get("snapshot") for r in b["apply"]) and any(r.get("snapshot") for r in b["apply"]):
            t.add("cadence_skips_and_writes")
        if any((r.get("cache_invalidations") or 0) > 0 for r in b["apply"]):
            t.add("cache_busted")
        return sorted(t)


COMPONENTS = [SelectComp(), GateComp(), BatchComp(), HistoryComp(), LimitSweepComp(), RealPipeComp(), FallbackComp()]


def run(ctx: Ctx) -> None:
    try:
        for comp in COMPONENTS:
            run_component(ctx, comp)
    finally:
        drop_scratch()


def replay(ctx: Ctx, rec: dict) -> int:
    from harness.core import generic_replay
    try:
        return generic_replay(ctx, rec, {c.name: c for c in COMPONENTS})
    finally:
        drop_scratch()
