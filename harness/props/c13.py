"""C13 — planning and speaking stay within caps; untrusted plans are sanitised.

Components (all drive the REAL code in-process and the Lean model through `clemdrv`):
  c13.delib     `t3/policy.py:deliberate` on generated bundles: exact ops + Lean `planOk` on the impl's ops + purity
  c13.rag       `t3/legacy.py:rag_once` with a counting `retrieve_fn`: exact refined ops / metrics / call count
  c13.speak     `t3/dialogue.py:speak` / `llm_speak`: exact utterance + token metrics; `str.format` is an oracle
                (the real `speak` run with an unbounded budget)
  c13.sanitize  `policy/sanitize.py:parse_and_validate` (+ `plan_with_llm`) on a malformed stream; `json.loads` is an oracle
  c13.turn      number of `t2_semantic` invocations of a real `Orchestrator.run_turn` (counting wrapper)
"""
from __future__ import annotations

import copy
import json
import math
import os
import random
from types import SimpleNamespace as SNS
from typing import Any, List, Optional, Tuple

from harness.core import Component, Ctx, run_component, run_driver, f2b, b2f, _canon

RULE = ("bundles / plans / dialogue bundles / untrusted strings from seeded structured generators biased to the boundaries "
        "(caps 0,1,2 and negative, equal and inverted thresholds, scores one ulp around each threshold, NaN/±inf, budgets 0/1/exact, "
        "limits ±1, fences, prose, 20 000/20 001-char blobs, 10 000-deep nesting, huge ints, duplicate keys, lone surrogates); "
        "a case is non-trivial when it hits at least one non-default branch tag; distinct by canonical JSON")
ASSUMPTIONS = [
    "floats enter the planner only through >=, <, abs and max (IEEE comparisons; the Lean carrier is any NaN-aware ordered type, the driver runs Float)",
    "bundle values have the types the config validator and the bundle assembler produce (int()-able caps, float()-able thresholds); "
    "values on which an unguarded int()/float() would raise are outside the generator",
    "retrieval hit scores are not NaN (sorting NaN keys is algorithm-dependent); NaN/±inf are exercised for s_max, thresholds and deltas",
    "str.format (template expansion) and json.loads are oracles: the real functions are run and their result is handed to the model",
    "LLM adapters are fixtures (stub objects returning a given text)",
    "the scheduler (time-based yields) is disabled in the whole-turn stream; the yield branch is only in the model",
]
CLAIM = {
    "text": ("Lean theorems over an arbitrary NaN-aware score carrier: deliberate emits ≤ max 0 (min perTurn perSlice) ops (all integer caps), "
             "a non-empty plan starts with Speak whose intent follows the thresholds (NaN ⇒ question), RequestRetrieve only if s < τlow and EditGraph only "
             "if s ≥ τlow (never both), intent rank is monotone and retrieval antitone in the score; rag_once calls retrieve ≤ 1 time (0 when already used), "
             "keeps the cap and Speak first; a turn invokes T2 ≤ 2 and ≤ 1 + max 0 max_rag_loops times; the utterance has ≤ max 0 budget whitespace tokens "
             "(proved down to str.split/' '.join on code points) and the reported count is exact; parse_and_validate never raises (json.loads an oracle "
             "that may fail, guard read from the AST) and accepts only a single JSON object with the documented keys and size limits; "
             "schema constants and enforcement sites agree (decide over tables regenerated from the source); the line a turn emits "
             "(_sanitize_utterance ∘ speak/llm_speak) stays within the budget for every rule of the regenerated _UTTER_SANITIZE_RULES table "
             "(C13_turn_line_budget; regex matching an oracle constrained by the table's token-minimal match per pattern)."),
    "note": ("max_tokens=0 (falsy) on the Speak op falls back to the agent cap (C13_speak_budget_zero_quirk; outside validated configs, t3.tokens ≥ 1). "
             "The schema says reflection is a boolean while the sanitiser also accepts boolean-like strings/0/1 and coerces them (documented in its docstring). "
             "Purity of deliberate/rag_once/speak (no mutation of the bundle/plan, same output on a second call, bundle sequences) is covered by "
             "monitors on the real code only; str.format, json.loads and LLM adapters are oracles. In a whole turn the line produced by T3 is "
             "monitored against the Speak budget after `_sanitize_utterance`; when the utterance is blank (T3 off, dry run, blank template) "
             "`run_turn` returns the user's input text as `line`, which is not a planner utterance and carries no budget (observed, not modelled). "
             "The Float instance of the comparison laws is trusted (IEEE-754) and probed on a boundary grid by Lean on every run. "
             "`sanitize_plan` (unused helper) and the `\"json block too large\"` guard (proved unreachable) are outside the tie."),
    "technique": "Lean 4 proofs over executable models (generic NaN-aware carrier, structural induction on strings/op lists) + exact differential "
                 "execution against the real planner, RAG refinement, dialogue, sanitiser and orchestrator",
    "design_ref": "DESIGN.md §4 C13",
}
DRIVER_MODULES = ['HT3']
TABLES = ['t3consts']
MODELLED = {
    "clematis/engine/stages/t3/policy.py": ["_policy_thresholds", "_topic_labels_from_bundle", "_edit_nodes_from_bundle",
                                            "deliberate", "plan_with_llm"],
    "clematis/engine/stages/t3/legacy.py": ["_first_request_retrieve_payload", "_normalize_rr_payload",
                                            "_normalize_retrieved_result", "_refined_intent", "rag_once"],
    "clematis/engine/stages/t3/dialogue.py": ["_tokenize", "_truncate_to_tokens", "_first_speak_op", "speak", "llm_speak"],
    "clematis/engine/policy/sanitize.py": ["_strip_triple_fences", "parse_and_validate", "_coerce_bool"],
    "clematis/engine/orchestrator/core.py": ["_sanitize_utterance"],
    "clematis/engine/stages/t3/bundle.py": ["cfg_caps", "assemble_bundle", "make_plan_bundle"],
    "clematis/engine/stages/t3/core.py": ["t3_pipeline"],
}
TABLES = ["t3consts", "utterrules"]
DRIVER_MODULES = ["HT3"]
TRUSTED = ["modelled, not verified: CPython str.split/strip/lower/format, json.loads, list.sort on total preorders; "
           "IEEE-754 comparison laws for Float (the proofs are over any lawful NaN-aware carrier)"]

NAN = float("nan")
INF = float("inf")


# --------------------------------------------------------------------------
# encoding helpers (cases must survive core._canon + JSON: floats are {"f": bits})
# --------------------------------------------------------------------------

def cps(s: str) -> List[int]:
    return [ord(c) for c in s]


def enc(x: Any) -> Any:
    if isinstance(x, bool) or x is None or isinstance(x, (int, str)):
        return x
    if isinstance(x, float):
        return {"f": f2b(x)}
    if isinstance(x, (list, tuple)):
        return [enc(v) for v in x]
    if isinstance(x, dict):
        return {k: enc(v) for k, v in x.items()}
    raise TypeError(type(x))


def dec(x: Any) -> Any:
    if isinstance(x, list):
        return [dec(v) for v in x]
    if isinstance(x, dict):
        if set(x.keys()) == {"f"} and isinstance(x["f"], str):
            return b2f(x["f"])
        return {k: dec(v) for k, v in x.items()}
    return x


def snap(x: Any) -> str:
    """NaN-safe structural snapshot (purity checks)."""
    return json.dumps(_canon(x), sort_keys=True, default=repr)


def guarded(fn):
    """impl wrapper: an exception of the real code on an in-domain input is a failing input (monitor `does_not_raise`),
    not an infrastructure problem."""
    def w(self, case):
        try:
            return fn(self, case)
        except Exception as e:  # noqa: BLE001
            return {"raised": f"{type(e).__name__}: {e}"[:200]}
    return w


def safe_request(fn):
    def w(self, case):
        try:
            return fn(self, case)
        except Exception as e:  # noqa: BLE001 - the real code raised while the request was being prepared
            return {"c": "const", "v": {"request_failed": type(e).__name__}}
    return w


def raised(io: Any) -> bool:
    return isinstance(io, dict) and set(io.keys()) == {"raised"}


RAISED_MON = [("does_not_raise", False, "the real code raised on an in-domain input")]


def ulp_up(x: float) -> float:
    return math.nextafter(x, INF)


def ulp_dn(x: float) -> float:
    return math.nextafter(x, -INF)


# --------------------------------------------------------------------------
# bundle generator + adapter (real bundle dict -> model bundle)
# --------------------------------------------------------------------------

LABEL_POOL = ["beta", "alpha", "alpha", "Zed", "é", "", "10", "9", 7, "gamma", "delta", "a b", "alpha "]
ID_POOL = ["n1", "n10", "n2", "a", "b", "A", "é", 5, "n1", "zz", "m"]
DELTAS = [0.0, 0.05, 0.1, 0.10000000000000002, 0.09999999999999999, -0.2, 0.5, -0.1, NAN, INF, -INF, "0.3", "bad", None, 1]
TH = [0.0, 0.1, 0.4, 0.8, 1.0, -0.5, NAN, INF, -INF, 0.5, 0.8, 0.4]


def gen_bundle(rng: random.Random) -> dict:
    r = rng.random()
    if r < 0.2:
        pol = None
    elif r < 0.5:
        pol = {"tau_high": 0.8, "tau_low": 0.4, "epsilon_edit": 0.10}
    elif r < 0.65:
        t = rng.choice(TH)
        pol = {"tau_high": t, "tau_low": t, "epsilon_edit": rng.choice([0.0, 0.1, 0.5, NAN])}
    else:
        pol = {}
        for k in ("tau_high", "tau_low", "epsilon_edit"):
            if rng.random() < 0.85:
                pol[k] = rng.choice(TH)
    tl = float((pol or {}).get("tau_low", 0.4))
    th = float((pol or {}).get("tau_high", 0.8))
    cand = [0.0, -0.0, tl, th, NAN, INF, -INF, rng.random(), rng.random(), 0.2, 0.6, 0.9]
    for t in (tl, th):
        if not (math.isnan(t) or math.isinf(t)):
            cand += [ulp_up(t), ulp_dn(t), ulp_up(t), ulp_dn(t)]
    s = rng.choice(cand)
    r = rng.random()
    if r < 0.85:
        sim: Any = {"max": s, "mean": 0.1}
    elif r < 0.9:
        sim = {}
    elif r < 0.95:
        sim = None
    else:
        sim = {"mean": 0.3}
    caps: dict = {}
    r = rng.random()
    if r < 0.9:
        caps["ops"] = rng.choice([0, 1, 1, 2, 2, 3, 3, 4, 8, -1, -2, True, 2.9, "3"])
    caps["tokens"] = 256
    b: dict = {"version": "t3-bundle-v1", "now": "2025-01-01T00:00:00Z",
               "agent": {"id": "A", "style_prefix": "", "caps": caps}}
    r = rng.random()
    if r < 0.45:
        pass
    elif r < 0.55:
        b["slice_caps"] = {}
    elif r < 0.9:
        b["slice_caps"] = {"t3_ops": rng.choice([0, 1, 2, 3, 5, -1, 1, 2, "2", 1.5])}
    else:
        b["slice_caps"] = {"t3_ops": rng.choice([None, "x", NAN, INF, [1]])}
    t3: dict = {"max_rag_loops": 1}
    if rng.random() < 0.85:
        t3["tokens"] = rng.choice([256, 1, 0, 64, "128", 256])
    if pol is not None:
        t3["policy"] = pol
    t2: dict = {}
    if rng.random() < 0.85:
        t2["owner_scope"] = rng.choice(["any", "agent", "world", "team", ""])
    if rng.random() < 0.85:
        t2["k_retrieval"] = rng.choice([64, 6, 1, 0, 3, 7, -4, "8"])
    if rng.random() < 0.5:
        t2["sim_threshold"] = 0.3
    b["cfg"] = {"t3": t3, "t2": t2}
    text: dict = {"input": "hello world"}
    r = rng.random()
    if r < 0.6:
        text["labels_from_t1"] = [rng.choice(LABEL_POOL) for _ in range(rng.choice([0, 1, 2, 3, 5, 6, 9]))]
    elif r < 0.7:
        text["labels_from_t1"] = None
    b["text"] = text
    nodes = []
    for _ in range(rng.choice([0, 0, 1, 2, 3, 5, 8, 12, 20])):
        n: dict = {"id": rng.choice(ID_POOL)}
        if rng.random() < 0.5:
            n["label"] = rng.choice(LABEL_POOL + [None])
        if rng.random() < 0.92:
            n["delta"] = rng.choice(DELTAS)
        nodes.append(n)
    b["t1"] = {"touched_nodes": nodes, "metrics": {}}
    b["t2"] = {"retrieved": [], "metrics": {"sim_stats": sim}} if rng.random() < 0.97 else {"retrieved": []}
    return b


def _owner_tag(o: Any) -> str:
    return o if o in ("agent", "world", "any") else "other"


def model_bundle(b: dict) -> dict:
    caps = b.get("agent", {}).get("caps", {})
    m: dict = {"baseOps": int(caps["ops"]) if "ops" in caps else None}
    sc = b.get("slice_caps", {})
    if "t3_ops" not in sc:
        m["slice"] = None
    else:
        try:
            m["slice"] = int(sc["t3_ops"])
        except Exception:
            m["slice"] = "bad"
    c = b.get("cfg", {})
    t3 = c.get("t3", {})
    t2 = c.get("t2", {})
    m["tokens"] = int(t3["tokens"]) if "tokens" in t3 else None
    pol = t3.get("policy", {}) if isinstance(t3, dict) else {}
    for k, mk in (("tau_high", "tauHigh"), ("tau_low", "tauLow"), ("epsilon_edit", "epsEdit")):
        m[mk] = f2b(float(pol[k])) if k in pol else None
    sim = b.get("t2", {}).get("metrics", {}).get("sim_stats", {}) or {}
    m["sMax"] = f2b(float(sim["max"])) if "max" in sim else None
    m["labels"] = [cps(str(x)) for x in (b.get("text", {}).get("labels_from_t1", []) or [])]
    nodes = []
    for n in b.get("t1", {}).get("touched_nodes", []) or []:
        try:
            d: Optional[str] = f2b(float(n.get("delta", 0.0)))
        except Exception:
            d = None
        nodes.append({"id": cps(str(n.get("id"))), "label": cps(str(n["label"])) if "label" in n else None, "delta": d})
    m["nodes"] = nodes
    m["owner"] = _owner_tag(str(t2.get("owner_scope", "any")))
    m["kRetrieval"] = int(t2["k_retrieval"]) if "k_retrieval" in t2 else None
    return m


def op_canon(op: Any) -> list:
    k = getattr(op, "kind", None)
    if k == "Speak":
        return ["speak", str(op.intent), [cps(str(x)) for x in op.topic_labels], int(op.max_tokens)]
    if k == "EditGraph":
        return ["edit", [cps(str(e.get("id"))) for e in op.edits], int(op.cap)]
    if k == "RequestRetrieve":
        return ["retrieve", _owner_tag(op.owner), int(getattr(op, "k", 0) or 0)]
    return ["other"]


def ops_canon(ops: Any) -> list:
    return [op_canon(o) for o in (ops or [])]


def ops_well_formed(ops: Any) -> Optional[str]:
    """Shape facts about planner-made ops that the op encoding abstracts from."""
    for o in ops or []:
        k = getattr(o, "kind", None)
        if k == "EditGraph":
            if not all(isinstance(e, dict) and e.get("op") == "upsert_node" and set(e) == {"op", "id"} for e in o.edits):
                return f"unexpected edit entries {o.edits!r}"[:200]
        if k == "Speak" and o.intent not in ("summary", "assertion", "ack", "question"):
            return f"unknown intent {o.intent!r}"
    return None


# --------------------------------------------------------------------------
# c13.delib
# --------------------------------------------------------------------------

class DelibComp(Component):
    """A case is a short sequence of bundles planned one after the other in the same process (a pure function
    must give each its own answer: stale module-level state shows up on the second bundle and replays)."""
    name = "c13.delib"
    budget = {"quick": 3000, "thorough": 100000, "search": 30000}

    def gen(self, rng, i):
        n = 3 if i < 10 else (1 if rng.random() < 0.8 else rng.choice([2, 3]))
        return {"bundles": [enc(gen_bundle(rng)) for _ in range(n)]}

    @staticmethod
    def _mk(s, th, tl, eps, ops, labels, tokens, owner, k, deltas, slice_ops=None):
        b = {"version": "t3-bundle-v1", "now": "n", "agent": {"id": "A", "caps": {"ops": ops, "tokens": tokens}},
             "cfg": {"t3": {"tokens": tokens, "policy": {"tau_high": th, "tau_low": tl, "epsilon_edit": eps}},
                     "t2": {"owner_scope": owner, "k_retrieval": k}},
             "text": {"input": "x", "labels_from_t1": labels},
             "t1": {"touched_nodes": [{"id": f"n{i}", "delta": d} for i, d in enumerate(deltas)]},
             "t2": {"metrics": {"sim_stats": {"max": s}}}}
        if slice_ops is not None:
            b["slice_caps"] = {"t3_ops": slice_ops}
        return b

    def corpus(self, ctx):
        # fixed leading sequences: consecutive bundles differ in every input the planner reads, so state leaking from
        # one call into the next changes an answer inside the same (replayable) case
        mk = self._mk
        seqs = [
            [mk(0.9, 0.8, 0.4, 0.1, 3, ["b", "a"], 256, "any", 64, [0.5, 0.0]),
             mk(0.9, 0.95, 0.92, 0.6, 2, [], 7, "agent", 6, [0.5, 0.7]),
             mk(0.1, 0.3, 0.05, 0.1, 1, ["z"], 1, "world", 3, [0.05], slice_ops=5),
             mk(0.1, 0.8, 0.4, 0.1, 4, ["q"], 9, "team", 9, [0.3, 0.3], slice_ops=2)],
            [mk(0.5, 0.8, 0.4, 0.1, 0, ["only"], 3, "any", 2, [1.0]),
             mk(0.5, 0.45, 0.44, 2.0, 3, ["other", "labels"], 300, "world", 11, [1.0, -3.0])],
        ]
        return [{"bundles": [enc(b) for b in sq]} for sq in seqs] + super().corpus(ctx)

    @guarded
    def impl(self, case):
        from clematis.engine.stages.t3.policy import deliberate
        outs = []
        for eb in case["bundles"]:
            b = dec(eb)
            before = snap(b)
            plan = deliberate(b)
            after = snap(b)
            plan2 = deliberate(b)
            outs.append({"ops": ops_canon(plan.ops), "pure": before == after,
                         "det": ops_canon(plan2.ops) == ops_canon(plan.ops),
                         "wf": ops_well_formed(plan.ops),
                         "hdr_ok": plan.version == "t3-plan-v1" and plan.reflection is False and plan.request_retrieve is None})
        return {"outs": outs}

    @safe_request
    def request(self, case):
        return {"c": "c13.delib", "bundles": [model_bundle(dec(b)) for b in case["bundles"]]}

    def compare(self, case, impl_out, model_out):
        if isinstance(impl_out, dict) and "outs" in impl_out:
            impl_out = [o["ops"] for o in impl_out["outs"]]
        return super().compare(case, impl_out, model_out)

    def monitor_requests(self, case, io):
        if raised(io):
            return []
        return [("plan_ok", {"c": "c13.delib.mon", "bundle": model_bundle(dec(b)), "ops": o["ops"]})
                for b, o in zip(case["bundles"], io["outs"])]

    def monitors(self, case, io):
        if raised(io):
            return RAISED_MON
        res = []
        for eb, o in zip(case["bundles"], io["outs"]):
            mb = model_bundle(dec(eb))
            base = 3 if mb["baseOps"] is None else mb["baseOps"]
            sl = mb["slice"] if isinstance(mb["slice"], int) else base
            cap = max(0, min(base, sl))
            res += [("no_mutation", o["pure"], "deliberate mutated its bundle"),
                    ("deterministic", o["det"], "deliberate returned different ops on the same bundle"),
                    ("ops_shape", o["wf"] is None and o["hdr_ok"], f"plan shape: {o['wf']} header ok={o['hdr_ok']}"),
                    ("op_cap", len(o["ops"]) <= cap, f"{len(o['ops'])} ops > cap {cap}"),
                    ("head_is_speak", (not o["ops"]) or o["ops"][0][0] == "speak", f"head op {o['ops'][:1]}")]
        return res

    def tags(self, case, io):
        if raised(io):
            return ["raised"]
        t = set()
        if len(case["bundles"]) > 1:
            t.add("sequence")
        for eb, o in zip(case["bundles"], io["outs"]):
            ops = o["ops"]
            if not ops:
                t.add("empty")
            else:
                if ops[0][0] == "speak":
                    t.add("intent:" + ops[0][1])
                for x in ops[1:]:
                    t.add("has:" + x[0])
            b = dec(eb)
            mb = model_bundle(b)
            if mb["slice"] == "bad":
                t.add("slice_bad")
            if mb["baseOps"] is not None and mb["baseOps"] < 0:
                t.add("neg_cap")
            sim = b.get("t2", {}).get("metrics", {}).get("sim_stats", {}) or {}
            s = sim.get("max")
            if isinstance(s, float) and math.isnan(s):
                t.add("nan_score")
        return sorted(t) or ["default"]

    def shrink(self, case):
        bs = case["bundles"]
        if len(bs) > 1:
            for i in range(len(bs)):
                yield {"bundles": bs[:i] + bs[i + 1:]}
        for k, b in enumerate(bs):
            nodes = b.get("t1", {}).get("touched_nodes", [])
            for i in range(len(nodes)):
                c = copy.deepcopy(case)
                del c["bundles"][k]["t1"]["touched_nodes"][i]
                yield c
            labels = b.get("text", {}).get("labels_from_t1") or []
            for i in range(len(labels)):
                c = copy.deepcopy(case)
                del c["bundles"][k]["text"]["labels_from_t1"][i]
                yield c


# --------------------------------------------------------------------------
# c13.rag
# --------------------------------------------------------------------------

INTENTS = ["summary", "assertion", "ack", "question"]


def build_ops(spec: list) -> list:
    from clematis.engine.types import SpeakOp, EditGraphOp, RequestRetrieveOp, CreateGraphOp
    out = []
    for o in spec:
        if o[0] == "speak":
            out.append(SpeakOp(kind="Speak", intent=o[1], topic_labels=list(o[2]), max_tokens=o[3]))
        elif o[0] == "edit":
            out.append(EditGraphOp(kind="EditGraph", edits=[{"op": "upsert_node", "id": x} for x in o[1]], cap=o[2]))
        elif o[0] == "retrieve":
            out.append(RequestRetrieveOp(kind="RequestRetrieve", query="q", owner=o[1], k=o[2],
                                         tier_pref="cluster_semantic", hints={}))
        else:
            out.append(CreateGraphOp(kind="CreateGraph", title="t", tags=[]))
    return out


def gen_ops_spec(rng: random.Random) -> list:
    ops = []
    for _ in range(rng.choice([0, 1, 2, 2, 3, 4, 6])):
        r = rng.random()
        if r < 0.35:
            ops.append(["speak", rng.choice(INTENTS), [rng.choice(["a", "b", "zz"]) for _ in range(rng.randrange(3))],
                        rng.choice([256, 1, 0, 7])])
        elif r < 0.55:
            ops.append(["edit", [rng.choice(["n1", "n2", "x"]) for _ in range(rng.randrange(1, 4))], rng.choice([1, 4, 8])])
        elif r < 0.9:
            ops.append(["retrieve", rng.choice(["any", "agent", "world", "team"]), rng.choice([0, 1, 3, 32, -2])])
        else:
            ops.append(["other"])
    return ops


class RagComp(Component):
    name = "c13.rag"
    budget = {"quick": 2000, "thorough": 60000, "search": 20000}

    def gen(self, rng, i):
        b = gen_bundle(rng)
        r = rng.random()
        if r < 0.55:
            plan: dict = {"kind": "delib"}
            # make the interesting branch (a RequestRetrieve in the plan) common
            if rng.random() < 0.7:
                pol = b["cfg"]["t3"].get("policy") or {}
                tl = float(pol.get("tau_low", 0.4))
                if not math.isnan(tl) and tl > -INF:
                    b["t2"] = {"retrieved": [], "metrics": {"sim_stats": {"max": rng.choice([ulp_dn(tl), tl - 0.2, -INF, 0.0 if tl > 0 else tl - 1.0])}}}
        elif r < 0.65:
            plan = {"kind": "ops", "ops": [["speak", rng.choice(INTENTS), ["a"], 256], ["retrieve", "any", 3]]}
        else:
            plan = {"kind": "ops", "ops": gen_ops_spec(rng)}
        pol = b["cfg"]["t3"].get("policy") or {}
        tl = float(pol.get("tau_low", 0.4))
        th = float(pol.get("tau_high", 0.8))
        pool = [0.0, -0.0, 0.2, 0.5, 0.9, 1.0, INF, -INF, -0.3, rng.random()]
        for t in (tl, th):
            if not math.isnan(t):
                pool += [t, t]
                if not math.isinf(t):
                    pool += [ulp_up(t), ulp_dn(t)]
        hits = [{"id": rng.choice(["m1", "m2", "m10", "a", "Z", "é"]), "score": rng.choice(pool)}
                for _ in range(rng.choice([0, 1, 1, 2, 3, 5, 9]))]
        return {"bundle": enc(b), "plan": plan, "hits": enc(hits), "already_used": rng.random() < 0.15}

    def _plan(self, case, b):
        from clematis.engine.types import Plan
        if case["plan"]["kind"] == "delib":
            from clematis.engine.stages.t3.policy import deliberate
            return deliberate(b)
        return Plan(version="t3-plan-v1", reflection=False, ops=build_ops(case["plan"]["ops"]), request_retrieve=None)

    @guarded
    def impl(self, case):
        from clematis.engine.stages.t3.legacy import rag_once
        b = dec(case["bundle"])
        plan = self._plan(case, b)
        hits = dec(case["hits"])
        calls: List[dict] = []

        def retrieve(payload):
            calls.append(payload)
            return {"retrieved": [dict(h) for h in hits], "metrics": {}}

        b_before, p_before = snap(b), ops_canon(plan.ops)
        plan2, m = rag_once(b, plan, retrieve, already_used=bool(case["already_used"]))
        pure = snap(b) == b_before and ops_canon(plan.ops) == p_before
        n1 = len(calls)
        plan3, m3 = rag_once(b, plan, retrieve, already_used=bool(case["already_used"]))  # same inputs, same answer
        det = ops_canon(plan3.ops) == ops_canon(plan2.ops) and snap(m3) == snap(m) and len(calls) == 2 * n1
        del calls[n1:]
        return {"plan_in": p_before, "pure": pure, "det": det, "ncalls": len(calls),
                "out": {"ops": ops_canon(plan2.ops),
                        "calls": [[_owner_tag(c.get("owner")), int(c.get("k"))] for c in calls],
                        "rag_used": bool(m.get("rag_used")), "rag_blocked": bool(m.get("rag_blocked")),
                        "post_s_max": float(m.get("post_s_max")),
                        "retrieved_ids": [cps(str(x)) for x in m.get("retrieved_ids", [])]},
                "k_ok": all(isinstance(c.get("k"), int) and c.get("k") >= 1 for c in calls)}

    def _hits_req(self, case):
        return [{"id": cps(str(h["id"])), "score": f2b(float(h["score"]))} for h in dec(case["hits"])]

    @safe_request
    def request(self, case):
        b = dec(case["bundle"])
        return {"c": "c13.rag", "bundle": model_bundle(b), "plan": ops_canon(self._plan(case, b).ops),
                "hits": self._hits_req(case), "alreadyUsed": bool(case["already_used"])}

    def compare(self, case, impl_out, model_out):
        if isinstance(impl_out, dict) and "out" in impl_out:
            impl_out = impl_out["out"]
        return super().compare(case, impl_out, model_out)

    def canon_model(self, case, out):
        if isinstance(out, dict) and isinstance(out.get("post_s_max"), str):
            out = dict(out)
            out["post_s_max"] = {"f": out["post_s_max"]}
        return out

    def monitor_requests(self, case, io):
        if raised(io):
            return []
        base = {"c": "c13.rag.mon", "bundle": model_bundle(dec(case["bundle"])), "plan": io["plan_in"],
                "ops": io["out"]["ops"], "ncalls": io["ncalls"], "alreadyUsed": bool(case["already_used"]),
                "rag_used": io["out"]["rag_used"], "post_s_max": f2b(io["out"]["post_s_max"])}
        return [("rag_" + m, dict(base, m=m)) for m in ("cap", "head", "intent", "calls")]

    def monitors(self, case, io):
        if raised(io):
            return RAISED_MON
        return [("no_mutation", io["pure"], "rag_once mutated its bundle or input plan"),
                ("deterministic", io["det"], "rag_once answered differently on a second call with the same inputs"),
                ("retrieve_at_most_once", io["ncalls"] <= 1 and not (case["already_used"] and io["ncalls"]),
                 f"retrieve_fn called {io['ncalls']} times (already_used={case['already_used']})"),
                ("payload_k_ge_1", io["k_ok"], f"payload k {io['out']['calls']}")]

    def tags(self, case, io):
        if raised(io):
            return ["raised"]
        o = io["out"]
        t = set()
        if o["rag_blocked"]:
            t.add("blocked")
        elif o["rag_used"]:
            t.add("refined")
            if o["ops"] != io["plan_in"]:
                t.add("changed")
            if any(x[0] == "edit" for x in o["ops"]) and not any(x[0] == "edit" for x in io["plan_in"]):
                t.add("edit_added")
            if len(o["ops"]) < len(io["plan_in"]):
                t.add("cut")
        else:
            t.add("noop")
        if case["plan"]["kind"] == "delib":
            t.add("plan:delib")
        return sorted(t)

    def shrink(self, case):
        for i in range(len(case["hits"])):
            c = copy.deepcopy(case)
            del c["hits"][i]
            yield c
        if case["plan"]["kind"] == "ops":
            for i in range(len(case["plan"]["ops"])):
                c = copy.deepcopy(case)
                del c["plan"]["ops"][i]
                yield c


# --------------------------------------------------------------------------
# c13.speak
# --------------------------------------------------------------------------

TEMPLATES = ["summary: {labels}. next: {intent}", "{style_prefix}| summary: {labels}. next: {intent}",
             "{labels} {snippets} {snippets_text} {identity}", "{intent}", "", "   ", "{bad", "{unknown}", "{0}",
             "a  b\tc\n d", "x y z {labels}", "{style_prefix}{intent}", "{labels!r:>30}",
             " lead {labels} trail ", "{snippets_text}", "w1 w2 w3 w4 w5 w6 w7 w8 w9 w10"]
STYLES = ["", "", "calm", "  ", "a b", "é", "x|"]
MAXTOK = [None, 0, 1, 1, 2, 3, 5, 8, 256, -1, True, False, 2.5, 0.5, "7", "x", NAN, INF, 0.0]
AGENT_TOK = [256, 0, 1, 3, 5, "x", None, -2, "4"]
BIG = 10 ** 9


def _tokv(v: Any) -> Any:
    if not v:
        return "falsy"
    try:
        return int(v)
    except Exception:
        return "raises"


class _Adapter:
    name = "stub"
    default_temperature = 0.2

    def __init__(self, text):
        self._t = text

    def generate(self, prompt, max_tokens=0, temperature=0.0):
        return SNS(text=self._t, tokens=len(self._t.split()), truncated=False)


class SpeakComp(Component):
    name = "c13.speak"
    budget = {"quick": 2000, "thorough": 60000, "search": 20000}

    def gen(self, rng, i):
        dlg: dict = {}
        if rng.random() < 0.9:
            dlg["template"] = rng.choice(TEMPLATES)
        if rng.random() < 0.3:
            dlg["identity"] = rng.choice(["I am   spaced out", "id"])
        if rng.random() < 0.5:
            dlg["include_top_k_snippets"] = rng.choice([0, 1, 2, 3, -1])
        agent: dict = {"id": "A", "style_prefix": rng.choice(STYLES), "caps": {}}
        if rng.random() < 0.85:
            agent["caps"]["tokens"] = rng.choice(AGENT_TOK)
        retrieved = [{"id": rng.choice(["m1", "m2", "", "m3"]), "text": rng.choice(["", "one two three", "x\ty z  w", "t"]),
                      "score": 0.5} for _ in range(rng.choice([0, 0, 1, 2, 4]))]
        labels = [rng.choice(["alpha", "beta", "two words", "  pad  ", "z", "é q"]) for _ in range(rng.choice([0, 1, 2, 3, 6]))]
        db = {"version": "t3-dialog-bundle-v1", "now": "t", "agent": agent, "text": {"input": "hi", "labels_from_t1": labels},
              "retrieved": retrieved, "dialogue": dlg}
        r = rng.random()
        if r < 0.12:
            ops: list = []
        elif r < 0.2:
            ops = [["other"], ["retrieve", "any", 1]]
        else:
            ops = [["speak", rng.choice(INTENTS), [rng.choice(["p", "q r", "s"]) for _ in range(rng.randrange(4))], rng.choice(MAXTOK)]]
            if rng.random() < 0.2:
                ops.insert(0, ["other"])
            if rng.random() < 0.2:
                ops.append(["speak", "ack", ["second"], 1])
        llm = rng.random() < 0.2
        case = {"db": enc(db), "ops": enc(ops), "llm": llm}
        if llm:
            case["text"] = rng.choice(["hello there  friend", "", "   ", "calm| already prefixed text here", "a b c d e f g h i j k",
                                       "x|y", " wide spaces here ", "one"])
        return case

    def _plan(self, ops_spec):
        from clematis.engine.types import Plan
        return Plan(version="t3-plan-v1", reflection=False, ops=build_ops(ops_spec), request_retrieve=None)

    def _toks(self, case):
        db = dec(case["db"])
        ops = dec(case["ops"])
        sp = next((o for o in ops if o[0] == "speak"), None)
        op_tok = None if sp is None else _tokv(sp[3])
        caps = db.get("agent", {}).get("caps", {})
        if "tokens" not in caps:
            agent_tok = None
        else:
            try:
                agent_tok = int(caps["tokens"])
            except Exception:
                agent_tok = None
        return op_tok, agent_tok

    @guarded
    def impl(self, case):
        from clematis.engine.stages.t3 import dialogue as D
        db = dec(case["db"])
        ops = dec(case["ops"])
        before = snap(db)
        if case["llm"]:
            utter, m = D.llm_speak(db, self._plan(ops), _Adapter(case["text"]))
            core = case["text"]
        else:
            utter, m = D.speak(db, self._plan(ops))
            # oracle for template expansion: the real speak with an unbounded budget and (when the template does
            # not mention it) no style prefix returns `core` itself
            db2 = copy.deepcopy(db)
            ops2 = copy.deepcopy(ops)
            hit = False
            for o in ops2:
                if o[0] == "speak" and not hit:
                    o[3] = BIG
                    hit = True
            if not hit:
                db2.setdefault("agent", {}).setdefault("caps", {})["tokens"] = BIG
            templ = str(db.get("dialogue", {}).get("template", "summary: {labels}. next: {intent}"))
            if "{style_prefix}" not in templ:
                db2["agent"]["style_prefix"] = ""
            core, _ = D.speak(db2, self._plan(ops2))
        if case["llm"]:
            utter2, m2 = D.llm_speak(db, self._plan(ops), _Adapter(case["text"]))
        else:
            utter2, m2 = D.speak(db, self._plan(ops))
        return {"out": {"text": cps(utter), "truncated": bool(m["truncated"]), "tokens": int(m["tokens"])},
                "core": core, "utter": utter, "pure": snap(db) == before and utter2 == utter and snap(m2) == snap(m),
                "types": isinstance(m["tokens"], int) and isinstance(m["truncated"], bool) and isinstance(utter, str)}

    @safe_request
    def request(self, case):
        db = dec(case["db"])
        if case["llm"]:
            core = case["text"]
        else:
            core = self.impl(case)["core"]
        templ = str(db.get("dialogue", {}).get("template", "summary: {labels}. next: {intent}"))
        op_tok, agent_tok = self._toks(case)
        return {"c": "c13.speak", "core": cps(core), "templHasStyle": "{style_prefix}" in templ,
                "style": cps(str(db.get("agent", {}).get("style_prefix", ""))), "opTok": op_tok, "agentTok": agent_tok,
                "llm": bool(case["llm"])}

    def compare(self, case, impl_out, model_out):
        if isinstance(impl_out, dict) and "out" in impl_out:
            impl_out = impl_out["out"]
        if isinstance(model_out, dict) and "out" in model_out:
            model_out = model_out["out"]
        return super().compare(case, impl_out, model_out)

    def monitor_requests(self, case, io):
        if raised(io):
            return []
        op_tok, agent_tok = self._toks(case)
        return [("within_budget", {"c": "c13.speak.mon", "utter": io["out"]["text"], "opTok": op_tok, "agentTok": agent_tok})]

    def monitors(self, case, io):
        if raised(io):
            return RAISED_MON
        op_tok, agent_tok = self._toks(case)
        budget = op_tok if isinstance(op_tok, int) else (256 if op_tok == "raises" else (256 if agent_tok is None else agent_tok))
        n = len(io["utter"].split())
        return [("tokens_le_budget", n <= max(0, budget), f"{n} tokens > budget {budget}"),
                ("token_count_exact", io["out"]["tokens"] == n, f"reported {io['out']['tokens']} tokens, utterance has {n}"),
                ("metric_types", io["types"], "metrics/utterance types"),
                ("no_mutation", io["pure"], "speak mutated its dialogue bundle or answered differently the second time")]

    def tags(self, case, io):
        if raised(io):
            return ["raised"]
        t = set()
        if io["out"]["truncated"]:
            t.add("truncated")
            if io["out"]["tokens"] == 0:
                t.add("budget_le_0")
        else:
            t.add("fits")
        op_tok, agent_tok = self._toks(case)
        if op_tok == "falsy":
            t.add("op_falsy")
        if op_tok == "raises":
            t.add("op_raises")
        if op_tok is None:
            t.add("no_speak_op")
        if case["llm"]:
            t.add("llm")
        if dec(case["db"])["agent"].get("style_prefix"):
            t.add("style")
        return sorted(t)

    def shrink(self, case):
        return []


# --------------------------------------------------------------------------
# c13.assemble  (bundle-assembly entry points driven from a ctx: caps reach the planner)
# --------------------------------------------------------------------------

SLICE_KEYS = ["t1_iters", "t1_pops", "t2_k", "t3_ops", "quantum_ms", "wall_ms"]


def _sb_class(case: dict) -> Any:
    """classification of `ctx.slice_budgets` for the forwarded key `t3_ops` (mirrors nothing but Python's
    truthiness / isinstance / `int()` primitives)"""
    mode = case["sb_mode"]
    if mode == "absent":
        return "absent"
    v = dec(case["sb"])
    if not v:
        return "absent"
    if not isinstance(v, dict):
        return "notDict"
    if "t3_ops" not in v:
        return "noKey"
    x = v["t3_ops"]
    if x is None:
        return {"v": None}
    try:
        return {"v": int(x)}
    except Exception:
        return {"v": "bad"}


class AssembleComp(Component):
    """`assemble_bundle`, `make_plan_bundle` (both facades) and `t3_pipeline` called with a ctx object whose
    `slice_budgets` / `t3.max_ops_per_turn` sit on every boundary; `deliberate` and `rag_once` then run on the
    bundle the REAL assembler produced, and the caps monitor is evaluated against the budgets of the ctx."""
    name = "c13.assemble"
    budget = {"quick": 1500, "thorough": 40000, "search": 15000}
    ENTRY = ("bundle.assemble_bundle", "bundle.make_plan_bundle", "legacy.make_plan_bundle", "t3_pipeline")

    def gen(self, rng, i):
        per_turn = rng.choice([0, 1, 1, 2, 2, 3, 3, 8, None, "2", -1])
        pt = 3 if per_turn is None else int(per_turn)
        r = rng.random()
        if r < 0.12:
            mode, sb = "absent", None
        elif r < 0.22:
            mode, sb = "value", rng.choice([None, {}, "x", 5, [1], 0])
        else:
            mode, sb = "value", {}
            for k in SLICE_KEYS:
                if rng.random() < (0.85 if k == "t3_ops" else 0.4):
                    sb[k] = rng.choice([None, 0, 0, 1, 1, pt, pt + 1, pt - 1, 2, 5, -1, "2", "0", 2.0, 0.0, True, False, "x", NAN])
        t3: dict = {"tokens": rng.choice([32, 1, 256]), "max_rag_loops": 1}
        if per_turn is not None:
            t3["max_ops_per_turn"] = per_turn
        if rng.random() < 0.5:
            t3["policy"] = {"tau_high": rng.choice([0.8, 0.6]), "tau_low": rng.choice([0.4, 0.2]), "epsilon_edit": rng.choice([0.1, 0.0, 0.6])}
        t2c = {"k_retrieval": rng.choice([4, 1, 64]), "sim_threshold": 0.3, "owner_scope": rng.choice(["any", "agent", "team"])}
        deltas = [{"id": rng.choice(["n1", "n2", "n3", "a", "b"]), "label": rng.choice(["L1", "L2", "x"]), "delta": rng.choice([0.5, 0.05, -0.7, 0.0])}
                  for _ in range(rng.choice([0, 1, 3, 6]))]
        s_max = rng.choice([0.1, 0.5, 0.9, 0.0, 0.4, 0.8, ulp_dn(0.4), NAN])
        hits = [{"id": rng.choice(["m1", "m2"]), "score": rng.choice([0.6, 0.9, 0.1])} for _ in range(rng.choice([0, 1, 2]))]
        return {"per_turn": per_turn, "sb_mode": mode, "sb": enc(sb), "t3": enc(t3), "t2": enc(t2c), "deltas": enc(deltas),
                "s_max": enc(s_max), "hits": enc(hits), "cfg_ns": rng.random() < 0.25}

    def _ctx(self, case):
        t3, t2c = dec(case["t3"]), dec(case["t2"])
        cfg: Any = SNS(t3=t3, t2=t2c) if case["cfg_ns"] else {"t3": t3, "t2": t2c}
        ctx = SNS(now="2025-01-01T00:00:00+00:00", agent_id="A", turn_id=1, input_text="hello", cfg=cfg)
        if case["sb_mode"] != "absent":
            ctx.slice_budgets = dec(case["sb"])
        s = dec(case["s_max"])
        t1 = SNS(graph_deltas=dec(case["deltas"]), metrics={})
        t2 = SNS(retrieved=[], metrics={"sim_stats": {"mean": 0.0, "max": s}, "k_returned": 0})
        return ctx, t1, t2

    @guarded
    def impl(self, case):
        from clematis.engine.stages.t3 import bundle as B, legacy as Lg, core as C
        from clematis.engine.stages.t3.policy import deliberate
        from clematis.engine.stages.t3.legacy import rag_once
        hits = dec(case["hits"])
        per = {}
        for name in self.ENTRY:
            ctx, t1, t2 = self._ctx(case)
            before = snap(getattr(ctx, "slice_budgets", None))
            steps = None
            if name == "bundle.assemble_bundle":
                b = B.assemble_bundle(ctx, {}, t1, t2)
            elif name == "bundle.make_plan_bundle":
                b = B.make_plan_bundle(ctx, {}, t1, t2)
            elif name == "legacy.make_plan_bundle":
                b = Lg.make_plan_bundle(ctx, {}, t1, t2)
            else:
                b, m = C.t3_pipeline(ctx, SNS(logs=[]), t1, t2)
                steps = m.get("steps")
            plan = deliberate(b)
            refined, _ = rag_once(b, plan, lambda payload: {"retrieved": [dict(h) for h in hits]})
            per[name] = {"bundle": b, "slice_caps": dict(b.get("slice_caps", {})), "ops": ops_canon(plan.ops),
                         "rag": ops_canon(refined.ops), "steps": steps, "ctx_pure": snap(getattr(ctx, "slice_budgets", None)) == before}
        first = per[self.ENTRY[0]]
        sc = first["slice_caps"].get("t3_ops")
        return {"out": {"slice": sc if (sc is None or (isinstance(sc, int) and not isinstance(sc, bool))) else repr(sc),
                        "ops": first["ops"], "rag": first["rag"]},
                "bundle": enc(first["bundle"]), "slice_caps": first["slice_caps"],
                "agree": all(snap(per[n]["bundle"]) == snap(first["bundle"]) for n in self.ENTRY),
                "steps": per["t3_pipeline"]["steps"], "ctx_pure": all(per[n]["ctx_pure"] for n in self.ENTRY)}

    def _common(self, case):
        pt = case["per_turn"]
        return {"perTurn": None if pt is None else int(pt), "sb": _sb_class(case)}

    @safe_request
    def request(self, case):
        io = self.impl(case)
        return dict(self._common(case), c="c13.assemble", bundle=model_bundle(dec(io["bundle"])),
                    hits=[{"id": cps(str(h["id"])), "score": f2b(float(h["score"]))} for h in dec(case["hits"])])

    def compare(self, case, impl_out, model_out):
        if isinstance(impl_out, dict) and "out" in impl_out:
            impl_out = impl_out["out"]
        return super().compare(case, impl_out, model_out)

    def monitor_requests(self, case, io):
        if raised(io):
            return []
        base = dict(self._common(case), c="c13.assemble.mon")
        return [("plan_within_requested_cap", dict(base, ops=io["out"]["ops"])),
                ("refined_plan_within_requested_cap", dict(base, ops=io["out"]["rag"]))]

    def _cap(self, case):
        pt = 3 if case["per_turn"] is None else int(case["per_turn"])
        c = _sb_class(case)
        if isinstance(c, dict) and isinstance(c["v"], int):
            return max(0, min(pt, c["v"]))
        return max(0, pt)

    def monitors(self, case, io):
        if raised(io):
            return RAISED_MON
        cap = self._cap(case)
        sb = dec(case["sb"]) if case["sb_mode"] != "absent" else None
        fwd_ok = True
        for k, v in io["slice_caps"].items():
            try:
                fwd_ok = fwd_ok and isinstance(sb, dict) and k in sb and v == int(sb[k])
            except Exception:
                fwd_ok = False
        return [("ops_le_requested_cap", len(io["out"]["ops"]) <= cap, f"{len(io['out']['ops'])} ops from a ctx asking for cap {cap} "
                 f"(per-turn {case['per_turn']}, slice budgets {sb!r}); slice_caps={io['slice_caps']}"),
                ("refined_ops_le_requested_cap", len(io["out"]["rag"]) <= cap, f"{len(io['out']['rag'])} refined ops, cap {cap}"),
                ("pipeline_steps_le_requested_cap", isinstance(io["steps"], int) and io["steps"] <= cap and io["steps"] == len(io["out"]["ops"]),
                 f"t3_pipeline reports {io['steps']} steps, cap {cap}, deliberate gives {len(io['out']['ops'])} ops"),
                ("slice_caps_are_the_budgets", fwd_ok, f"slice_caps {io['slice_caps']} vs budgets {sb!r}"),
                ("entry_points_agree", io["agree"], "the bundle-assembly entry points built different bundles from the same ctx"),
                ("ctx_not_mutated", io["ctx_pure"], "assembly mutated ctx.slice_budgets")]

    def tags(self, case, io):
        if raised(io):
            return ["raised"]
        c = _sb_class(case)
        t = {"sb:" + (c if isinstance(c, str) else ("none" if c["v"] is None else "bad" if c["v"] == "bad" else
                                                    "zero" if c["v"] == 0 else "neg" if c["v"] < 0 else "pos"))}
        pt = 3 if case["per_turn"] is None else int(case["per_turn"])
        if isinstance(c, dict) and isinstance(c["v"], int):
            t.add("slice_lt_turn" if c["v"] < pt else "slice_eq_turn" if c["v"] == pt else "slice_gt_turn")
        t.add(f"ops:{len(io['out']['ops'])}")
        return sorted(t)

    def shrink(self, case):
        sb = case["sb"]
        if isinstance(sb, dict):
            for k in list(sb):
                if k != "t3_ops":
                    c = copy.deepcopy(case)
                    del c["sb"][k]
                    yield c
        for i in range(len(case["deltas"])):
            c = copy.deepcopy(case)
            del c["deltas"][i]
            yield c


# --------------------------------------------------------------------------
# c13.line  (the line a turn emits = _sanitize_utterance ∘ speak / llm_speak)
# --------------------------------------------------------------------------

_RULES_CACHE: dict = {}


def utter_rules():
    """[(tag, compiled pattern, replacement)] read from the SOURCE of the orchestrator (same reader as the table)."""
    if "r" not in _RULES_CACHE:
        import re as _re
        from harness.core import REPO
        from harness.tables.utterrules import read_rules
        try:
            _RULES_CACHE["r"] = [(t, _re.compile(src, fl), rp) for t, src, fl, rp in read_rules(REPO)]
        except Exception:
            _RULES_CACHE["r"] = []
    return _RULES_CACHE["r"]


LEAKS = ["I'm Qwen", "Iam Qwen", "i 'm qwen", "I am Qwen", "I'M QWEN", "I am Qwen, a large language model developed by Alibaba Cloud",
         "I do not store or retain seeded memories", "I am Clematis. I am Clematis. I am Clematis.",
         "I am Clematis I am Clematis, I am Clematis!", "I'm Qwen I'm Qwen I'm Qwen"]
WORDS = ["hello", "there", "well", "ok", "so", "fine.", "(", "x"]


def gen_leak_text(rng: random.Random) -> str:
    """text containing material the rewrite rules match: generated from each rule's pattern (verified with `re`),
    or a known leak phrase, embedded among ordinary words, sometimes glued to punctuation."""
    from harness.lib import rxgen
    parts = [rng.choice(WORDS) for _ in range(rng.choice([0, 0, 1, 2, 3]))]
    for _ in range(rng.choice([1, 1, 2, 3])):
        rules = utter_rules()
        m = None
        if rules and rng.random() < 0.6:
            tag, pat, _ = rng.choice(rules)
            try:
                m = rxgen.minimal(pat.pattern, pat.flags) if rng.random() < 0.4 else rxgen.gen(pat.pattern, pat.flags, rng)
                if not pat.fullmatch(m):
                    m = None
            except Exception:
                m = None
        if m is None:
            m = rng.choice(LEAKS)
        if rng.random() < 0.15:
            m = rng.choice(["(", '"']) + m + rng.choice([")", ".", '"'])
        parts.append(m)
        parts += [rng.choice(WORDS) for _ in range(rng.choice([0, 0, 1, 2]))]
    return " ".join(parts)


def boundary_budget(rng: random.Random, text: str) -> int:
    n = len(text.split())
    return rng.choice([n, n, n - 1, n + 1, n - 2, 2, 3, 4, 1])


class LineComp(Component):
    """llm_speak / speak truncate to the budget, then the orchestrator's utterance filter rewrites the text: the emitted
    line must still be within the budget.  Real `llm_speak`/`speak` composed with the real `_sanitize_utterance`."""
    name = "c13.line"
    budget = {"quick": 1500, "thorough": 40000, "search": 15000}

    def gen(self, rng, i):
        text = gen_leak_text(rng)
        return {"text": text, "budget": boundary_budget(rng, text), "style": rng.choice(["", "", "", "calm", "I"]),
                "llm": rng.random() < 0.7}

    @guarded
    def impl(self, case):
        from clematis.engine.stages.t3 import dialogue as D
        from clematis.engine.types import Plan
        import clematis.engine.orchestrator.core as core
        plan = Plan(version="t3-plan-v1", reflection=False, ops=build_ops([["speak", "ack", [], case["budget"]]]),
                    request_retrieve=None)
        db = {"version": "t3-dialog-bundle-v1", "now": "t", "agent": {"id": "A", "style_prefix": case["style"], "caps": {"tokens": case["budget"]}},
              "text": {"input": "hi", "labels_from_t1": []}, "retrieved": [],
              "dialogue": {"template": case["text"].replace("{", "{{").replace("}", "}}")}}
        if case["llm"]:
            utter, m = D.llm_speak(db, plan, _Adapter(case["text"]))
        else:
            utter, m = D.speak(db, plan)
        line, meta = core._sanitize_utterance(SNS(turn_id=1, now=None), "A", "llm" if case["llm"] else "rulebased", utter)
        return {"utter": utter, "line": line, "n": len(line.split()) if isinstance(line, str) else -1,
                "rewritten": meta is not None, "patterns": list((meta or {}).get("patterns", []))}

    @safe_request
    def request(self, case):
        io = self.impl(case)
        return {"c": "c13.tokcount", "s": cps(io["line"])}

    def compare(self, case, impl_out, model_out):
        if isinstance(impl_out, dict) and "n" in impl_out:
            impl_out = impl_out["n"]
        return super().compare(case, impl_out, model_out)

    def monitor_requests(self, case, io):
        if raised(io):
            return []
        return [("line_within_budget", {"c": "c13.speak.mon", "utter": cps(io["line"]), "opTok": int(case["budget"]) if case["budget"] else "falsy",
                                        "agentTok": int(case["budget"])})]

    def monitors(self, case, io):
        if raised(io):
            return RAISED_MON
        b = max(0, case["budget"])
        return [("line_tokens_le_budget", io["n"] <= b, f"line {io['line']!r} has {io['n']} tokens, budget {case['budget']} (utterance {io['utter']!r})"),
                ("filter_never_adds_tokens", io["n"] <= len(io["utter"].split()),
                 f"utterance {io['utter']!r} ({len(io['utter'].split())} tokens) became {io['line']!r} ({io['n']} tokens)")]

    def tags(self, case, io):
        if raised(io):
            return ["raised"]
        t = {"rule:" + p for p in io["patterns"]} or {"unchanged"}
        if io["n"] == case["budget"]:
            t.add("at_budget")
        if len(io["utter"].split()) == case["budget"] and io["rewritten"]:
            t.add("rewritten_at_budget")
        return sorted(t)


# --------------------------------------------------------------------------
# c13.sanitize
# --------------------------------------------------------------------------

def _valid_obj(rng: random.Random) -> dict:
    n = rng.choice([0, 1, 2, 3, 15, 16])
    plan = ["x" * rng.choice([1, 1, 5, 199, 200]) if rng.random() < 0.7 else rng.choice(["step one", " pad ", "é ", "\ud800"])
            for _ in range(n)]
    o: dict = {"plan": plan, "rationale": "r" * rng.choice([1, 1, 20, 1999, 2000])}
    r = rng.random()
    if r < 0.5:
        o["reflection"] = rng.choice([True, False, "true", "FALSE", " Yes ", "n", "1", "0", 1, 0, "T", "y"])
    return o


def _mutate(rng: random.Random, o: dict) -> Any:
    k = rng.randrange(24)
    if k == 0:
        o["plan"] = ["s"] * 17
    elif k == 1:
        o["plan"] = ["x" * 201]
    elif k == 2:
        o["plan"] = o["plan"] + [rng.choice(["", "   ", "  ", "\t\n"])]
    elif k == 3:
        o["plan"] = o["plan"] + [rng.choice([1, None, ["a"], {"a": 1}, True, 1.5])]
    elif k == 4:
        o["rationale"] = rng.choice(["", "r" * 2001, 5, None, ["r"], True])
    elif k == 5:
        o["reflection"] = rng.choice([2, -1, "maybe", 1.0, 0.0, None, [], {}, "tru", "ＴＲＵＥ", "", 10 ** 30])
    elif k == 6:
        o[rng.choice(["extra", "Plan", "plan ", ""])] = 1
    elif k == 7:
        o.pop(rng.choice(["plan", "rationale"]))
    elif k == 8:
        return rng.choice([[o], "text", 5, None, True, 1.5, []])
    elif k == 9:
        o["plan"] = rng.choice(["step", {"0": "a"}, None, 3])
    elif k == 10:
        o.pop("plan")
        o.pop("rationale")
        o["zzz"] = 1
    elif k == 11:
        o = {"zzz": 1, **o}
    return o


def _wrap(rng: random.Random, body: str) -> str:
    k = rng.randrange(34)
    if k == 29:   # reasoning scratchpads / XML-ish wrappers in front of (or around) an otherwise fine payload
        pre = rng.choice(["<think>let me think</think>", "<think>\nsteps\n</think>\n\n", "<THINK>x</THINK>\n", "<think></think>",
                          " \n<think>a</think> ", "<thought>x</thought>", "<!-- note -->", "<reasoning>r</reasoning>\n",
                          "<|assistant|>", "<think>unterminated "])
        return pre + (body if rng.random() < 0.6 else "```json\n" + body + "\n```")
    if k == 30:
        w = rng.choice([("<answer>", "</answer>"), ("<json>", "</json>"), ("<response>\n", "\n</response>"), ("", "<think>after</think>"),
                        ("<think>a</think><think>b</think>", "")])
        return w[0] + body + w[1]
    if k == 31:   # raw far over the size limit, the payload itself small
        return "<think>" + "x" * rng.choice([19990, 20001, 25000]) + "</think>" + body
    if k == 32:
        return rng.choice(["\ufeff", "\ufeff\n", "\u200b", "\ufeff<think>t</think>"]) + body
    if k == 33:
        return rng.choice(["Sure! Here is the plan:\n", "Plan: "]) + body + rng.choice(["", "\nHope that helps."])
    if k == 26:
        return rng.choice(["Here is the plan:\n", "Sure! ", "x"]) + "```json\n" + body + "\n```"
    if k == 27:
        return "```json\n" + body + "\n```" + rng.choice(["\nHope this helps!", " ok", "\n```json\n{}\n```x"])
    if k == 28:
        return "prefix ```json\n" + body + "\n``` suffix ```"
    if k < 8:
        return body
    if k == 8:
        return "```json\n" + body + "\n```"
    if k == 9:
        return "```\n" + body + "\n```"
    if k == 10:
        return "  \n```JSON  \n" + body + "\n```  \n"
    if k == 11:
        return "```" + rng.choice(["python", "js", "json5", "yaml", " jsonc ", "jsonc", "Json", "ｊｓｏｎ", " json "]) + "\n" + body + "\n```"
    if k == 12:
        return "```json " + body + " ```"
    if k == 13:
        return "```json\n" + body + "\n```\n```json\n" + body + "\n```"
    if k == 14:
        return "Here is the plan:\n" + body
    if k == 15:
        return body + "\nHope this helps!"
    if k == 16:
        return rng.choice([" ", " ", "\x1c", "﻿", "\n\n", "\x85"]) + body + rng.choice([" ", "　", "\x1f", "﻿", ""])
    if k == 17:
        return "```json\n" + body + "\n``"
    if k == 18:
        return "``json\n" + body + "\n```"
    if k == 19:
        return "```json\n\n\n```"
    if k == 20:
        return "```json\n" + body + "\n```" + " " * rng.choice([1, 5])
    if k == 21:
        return "````json\n" + body + "\n````"
    if k == 22:
        return body[: rng.randrange(len(body) + 1)]
    if k == 23:
        return body.replace('"', "'")
    if k == 24:
        return body.replace(":", ": \n ", 1)
    return "```json\r\n" + body + "\r\n```"


RAW = ["", "   ", "```", "``````", "```\n```", "```\n\n```", "{", "}", "nan", "NaN", "Infinity", "[1e400]", "{}", "[]", "null", "true",
       '"{}"', "[" * 10000 + "]" * 10000, '{"a":' * 10000 + "1" + "}" * 10000,
       '{"plan":' + "[" * 5000 + "]" * 5000 + ',"rationale":"r"}',
       '{"plan":[],"rationale":"r","reflection":' + "1" + "0" * 5000 + "}",
       '{"plan":[],"rationale":"r","reflection":' + "1" + "0" * 400 + "}",
       '{"plan":[],"rationale":"r","reflection":1e400}', '{"plan":[],"rationale":"r","reflection":NaN}',
       '{"plan":[],"rationale":"r","reflection":-0}', '{"plan":[],"rationale":"r","reflection":1.0}',
       '{"plan":["\\ud800"],"rationale":"\\udfff"}', '{"plan":["\ud800"],"rationale":"r"}',
       '{"plan":["a\x00b"],"rationale":"r"}', '{"plan":["a\\u0000b"],"rationale":"r"}',
       '{"plan":["ok"],"rationale":"r","plan":["x","y"]}', '{"plan":["ok"],"rationale":"r","plan":5}',
       '{"plan":5,"rationale":"r","plan":["ok"]}', '{"rationale":"a","plan":[],"rationale":""}',
       '{"plan":["ok"],"rationale":"r","reflection":"no","reflection":"perhaps"}',
       '{"plan":["ok"],"rationale":"r",}', "{'plan':[],'rationale':'r'}", '{"plan":["ok"] "rationale":"r"}',
       '{"plan":["ok"],"rationale":"r"} {"plan":[],"rationale":"r"}', '﻿{"plan":[],"rationale":"r"}',
       '{"plan":[],"rationale":"r"}\x00', '{"plan":["' + "x" * 200 + '"],"rationale":"' + "r" * 2000 + '"}',
       '{"plan":["' + " " * 3 + '"],"rationale":"r"}', '{"plan":["\\u2003 \\t"],"rationale":"r"}',
       '{"plan":[" a "],"rationale":" "}', '{"plan":[],"rationale":"r","reflection":"\\u2003TRUE\\u00a0"}',
       '{"plan":[],"rationale":"r","reflection":"ＴＲＵＥ"}', '{"plan":[],"rationale":"r","reflection":"K"}']
NONSTR = ["none", "int", "bytes", "list", "dict", "float", "bool"]
NONSTR_VAL = {"none": None, "int": 5, "bytes": b'{"plan":[],"rationale":"r"}', "list": ['{"plan":[],"rationale":"r"}'],
              "dict": {"plan": [], "rationale": "r"}, "float": 1.5, "bool": True}


def _pad(rng: random.Random, body: str, total: int) -> str:
    if len(body) >= total:
        return body
    k = rng.randrange(4)
    pad = total - len(body)
    if k == 0:
        return body + " " * pad
    if k == 1:
        return " " * pad + body
    if k == 2 and pad >= 12:
        return "```json\n" + body + " " * (pad - 12) + "\n```"
    return body[:-1] + " " * pad + body[-1]


def _fallback_strip(s: str):
    s = s.strip()
    if s.startswith("```") and s.endswith("```"):
        i = s.find("\n")
        if i != -1:
            body = s[i + 1:-3].strip()
            return (body if body else s, s[3:i].strip().lower())
    return s, None


def to_j(v: Any, d: int = 0) -> Any:
    if v is None or isinstance(v, bool):
        return v
    if isinstance(v, int):
        return {"i": str(v)}
    if isinstance(v, float):
        return {"f": 0}
    if isinstance(v, str):
        return {"s": cps(v)}
    if isinstance(v, list):
        return {"a": [to_j(x, d + 1) for x in v] if d < 3 else []}
    if isinstance(v, dict):
        return {"o": [[cps(str(k)), to_j(x, d + 1)] for k, x in v.items()] if d < 3 else []}
    return {"f": 0}


_REASONS = [("non-string LLM output", "nonString"), ("raw output too large", "rawTooLarge"),
            ("unsupported code fence language", "badFence"), ("json block too large", "blockTooLarge"),
            ("non-JSON", "nonJson"), ("top-level must be object", "notObject"), ("missing key: ", "missingKey"),
            ("unknown key: ", "unknownKey"), ("plan must be array", "planNotArray"), ("plan too long", "planTooLong"),
            ("plan item length/content invalid", "planItem"), ("rationale length/type invalid", "rationale"),
            ("reflection must be boolean", "reflection")]


def _reason(msg: Any) -> Any:
    if not isinstance(msg, str):
        return ["nonstring-reason", repr(msg)[:80]]
    for pre, tag in _REASONS:
        if msg.startswith(pre):
            if tag in ("missingKey", "unknownKey"):
                return [tag, cps(msg[len(pre):])]
            return tag
    return ["unknown-reason", msg[:80]]


class SanitizeComp(Component):
    name = "c13.sanitize"
    budget = {"quick": 2500, "thorough": 60000, "search": 20000}

    def corpus(self, ctx):
        return super().corpus(ctx) + [{"text": t} for t in RAW] + [{"nonstr": k} for k in NONSTR]

    def gen(self, rng, i):
        r = rng.random()
        if r < 0.02:
            return {"nonstr": rng.choice(NONSTR)}
        if r < 0.06:
            return {"text": rng.choice(RAW)}
        o = _valid_obj(rng)
        if rng.random() < 0.55:
            o = _mutate(rng, o)
        try:
            body = json.dumps(o, ensure_ascii=rng.random() < 0.5, separators=rng.choice([(",", ":"), (", ", ": ")]))
        except Exception:
            body = json.dumps(o)
        if rng.random() < 0.05 and isinstance(o, dict):
            # duplicate keys: a second occurrence overriding the first
            extra = rng.choice(['"plan":5', '"plan":["dup"]', '"rationale":""', '"rationale":"again"', '"reflection":"maybe"', '"reflection":true'])
            body = body[:-1] + ("," if len(body) > 2 else "") + extra + "}"
        if r < 0.09:
            return {"text": _pad(rng, body, rng.choice([19999, 20000, 20001, 20002, 20013]))}
        return {"text": _wrap(rng, body)}

    def _text(self, case):
        if "nonstr" in case:
            return NONSTR_VAL[case["nonstr"]]
        return case["text"]

    def _oracle(self, text):
        """candidate via the real fence stripper (fallback: same rule re-implemented), json.loads as the oracle."""
        from clematis.engine.policy import sanitize as S
        strip = getattr(S, "_strip_triple_fences", None) or _fallback_strip
        try:
            cand = strip(text)[0]
        except Exception:
            cand = _fallback_strip(text)[0]
        try:
            return cand, ("ok", json.loads(cand))
        except Exception as e:
            return cand, ("err", type(e).__name__)

    def impl(self, case):
        from clematis.engine.policy.sanitize import parse_and_validate
        from clematis.engine.policy.json_schemas import PLANNER_V1
        text = self._text(case)
        try:
            ok, payload = parse_and_validate(text, PLANNER_V1)
            ok2, payload2 = parse_and_validate(text, PLANNER_V1)
            if (ok2, snap(payload2)) != (ok, snap(payload)):
                return {"raised": None, "res": {"ok": "nondeterministic"}, "candidate": None, "pwl": None, "payload": None}
        except BaseException as e:  # noqa: BLE001 - totality is the property
            if isinstance(e, (KeyboardInterrupt, SystemExit)):
                raise
            return {"raised": type(e).__name__, "res": {"raised": True}, "candidate": None}
        if ok is True:
            shape = (isinstance(payload, dict) and set(payload.keys()) == {"plan", "rationale", "reflection"}
                     and isinstance(payload["plan"], list) and all(isinstance(x, str) for x in payload["plan"])
                     and isinstance(payload["rationale"], str) and isinstance(payload["reflection"], bool))
            if shape:
                res: Any = {"ok": True, "plan": [cps(x) for x in payload["plan"]], "rationale": cps(payload["rationale"]),
                            "reflection": payload["reflection"]}
            else:
                res = {"ok": True, "malformed": repr(payload)[:200]}
        else:
            res = {"ok": False, "reason": _reason(payload)} if ok is False else {"ok": repr(ok)[:40]}
        cand = self._oracle(text)[0] if isinstance(text, str) and len(text) <= 20000 else None
        # the LLM planner entry point built on the sanitiser
        pwl = self._plan_with_llm(text)
        return {"raised": None, "res": res, "candidate": None if cand is None else cps(cand), "pwl": pwl,
                "payload": payload if ok is True else None}

    ENTRY_POINTS = ("policy.plan_with_llm", "legacy.plan_with_llm", "policy.run_policy")

    def _plan_with_llm(self, text):
        """Every caller of the sanitiser, driven with a stub adapter that returns `text` verbatim:
        `policy.plan_with_llm`, its facade `legacy.plan_with_llm`, and `policy.run_policy` (handle "llm")."""
        from clematis.engine.stages.t3 import policy as P
        from clematis.engine.stages.t3 import legacy as Lg
        saved = P._get_llm_adapter_from_cfg
        P._get_llm_adapter_from_cfg = lambda cfg: SNS(generate=lambda prompt, max_tokens=0, temperature=0.0: SNS(text=text))
        cfg = {"t3": {"backend": "llm", "llm": {}}}
        outs = {}
        try:
            for name in self.ENTRY_POINTS:
                ctx = SNS(turn_id=1, agent_id="A", cfg={})
                st = SNS(logs=[])
                try:
                    if name == "policy.plan_with_llm":
                        out = P.plan_with_llm(ctx, st, cfg)
                    elif name == "legacy.plan_with_llm":
                        out = Lg.plan_with_llm(ctx, st, cfg)
                    else:
                        out = P.run_policy({"name": "llm", "meta": {}}, {}, cfg, ctx, state=st)
                    outs[name] = {"raised": None, "out": out}
                except Exception as e:  # noqa: BLE001
                    outs[name] = {"raised": type(e).__name__}
            first = outs[self.ENTRY_POINTS[0]]
            return {"raised": first.get("raised"), "out": first.get("out"), "all": outs}
        finally:
            P._get_llm_adapter_from_cfg = saved

    def request(self, case):
        text = self._text(case)
        if not isinstance(text, str):
            return {"c": "c13.sanitize", "text": None, "parsed": None}
        if len(text) > 20000:
            return {"c": "c13.sanitize", "text": cps(text), "parsed": None}
        cand, (st, val) = self._oracle(text)
        return {"c": "c13.sanitize", "text": cps(text), "parsed": {"v": to_j(val)} if st == "ok" else None}

    def compare(self, case, impl_out, model_out):
        if isinstance(impl_out, dict) and "res" in impl_out:
            io = {"res": impl_out["res"], "candidate": impl_out["candidate"]}
        else:
            io = impl_out
        mo = model_out
        if isinstance(mo, dict) and "res" in mo:
            mo = dict(mo)
            if io.get("candidate") is None:
                mo["candidate"] = None
            r = io.get("res") if isinstance(io, dict) else None
            # a reworded rejection message is not a property matter: compare the verdict only
            if (isinstance(r, dict) and isinstance(r.get("reason"), list) and r["reason"][:1] == ["unknown-reason"]
                    and isinstance(mo["res"], dict) and mo["res"].get("ok") is False):
                io = dict(io, res={"ok": False})
                mo["res"] = {"ok": False}
        return super().compare(case, io, mo)

    def monitor_requests(self, case, io):
        if io["raised"] or io["res"].get("ok") is not True or "plan" not in io["res"]:
            return []
        text = self._text(case)
        if not isinstance(text, str):
            return [("accepted_non_string", {"c": "const", "v": False})]
        # independent of the repo's fence stripper: the documented rule (bare JSON or ONE fenced block, nothing around it)
        # re-implemented in `_fallback_strip` (kept equal to the model's `stripFences` by the exact correspondence above)
        cand, lang = _fallback_strip(text)
        if lang not in (None, "", "json", "jsonc"):
            return [("accepted_bad_fence_language", {"c": "const", "v": False})]
        try:
            st, val = "ok", json.loads(cand)
        except Exception:
            st, val = "err", None
        if st != "ok":
            return [("accepted_unparsable", {"c": "const", "v": False})]
        base = {"c": "c13.sanitize.mon", "parsed": {"v": to_j(val)}, "plan": io["res"]["plan"], "rationale": io["res"]["rationale"],
                "rawLen": len(text)}
        return [("accepted_is_acceptable", dict(base, m="acceptable")), ("accepted_within_limits", dict(base, m="within")),
                ("accepted_raw_size", dict(base, m="raw"))]

    def monitors(self, case, io):
        res = [("never_raises", io["raised"] is None, f"parse_and_validate raised {io['raised']}")]
        if io["raised"]:
            return res
        r = io["res"]
        res.append(("result_shape", ("reason" in r and r["ok"] is False) or ("plan" in r and r["ok"] is True),
                    f"unexpected result {r}"[:200]))
        if r.get("ok") is True and "plan" in r:
            pl = io["payload"]
            lim = (len(pl["plan"]) <= 16 and all(0 < len(x.strip()) and len(x) <= 200 for x in pl["plan"])
                   and 0 < len(pl["rationale"]) <= 2000)
            res.append(("accepted_limits_py", lim, "accepted object exceeds the documented limits"))
        p = io.get("pwl") or {}
        res.append(("plan_with_llm_never_raises", p.get("raised") is None, f"plan_with_llm raised {p.get('raised')}"))
        if p.get("raised") is None:
            out = p.get("out")
            if r.get("ok") is True and "plan" in r:
                okp = out == io["payload"]
            else:
                okp = isinstance(out, dict) and out.get("plan") == [] and str(out.get("rationale", "")).startswith("fallback")
            res.append(("plan_with_llm_consistent", okp, f"plan_with_llm returned {out!r}"[:200]))
        accepted = r.get("ok") is True and "plan" in r
        for name, eo in (p.get("all") or {}).items():
            if eo.get("raised") is not None:
                res.append(("entry_point_never_raises", False, f"{name} raised {eo['raised']}"))
                continue
            out = eo.get("out")
            fell_back = (isinstance(out, dict) and out.get("plan") == []
                         and (str(out.get("rationale", "")).startswith("fallback") or out.get("rationale", "") == ""
                              and name.endswith("run_policy") and not accepted))
            if accepted:
                pl = io["payload"]
                same = isinstance(out, dict) and out.get("plan") == pl["plan"] and out.get("rationale") == pl["rationale"]
                res.append(("entry_point_agrees_with_sanitiser", same, f"{name} returned {out!r} for an accepted raw"[:200]))
            else:
                # the sanitiser's verdict on the SAME raw string is the oracle: rejected raw => the caller must fall back
                res.append(("entry_point_accepts_only_sanitised", fell_back,
                            f"{name} accepted a raw string ({len(self._text(case)) if isinstance(self._text(case), str) else 'non-str'} chars) "
                            f"that parse_and_validate rejects: {out!r}"[:240]))
        return res

    def tags(self, case, io):
        if io["raised"]:
            return ["raised"]
        r = io["res"]
        if r.get("ok") is True:
            return ["accepted"] + (["fenced"] if isinstance(self._text(case), str) and self._text(case).strip().startswith("```") else [])
        reason = r.get("reason")
        return ["rej:" + (reason if isinstance(reason, str) else str(reason[0]))]

    def shrink(self, case):
        return []


# --------------------------------------------------------------------------
# c13.turn  (number of T2 invocations of a real turn)
# --------------------------------------------------------------------------

class _CfgA:
    def __init__(self, d):
        self._d = d if isinstance(d, dict) else {}

    def get(self, k, default=None):
        return self._d.get(k, default)

    def __getitem__(self, k):
        return self._d[k]

    def __contains__(self, k):
        return k in self._d

    def __getattr__(self, name):
        v = self._d.get(name)
        return _CfgA(v) if isinstance(v, dict) else v


class _CacheMgr:
    """Stand-in for the stage cache manager; `force` makes every lookup in a namespace that has a value a hit
    (the orchestrator trusts the cache), `hits` records what the turn observed."""

    def __init__(self):
        self.d = {}
        self.last = {}
        self.force = False
        self.hits = 0
        self.stats = {"size": 0}

    def get(self, ns, key):
        if (ns, key) in self.d:
            self.hits += 1
            return True, self.d[(ns, key)]
        if self.force and ns in self.last:
            self.hits += 1
            return True, self.last[ns]
        return False, None

    def set(self, ns, key, val):
        self.d[(ns, key)] = val
        self.last[ns] = val
        self.stats["size"] = len(self.d)


class TurnComp(Component):
    name = "c13.turn"
    budget = {"quick": 150, "thorough": 3000, "search": 1500}
    scratch: Optional[str] = None

    def gen(self, rng, i):
        c = {"max_rag_loops": rng.choice([0, 1, 1, 1, 2, 3, -1]), "t3_enabled": rng.random() < 0.9,
                "dry_run": rng.random() < 0.1, "cache": rng.choice(["off", "real", "miss", "hit", "hit"]),
                "ops_cap": rng.choice([0, 1, 2, 3, 8]),
                "plan": rng.choice(["real", "real", "real", "no_rr", "multi_rr", "rr_first", "two_rr_other"]),
                "text": rng.choice(["hello", "what is up", ""]), "tokens": rng.choice([1, 2, 3, 4, 5, 256]),
                "style": rng.choice(["", "", "calm", "two words"])}
        if rng.random() < 0.4:
            # LLM dialogue backend: a stub adapter emits text the utterance filter rewrites, at / around the budget
            c = dict(c, llm_text=gen_leak_text(rng), plan="real", t3_enabled=True, dry_run=False, style=rng.choice(["", "", "calm"]))
            c["tokens"] = max(1, boundary_budget(rng, c["llm_text"]))
        return c

    def _hook_plan(self, kind):
        from clematis.engine.types import Plan
        spec = {"no_rr": [["speak", "ack", [], 256], ["edit", ["n1"], 4]],
                "multi_rr": [["speak", "question", [], 256], ["retrieve", "any", 3], ["retrieve", "agent", 2], ["retrieve", "world", 1]],
                "rr_first": [["retrieve", "team", 0], ["speak", "question", ["a"], 256]],
                "two_rr_other": [["other"], ["retrieve", "any", 5], ["other"], ["retrieve", "any", 5]]}[kind]
        return Plan(version="t3-plan-v1", reflection=False, ops=build_ops(spec), request_retrieve=None)

    _memo: dict = {}

    def impl(self, case):
        hit = self._memo.get(id(case))
        if hit is not None and hit[0] is case:
            return hit[1]
        out = self._impl(case)
        self._memo[id(case)] = (case, out)
        return out

    @guarded
    def _impl(self, case):
        import tempfile
        import clematis.engine.orchestrator as orch
        import clematis.engine.orchestrator.core as core
        from clematis.engine.stages.t3.policy import deliberate
        from clematis.engine.types import Config
        base = self.scratch or tempfile.mkdtemp(prefix="c13turn_")
        d = tempfile.mkdtemp(prefix="t_", dir=base)
        os.environ["CLEMATIS_LOG_DIR"] = os.path.join(base, "logs")
        os.environ["CLEMATIS_LOGS_DIR"] = os.path.join(base, "logs")
        cfg = Config()
        cfg.t4["snapshot_dir"] = os.path.join(d, "snap")
        # the property quantifies over all values of max_rag_loops (the validator allows {0,1})
        cfg.t3["max_rag_loops"] = case["max_rag_loops"]
        cfg.t3["enabled"] = bool(case["t3_enabled"])
        cfg.t3["max_ops_per_turn"] = case["ops_cap"]
        cfg.t3["tokens"] = case.get("tokens", 256)
        cfg.scheduler["enabled"] = False
        if case["cache"] == "off":
            cfg.t4["cache"] = {"enabled": False}
        calls: List[str] = []
        real_t2 = core.t2_semantic
        cap: dict = {}

        def counting(ctx, state, text, t1):
            calls.append(str(text))
            return real_t2(ctx, state, text, t1)

        def hook(ctx, state, bundle):
            cap["bundle"] = copy.deepcopy(bundle)
            plan = deliberate(bundle) if case["plan"] == "real" else self._hook_plan(case["plan"])
            cap["plan"] = ops_canon(plan.ops)
            return plan

        saved = {k: getattr(orch, k, None) for k in ("t2_semantic", "t3_deliberate")}
        had = {k: hasattr(orch, k) for k in saved}
        orch.t2_semantic = counting
        orch.t3_deliberate = hook
        spoken: List[str] = []
        real_speak = getattr(core, "speak", None)

        def speak_rec(dialog_bundle, plan):
            u, m = real_speak(dialog_bundle, plan)
            spoken.append(u)
            return u, m

        if real_speak is not None:
            core.speak = speak_rec
        real_llm_speak = getattr(core, "llm_speak", None)

        def llm_speak_rec(dialog_bundle, plan, adapter):
            u, m = real_llm_speak(dialog_bundle, plan, adapter)
            spoken.append(u)
            return u, m

        if real_llm_speak is not None:
            core.llm_speak = llm_speak_rec
        if case.get("llm_text") is not None:
            cfg.t3["backend"] = "llm"
        try:
            ctx = SNS(turn_id=1, agent_id="AgentA", now_ms=12345, now="1970-01-01T00:00:12Z",
                      _dry_run_until_t4=bool(case["dry_run"]), cfg=cfg, config=cfg, style_prefix=case.get("style", ""))
            state: dict = {"memory_index": None}
            if case.get("llm_text") is not None:
                state["llm_adapter"] = _Adapter(case["llm_text"])
            pre = 0
            if case["cache"] in ("miss", "hit"):
                state["_cache_mgr"] = _CacheMgr()
            o = core.Orchestrator()
            if case["cache"] == "hit":
                o.run_turn(ctx, state, input_text=case["text"])
                pre = len(calls)
                del calls[:]
                cap.clear()
                ctx.turn_id = 2
                state["_cache_mgr"].force = True
                state["_cache_mgr"].hits = 0
            result = o.run_turn(ctx, state, input_text=case["text"])
        finally:
            if real_speak is not None:
                core.speak = real_speak
            if real_llm_speak is not None:
                core.llm_speak = real_llm_speak
            for k, v in saved.items():
                if had[k]:
                    setattr(orch, k, v)
                else:
                    try:
                        delattr(orch, k)
                    except AttributeError:
                        pass
        cm = state.get("_cache_mgr")
        line = getattr(result, "line", "")
        return {"n": len(calls), "bundle": enc(cap.get("bundle")), "plan": cap.get("plan"), "pre": pre,
                "line_tokens": len(line.split()) if isinstance(line, str) else -1,
                # the T3 utterance of this turn (None: T3 off / dry run); when it is blank run_turn echoes the input text,
                # which is not an utterance of the planner and carries no budget
                "spoken": (spoken[-1] if spoken and isinstance(spoken[-1], str) else None),
                "cache_hit": bool(isinstance(cm, _CacheMgr) and cm.hits > 0)}

    @safe_request
    def request(self, case):
        io = self.impl(case)
        b = dec(io["bundle"]) if io["bundle"] is not None else None
        mb = model_bundle(b) if b is not None else model_bundle({})
        return {"c": "c13.turn", "bundle": mb, "plan": io["plan"] or [], "hits": [],
                "cacheHit": bool(io["cache_hit"]), "t3Enabled": bool(case["t3_enabled"]), "dryRun": bool(case["dry_run"]),
                "yielded": False, "maxRagLoops": case["max_rag_loops"]}

    def compare(self, case, impl_out, model_out):
        if isinstance(impl_out, dict) and "n" in impl_out:
            impl_out = impl_out["n"]
        return super().compare(case, impl_out, model_out)

    def monitors(self, case, io):
        if raised(io):
            return RAISED_MON
        n = io["n"]
        return [("t2_at_most_two", n <= 2, f"t2_semantic ran {n} times in one turn"),
                ("t2_le_1_plus_max_rag_loops", n <= 1 + max(0, case["max_rag_loops"]),
                 f"t2_semantic ran {n} times with max_rag_loops={case['max_rag_loops']}"),
                ("turn_line_within_budget",
                 not (io["spoken"] or "").strip() or 0 <= io["line_tokens"] <= max(0, self._budget(case, io)),
                 f"turn line has {io['line_tokens']} tokens, budget {self._budget(case, io)} (t3.tokens={case.get('tokens', 256)})"),
                ("turn_utterance_within_budget",
                 io["spoken"] is None or len(io["spoken"].split()) <= max(0, self._budget(case, io)),
                 f"T3 utterance {io['spoken']!r} exceeds budget {self._budget(case, io)}")]

    @staticmethod
    def _budget(case, io):
        """the Speak op's max_tokens when the plan has one (truthy), else the agent cap (= t3.tokens)"""
        sp = next((o for o in (io["plan"] or []) if o[0] == "speak"), None)
        if sp is not None and sp[3]:
            return int(sp[3])
        return int(case.get("tokens", 256))

    def tags(self, case, io):
        if raised(io):
            return ["raised"]
        t = {f"t2calls:{io['n']}", "plan:" + case["plan"]}
        if io["cache_hit"]:
            t.add("cache_hit")
        if io["plan"] is None:
            t.add("no_t3")
        if case.get("llm_text") is not None:
            t.add("llm_backend")
        if (io["spoken"] or "").strip():
            t.add("line_at_budget" if io["line_tokens"] == self._budget(case, io) else "line_below_budget")
        elif io["spoken"] is not None:
            t.add("blank_utterance_echo")
        return sorted(t)


DELIB, RAG, SPEAK, LINE, SANITIZE, TURN, ASSEMBLE = (DelibComp(), RagComp(), SpeakComp(), LineComp(), SanitizeComp(), TurnComp(),
                                                    AssembleComp())
COMPONENTS = [DELIB, RAG, ASSEMBLE, SPEAK, LINE, SANITIZE, TURN]


def REPO_PATH():
    from harness.core import REPO
    return REPO


def _prechecks(ctx: Ctx) -> None:
    """Facts about CPython primitives the models rely on, re-checked on every run."""
    ws = [c for c in range(0x110000) if chr(c).isspace()]
    got = run_driver([{"c": "c13.isspace"}])[0].get("ok")
    if got != ws:
        ctx.proof_break(f"model isSpace differs from str.isspace(): python={ws[:40]} model={str(got)[:200]}")
    ws2 = [c for c in range(0x110000) if chr(c).strip() == ""]
    if ws2 != ws:
        ctx.proof_break("str.strip() whitespace set differs from str.isspace()")
    letters = set("jsonctrueyfal")
    bad = [hex(c) for c in range(128, 0x110000) if letters & set(chr(c).lower())]
    if bad:
        ctx.proof_break(f"non-ASCII code points lower-case into accepted-word letters: {bad[:10]}")
    # the IEEE comparison laws the proofs assume (LawfulPyOrd), evaluated by Lean at Float on boundary values
    fv = [NAN, -NAN, INF, -INF, 0.0, -0.0, 5e-324, -5e-324, 0.4, ulp_up(0.4), ulp_dn(0.4), 0.8, ulp_up(0.8), ulp_dn(0.8),
          1.0, -1.0, 1.7976931348623157e308, -1.7976931348623157e308, 0.1, 0.10000000000000002]
    laws = run_driver([{"c": "c13.floatlaws", "vals": [f2b(x) for x in fv]}])[0].get("ok")
    if laws is not True:
        ctx.proof_break(f"Float does not satisfy the LawfulPyOrd laws on the probe grid: {laws}")
    # the regex facts the turn-line theorem takes from the table (`Clem.Gen.UtterRules`): sampled matches of every rule's
    # pattern (verified with `re`) have at least the tokens of the table's minimal match and do not start with whitespace
    from harness.lib import rxgen
    from harness.tables.utterrules import read_rules
    import re as _re
    rrng = ctx.rng_for("utterrules")
    nsamp = 0
    try:
        for tag, src, fl, repl in read_rules(REPO_PATH()):
            pat = _re.compile(src, fl)
            mn = len(rxgen.minimal(src, fl).split())
            for _ in range(200):
                g = rxgen.gen(src, fl, rrng)
                if pat.fullmatch(g):
                    nsamp += 1
                    if len(g.split()) < mn or g[:1].isspace():
                        ctx.proof_break(f"utterance rule {tag}: sampled match {g!r} has fewer tokens than the table's minimal match ({mn}) or starts with whitespace")
                        break
    except Exception as e:  # the table generator reports the same condition as a translator error
        ctx.note(f"utterance rules could not be sampled: {type(e).__name__}: {e}"[:200])
    ctx.extra["prechecks"] = {"utter_rule_match_samples": nsamp,"isspace_codepoints": len(ws), "lower_ascii_collisions": len(bad),
                              "float_law_triples": len(fv) ** 3, "float_laws_hold": laws is True}


def run(ctx: Ctx) -> None:
    if ctx.tier != "search":
        _prechecks(ctx)
    TURN.scratch = str(ctx.tmpdir("turn"))
    for comp in COMPONENTS:
        run_component(ctx, comp)


def replay(ctx: Ctx, rec: dict) -> int:
    from harness.core import generic_replay
    TURN.scratch = str(ctx.tmpdir("turn"))
    return generic_replay(ctx, rec, {c.name: c for c in COMPONENTS})
