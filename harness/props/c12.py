"""C12 — T1 propagation: spreading rule, reach, budgets, output order, counters, purity.

Correspondence: the real `t1_propagate` is run in-process on generated stores / texts / configs and
compared exactly (floats by bit pattern) with the Lean model `Clem.T1.t1` executed at `Float`
through `clemdrv` — outputs (deltas, counters, max_delta) AND a trace of the real run obtained
without repo hooks: `t1.heapq` (pops/pushes with their operands), `t1.defaultdict` (the final
accumulator) and `t1._compute_decay` (distances) are shimmed by the harness for the duration of a call,
and the store is a subclass of `InMemoryGraphStore` that marks the start of each graph computation.
The Lean predicates `outputOk`, `budgetOk`, `traceRuleOk` and the seeds characterisation are evaluated
by the driver on the implementation's outputs/trace.
"""
from __future__ import annotations

import copy
import math
import random
import struct
from types import SimpleNamespace as NS
from typing import Any, Dict, List, Optional, Tuple

from harness.core import Component, Ctx, run_component, f2b, b2f

RULE = ("generated stores of 1-3 graphs (1-7 nodes, 0-14 edges: cycles, self-loops, parallel edges, dangling endpoints, "
        "negative/zero/boundary weights, unknown relations, tags incl. empty/non-string), ASCII texts built from the labels, "
        "every decay mode, caps in {absent,0,1,tight,loose,negative}, slice caps, perf frontier/visited/dedupe caps, legacy cache "
        "on/off, duplicate/unknown active graph ids; a case is non-trivial when the real run hits at least one of: relaxation, "
        "radius/layer/node-budget/relax-cap/queue-budget/frontier-cap/EPS cut, cache hit, multi-graph, KeyError; distinct by "
        "canonical JSON of the case")
ASSUMPTIONS = [
    "node/relation ids are only compared (ids mapped to their rank under code-point order by the driver; relation names to naturals)",
    "labels, tags and text are ASCII in the exact stream (`.lower()` modelled on ASCII)",
    "no NaN reaches a heap key (generated weights/multipliers are finite and small; CPython's heapq order under NaN is unspecified)",
    "labels are `str` or None; `attrs['tags']` entries that are not `str` are dropped before the model (the code skips them by isinstance)",
    "sequential path is modelled; the parallel fan-out is compared on outputs only (C09 owns schedule independence)",
    "cache: only the legacy LRU with default size/ttl inside one call (duplicate graph ids); cross-call cache behaviour is C05's",
]
TRUSTED = [
    "modelled, not verified: CPython heapq (extract-min of a multiset under tuple order), dict insertion order, float arithmetic = IEEE double (Lean Float ops probed bit-identical incl. pow)",
    "trace shims (harness-side monkeypatching of t1.heapq / t1.defaultdict / t1._compute_decay for the duration of one call)",
]
CLAIM = {
    "text": ("Unbounded Lean theorems (induction on the pop fuel / edge lists, for every number carrier, hence for the executed Float instance) about the "
             "executable model of t1_propagate: seeds = nodes with a non-empty label/tag occurring in the text; every relaxation in the event log "
             "is contrib = w*weight*mult*decay(d) over a real out-edge with d = dist(src)+1 within radius and layer caps and |contrib| >= EPS; "
             "the accumulator is seed weight plus the contributions in log order; every touched node is reachable from a seed within the caps; "
             "pops <= max(0, effective queue budget incl. slice caps), iters <= max(0, effective layers), propagations <= max(relax_cap,0), nothing is expanded or "
             "pushed at |acc| >= node_budget; deltas strictly ascending = accumulator keys with |acc| >= EPS; counters equal event counts; the perf dedupe "
             "ring and visited set are inert as written. Tied to the code by exact differential execution (outputs + heap/accumulator/decay trace) "
             "and by evaluating the Lean predicates on the implementation's outputs."),
    "note": ("Purity (no store mutation) is covered by correspondence only: deep comparison of the store before/after on the real code "
             "(get_graph on an unknown gid materialises an EMPTY graph in the store — tolerated by the monitor, reported as an observation). "
             "relax_cap <= 0: the unpatched code makes one relaxation (1 > cap) because the cap is only tested after a relaxation; "
             "proposed_fixes/C12_relax_cap_precheck.diff adds the pre-check (behaviour for caps >= 1 and None unchanged, 519 repo tests pass); model, "
             "theorem C12_relax_cap / C12_budgets and monitors follow the repaired code; corpus/C12/t1__relax_cap_zero.json re-reports the defect if it returns. "
             "The trace monitor (t1.trace) is the decidable reflection of the proved history predicates (EvOK/ReachInv) on the observable events of the real run; "
             "it is not itself proved equal to them. "
             "Unicode lowercasing, NaN heap keys, parallel path internals and cross-call caching are not modelled. "
             "A config without t1.decay (or with a falsy / partial one) uses the defaults of _compute_decay (repaired by 61a6e8c; the old KeyError is re-reported through corpus/C12/t1_nodecay__default_config.json)."),
    "technique": "Lean 4 loop-invariant proofs by induction on fuel over an exact executable model + exact differential execution with trace shims + Lean-evaluated monitors",
    "design_ref": "DESIGN.md §4 C12",
}
MODELLED = {
    "clematis/engine/stages/t1.py": ["_match_keywords", "_compute_decay", "t1_propagate"],
    "clematis/graph/store.py": ["InMemoryGraphStore.csr", "InMemoryGraphStore.get_graph", "InMemoryGraphStore.ensure"],
    "clematis/engine/util/ring.py": ["DedupeRing"],
    "clematis/engine/util/lru_det.py": ["DeterministicLRUSet"],
}
DRIVER_MODULES = ["HT1"]

REL_FIXED = {"supports": 0, "associates": 1, "contradicts": 2}


def cps(s: str) -> List[int]:
    return [ord(ch) for ch in s]


def nextafter(x: float, up: bool) -> float:
    return math.nextafter(x, math.inf if up else -math.inf)


# --------------------------------------------------------------------------
# building the real inputs
# --------------------------------------------------------------------------

class AttrDict(dict):
    """dict-with-attributes config shape (as used by the smoke-turn helpers)."""
    def __getattr__(self, k):
        try:
            return self[k]
        except KeyError:
            raise AttributeError(k)


def _f(x):
    """case floats are stored as IEEE bit strings"""
    return b2f(x) if isinstance(x, str) else x


def build_t1cfg(case: dict) -> dict:
    t = {}
    for k, v in case["t1"].items():
        if k == "decay":
            if v is None:
                t[k] = None
            else:
                d = {}
                for kk, vv in v.items():
                    d[kk] = vv if kk == "mode" else _f(vv)
                t[k] = d
        elif k == "edge_type_mult":
            t[k] = {kk: _f(vv) for kk, vv in v.items()}
        elif k == "node_budget":
            t[k] = _f(v)
        elif k == "cache":
            t[k] = dict(v)
        else:
            t[k] = v
    return t


def build_ctx(case: dict):
    t = build_t1cfg(case)
    perf = copy.deepcopy(case.get("perf"))
    shape = case.get("shape", "ns")
    if shape == "attrdict":
        cfg = AttrDict(t1=t)
        if perf is not None:
            cfg["perf"] = perf
    else:
        cfg = NS(t1=t)
        if perf is not None:
            cfg.perf = perf
    ctx = NS(cfg=cfg, turn_id="t", agent_id="A")
    if "slice" in case:
        ctx.slice_budgets = copy.deepcopy(case["slice"])
    return ctx


def build_store(case: dict, rec: Optional["Rec"] = None):
    from clematis.graph.store import InMemoryGraphStore, Node, Edge

    class TracedStore(InMemoryGraphStore):
        _rec = None  # recorder of the call in progress (set by call_real)

        def csr(self, gid):
            if self._rec is not None:
                self._rec.begin(gid)
            return super().csr(gid)

    store = TracedStore()
    store._rec = rec
    for g in case["graphs"]:
        store.ensure(g["gid"])
        nodes = []
        for n in g["nodes"]:
            attrs: Any = {}
            tags = n.get("tags")
            if tags == "bad-int":
                attrs = {"tags": 5}
            elif tags == "bad-attrs":
                attrs = None
            elif tags is not None:
                attrs = {"tags": list(tags)}
            nodes.append(Node(id=n["id"], label=n.get("label"), attrs=attrs))
        store.upsert_nodes(g["gid"], nodes)
        store.upsert_edges(g["gid"], [Edge(id=e["id"], src=e["src"], dst=e["dst"], weight=_f(e["w"]), rel=e["rel"])
                                      for e in g["edges"]])
    return store


def snapshot_store(store) -> Any:
    out = {}
    for gid, g in store._graphs.items():
        out[gid] = {
            "nodes": [(k, n.id, n.label, repr(n.attrs)) for k, n in g.nodes.items()],
            "edges": [(k, e.id, e.src, e.dst, f2b(e.weight), e.rel, repr(e.attrs)) for k, e in g.edges.items()],
            "etag": g.version_etag, "meta": repr(g.meta), "flags": repr(g.flags),
        }
    return out


class Rec:
    """Trace of one real call, split per freshly computed graph: one event stream
    (`pop`/`push` from the heap shim, `decay` from `_compute_decay`, `acc` from accumulator writes)."""

    def __init__(self):
        self.segs: List[dict] = []

    def begin(self, gid):
        self.segs.append({"gid": gid, "events": [], "acc": None})

    def cur(self):
        return self.segs[-1] if self.segs else None


def install_shims(t1mod, rec: Rec):
    import heapq as real_heapq
    from collections import defaultdict as real_dd

    class HeapShim:
        @staticmethod
        def heappush(pq, item):
            s = rec.cur()
            if s is not None:
                s["events"].append(["push", item[1], f2b(item[3])])
            return real_heapq.heappush(pq, item)

        @staticmethod
        def heappop(pq):
            it = real_heapq.heappop(pq)
            s = rec.cur()
            if s is not None:
                s["events"].append(["pop", it[2], f2b(it[3])])
            return it

        nsmallest = staticmethod(real_heapq.nsmallest)
        heapify = staticmethod(real_heapq.heapify)

        def __getattr__(self, k):
            return getattr(real_heapq, k)

    class DD(real_dd):
        _quiet = False
        _seg = None

        def __missing__(self, k):
            self._quiet = True
            try:
                return super().__missing__(k)
            finally:
                self._quiet = False

        def __setitem__(self, k, v):
            if not self._quiet and self._seg is not None:
                try:
                    self._seg["events"].append(["acc", k, f2b(v)])
                except Exception:
                    self._seg["events"].append(["acc", k, "?"])
            super().__setitem__(k, v)

    def dd(*a, **kw):
        d = DD(*a, **kw)
        s = rec.cur()
        if s is not None and s["acc"] is None:
            s["acc"] = d
            d._seg = s
        return d

    saved = {}
    for name in ("heapq", "defaultdict", "_compute_decay"):
        saved[name] = getattr(t1mod, name, None)
    real_decay = saved["_compute_decay"]

    def decay(distance, cfg_t1):
        s = rec.cur()
        if s is not None:
            s["events"].append(["decay", distance])
        return real_decay(distance, cfg_t1)

    ok = all(v is not None for v in saved.values())
    if ok:
        t1mod.heapq = HeapShim()
        t1mod.defaultdict = dd
        t1mod._compute_decay = decay
    return saved, ok


def remove_shims(t1mod, saved):
    for name, v in saved.items():
        if v is not None:
            setattr(t1mod, name, v)


def reset_cache(t1mod):
    for name in ("_T1_CACHE", "_T1_CACHE_CFG", "_T1_CACHE_KIND"):
        if hasattr(t1mod, name):
            setattr(t1mod, name, None)


def parallel_on(case) -> bool:
    p = (case.get("perf") or {}).get("parallel") or {}
    return bool(p.get("enabled")) and bool(p.get("t1")) and int(p.get("max_workers") or 0) > 1


METRIC_KEYS = ["pops", "iters", "propagations", "radius_cap_hits", "layer_cap_hits", "node_budget_hits",
               "max_delta", "cache_hits", "cache_misses", "t1_frontier_evicted", "t1_dedup_hits", "t1_visited_evicted"]



def slice_left(case: dict, pops: int, iters: int) -> dict:
    """the case as the next graph of the same call sees it: a T1 slice budget is shared by the active graphs,
    each graph gets what the earlier ones left (`int(slice) - total so far`); no slice budget: unchanged"""
    sl = case.get("slice")
    if not sl:
        return case
    left = dict(sl)
    if left.get("t1_pops") is not None:
        left["t1_pops"] = int(left["t1_pops"]) - pops
    if left.get("t1_iters") is not None:
        left["t1_iters"] = int(left["t1_iters"]) - iters
    return dict(case, slice=left)


def call_real(case: dict, active: List[str], trace: bool, store=None, keep_cache: bool = False) -> dict:
    """One real `t1_propagate` call; on a fresh store built from `case`, or on the given (history) store."""
    from clematis.engine.stages import t1 as t1mod
    rec = Rec()
    if store is None:
        store = build_store(case, None)
    store._rec = rec if trace else None
    before = snapshot_store(store)
    ctx = build_ctx(case)
    cfg_before = repr(ctx.cfg)
    state = {"store": store, "active_graphs": list(active)}
    if not keep_cache:
        reset_cache(t1mod)
    saved, ok = ({}, False)
    if trace:
        saved, ok = install_shims(t1mod, rec)
    try:
        res = t1mod.t1_propagate(ctx, state, case["text"])
    finally:
        remove_shims(t1mod, saved)
        if not keep_cache:
            reset_cache(t1mod)
        store._rec = None
    after = snapshot_store(store)
    created = [g for g in after if g not in before]
    pure = all(after[g] == before[g] for g in before) and all(
        after[g]["nodes"] == [] and after[g]["edges"] == [] for g in created) and repr(ctx.cfg) == cfg_before \
        and state["active_graphs"] == list(active) and state["store"] is store
    m = res.metrics
    out = {
        "deltas": [cps(d.get("id")) if isinstance(d.get("id"), str) else ["?"] for d in res.graph_deltas],
        "ops_ok": all(isinstance(d, dict) and d.get("op") == "upsert_node" and set(d) == {"op", "id"} for d in res.graph_deltas),
        "metrics": {k: (f2b(m[k]) if k == "max_delta" else m[k]) for k in METRIC_KEYS if k in m},
        "flags": {"graphs_touched": m.get("graphs_touched"), "cache_used": m.get("cache_used"),
                  "cache_enabled": m.get("cache_enabled")},
        "pure": pure, "created": created,
        "trace": None,
    }
    if trace and ok:
        segs = []
        for s in rec.segs:
            heap = [[e[0] == "pop", e[1], e[2]] for e in s["events"] if e[0] in ("pop", "push")]
            k = 0
            while k < len(heap) and not heap[k][0]:
                k += 1
            acc = s["acc"]
            segs.append({
                "gid": s["gid"],
                "seeds": [cps(h[1]) for h in heap[:k]],
                "heap": [[h[0], cps(h[1]), h[2]] for h in heap[k:]],
                "decays": [e[1] for e in s["events"] if e[0] == "decay"],
                "acc": [[cps(kk), f2b(vv)] for kk, vv in acc.items()] if acc is not None else None,
                "pops": sum(1 for h in heap if h[0]),
                "events": [[e[0], e[1]] if e[0] == "decay" else [e[0], cps(e[1]), e[2]] for e in s["events"]],
            })
        # sanity: if the code no longer goes through the shimmed names (harmless refactor), the trace is
        # unusable — fall back to outputs only instead of alarming
        coherent = all(sg["acc"] is not None and sg["events"] and sg["events"][0][0] == "push"
                       and any(e[0] == "acc" for e in sg["events"]) for sg in segs)
        if coherent and not m.get("cache_hits"):
            coherent = (sum(sg["pops"] for sg in segs) == m.get("pops")
                        and sum(len(sg["decays"]) for sg in segs) >= m.get("propagations", 0)
                        and sum(1 for sg in segs for e in sg["events"] if e[0] == "acc") >= m.get("propagations", 0))
        out["trace"] = segs if coherent else None
        out["trace_dropped"] = not coherent
    return out


# --------------------------------------------------------------------------
# model request
# --------------------------------------------------------------------------

def rel_codes(case: dict) -> Dict[str, int]:
    codes = dict(REL_FIXED)
    names = []
    for g in case["graphs"]:
        for e in g["edges"]:
            names.append(e["rel"])
    names += list((case["t1"].get("edge_type_mult") or {}).keys())
    for n in names:
        if n not in codes:
            codes[n] = len(codes)
    return codes


def cfg_json(case: dict, eps_bits: str) -> dict:
    t = case["t1"]
    perf = case.get("perf") or {}
    codes = rel_codes(case)

    def pint(path):
        cur: Any = perf
        for k in path:
            if not isinstance(cur, dict):
                return 0
            cur = cur.get(k, {} if k != path[-1] else 0)
        return int(cur or 0)

    sl = case.get("slice") or {}
    decay = None
    if t.get("decay"):  # absent / None / {} => all defaults (`cfg_t1.get("decay", {}) or {}`)
        d = t["decay"]
        decay = {"attn_quad": d.get("mode", "exp_floor") == "attn_quad",
                 "rate": d.get("rate"), "floor": d.get("floor"), "alpha": d.get("alpha")}
    em = None
    if "edge_type_mult" in t:
        em = [[codes[k], v] for k, v in t["edge_type_mult"].items()]
    cache_on = bool((t.get("cache", {}) or {}).get("enabled", True))
    return {
        "queue_budget": t.get("queue_budget"), "node_budget": t.get("node_budget"),
        "radius_cap": t.get("radius_cap"), "iter_cap": t.get("iter_cap"),
        "iter_cap_layers": t.get("iter_cap_layers"), "relax_cap": t.get("relax_cap"),
        "slice_iters": sl.get("t1_iters"), "slice_pops": sl.get("t1_pops"),
        "perf_enabled": bool(perf.get("enabled", False)),
        "metrics_enabled": bool((perf.get("metrics") or {}).get("report_memory", False)),
        "frontier": pint(["t1", "caps", "frontier"]), "visited": pint(["t1", "caps", "visited"]),
        "dedupe": pint(["t1", "dedupe_window"]),
        "decay": decay, "edge_mult": em, "eps": eps_bits, "cache_on": cache_on,
    }


def graph_json(case: dict, g: Optional[dict]) -> dict:
    if g is None:
        return {"nodes": [], "edges": []}
    codes = rel_codes(case)
    nodes = []
    for n in g["nodes"]:
        tags = n.get("tags")
        if not isinstance(tags, list):
            tags = []
        nodes.append({"id": cps(n["id"]), "label": cps(n["label"]) if n.get("label") is not None else None,
                      "tags": [cps(x) for x in tags if isinstance(x, str)]})
    return {"nodes": nodes,
            "edges": [{"src": cps(e["src"]), "dst": cps(e["dst"]), "w": e["w"], "rel": codes[e["rel"]]}
                      for e in g["edges"]]}


def eps_bits() -> str:
    from clematis.engine.stages import t1 as t1mod
    return f2b(float(getattr(t1mod, "EPS", 1e-6)))


def model_request(case: dict, active: List[str]) -> dict:
    gids = [g["gid"] for g in case["graphs"]]
    graphs = [graph_json(case, g) for g in case["graphs"]]
    idx = []
    for a in active:
        if a in gids:
            idx.append(gids.index(a))
        else:
            gids.append(a)
            graphs.append(graph_json(case, None))
            idx.append(len(gids) - 1)
    return {"c": "t1", "text": cps(case["text"]), "graphs": graphs, "active": idx,
            "cfg": cfg_json(case, eps_bits())}


# --------------------------------------------------------------------------
# generator
# --------------------------------------------------------------------------

IDS = ["a", "b", "B", "n1", "n10", "n2", "n:x", "", "z9", "aa", "é", "n:y"]
WORDS = ["hello", "World", "HELLO", "he", "x", "cat", "Cat nap", "o w", "zz", "Dog", "lo wor", "a"]
RELS = ["supports", "associates", "contradicts", "weird", "", "Supports"]


def gen_weight(rng: random.Random) -> float:
    r = rng.random()
    if r < 0.55:
        return rng.choice([1.0, 0.9, 0.8, 0.5, 0.3, 0.75, 0.25, 0.6])
    if r < 0.7:
        return rng.choice([-1.0, -0.7, -0.5, 0.0, -0.0, -0.25])
    if r < 0.8:
        return rng.choice([1.5, 2.0, 1.25, -2.0, 3.0])
    if r < 0.9:
        e = 1e-6
        return rng.choice([e, nextafter(e, False), nextafter(e, True), -e, 2e-6, 1e-7, 1e-5,
                           e / 0.6, nextafter(e / 0.6, False), 1e-3])
    return round(rng.uniform(-1.2, 1.2), rng.choice([1, 2, 3]))


def gen_graph(rng: random.Random, gid: str, words: List[str]) -> dict:
    nn = rng.choice([1, 2, 3, 3, 4, 5, 7])
    ids = rng.sample(IDS, min(nn, len(IDS)))
    nodes = []
    for i in ids:
        r = rng.random()
        label = rng.choice(words) if r < 0.7 else (None if r < 0.85 else "")
        n: Dict[str, Any] = {"id": i, "label": label}
        r2 = rng.random()
        if r2 < 0.3:
            n["tags"] = [rng.choice(words + ["", 5, None]) for _ in range(rng.choice([1, 2, 3]))]
        elif r2 < 0.34:
            n["tags"] = "bad-int"
        elif r2 < 0.37:
            n["tags"] = "bad-attrs"
        nodes.append(n)
    ne = rng.choice([0, 1, 2, 3, 4, 6, 8, 11, 14])
    pool = ids + ([rng.choice(IDS)] if rng.random() < 0.2 else [])
    edges = []
    for k in range(ne):
        s = rng.choice(pool)
        d = s if rng.random() < 0.1 else rng.choice(pool)
        if edges and rng.random() < 0.12:  # parallel edge
            s, d = edges[-1]["src"], edges[-1]["dst"]
        edges.append({"id": f"e{k}", "src": s, "dst": d, "w": f2b(gen_weight(rng)),
                      "rel": rng.choice(RELS[:3]) if rng.random() < 0.8 else rng.choice(RELS)})
    return {"gid": gid, "nodes": nodes, "edges": edges}


def gen_text(rng: random.Random, words: List[str], graphs: Optional[List[dict]] = None) -> str:
    r = rng.random()
    if r < 0.04:
        return ""
    parts = []
    # most texts mention at least one real keyword of some graph (so that something is seeded)
    if graphs and rng.random() < 0.8:
        kws = []
        for g in graphs:
            for n in g["nodes"]:
                if n.get("label"):
                    kws.append(n["label"])
                if isinstance(n.get("tags"), list):
                    kws += [t for t in n["tags"] if isinstance(t, str) and t]
        for _ in range(rng.choice([1, 1, 2])):
            if kws:
                w = rng.choice(kws)
                parts.append(w.upper() if rng.random() < 0.3 else w)
    for _ in range(rng.choice([1, 2, 3, 4])):
        w = rng.choice(words + WORDS[:3])
        m = rng.random()
        if m < 0.3:
            w = w.upper()
        elif m < 0.5:
            w = w.lower()
        elif m < 0.6:
            w = w[:-1]
        parts.append(w)
    return rng.choice([" ", "", ", "]).join(parts)


def gen_cap(rng: random.Random, loose: List[int]) -> Optional[int]:
    r = rng.random()
    if r < 0.35:
        return None
    if r < 0.7:
        return rng.choice([0, 1, 1, 2, 2, 3, 3])
    if r < 0.96:
        return rng.choice(loose)
    return rng.choice([-1, -3])


def gen_case(rng: random.Random, i: int, decay_present: bool = True) -> dict:
    words = rng.sample(WORDS, rng.choice([2, 3, 5]))
    ng = rng.choice([1, 1, 1, 2, 3])
    graphs = [gen_graph(rng, f"g{j}", words) for j in range(ng)]
    active = [g["gid"] for g in graphs]
    if rng.random() < 0.1:
        active.append(rng.choice(active))
    if rng.random() < 0.06:
        active.insert(rng.randrange(len(active) + 1), "g:unknown")
    if rng.random() < 0.05:
        rng.shuffle(active)
    t: Dict[str, Any] = {}
    if not decay_present:
        # absent / falsy / partial decay sections: defaults of the code apply
        r = rng.random()
        if r < 0.4:
            pass
        elif r < 0.5:
            t["decay"] = None
        elif r < 0.6:
            t["decay"] = {}
        elif r < 0.7:
            t["decay"] = {"mode": "attn_quad"}
        elif r < 0.8:
            t["decay"] = {"rate": f2b(rng.choice([0.9, 0.5, 1.0]))}
        elif r < 0.9:
            t["decay"] = {"floor": f2b(rng.choice([0.0, 0.5, 1e-6]))}
        else:
            t["decay"] = {"mode": rng.choice(["exp_floor", "other"]), "alpha": f2b(0.25)}
    if decay_present:
        mode = rng.choice(["exp_floor", "exp_floor", "attn_quad", "other", None])
        d: Dict[str, Any] = {}
        if mode is not None:
            d["mode"] = mode
        if rng.random() < 0.7:
            d["rate"] = f2b(rng.choice([0.6, 0.9, 1.0, 0.5, 0.1, 0.999, 1.1, 0.0]))
        if rng.random() < 0.7:
            d["floor"] = f2b(rng.choice([0.05, 0.0, 0.5, 1.0, 1e-6, 1e-7]))
        if rng.random() < 0.6:
            d["alpha"] = f2b(rng.choice([0.8, 0.0, 1.0, 0.25, 10.0]))
        t["decay"] = d
    qb = gen_cap(rng, [5, 8, 20, 60, 200])
    if qb is None and rng.random() < 0.94:
        qb = rng.choice([30, 100, 300])
    if qb is not None:
        t["queue_budget"] = qb
    for key, loose in (("radius_cap", [4, 5, 10]), ("iter_cap", [4, 50]), ("iter_cap_layers", [3, 50])):
        v = gen_cap(rng, loose)
        if v is not None and rng.random() < 0.7:
            t[key] = v
    r = rng.random()
    if r < 0.35:
        t["relax_cap"] = rng.choice([0, 1, 1, 2, 3, 5, 10, 50, -1])
    elif r < 0.4:
        t["relax_cap"] = None
    if rng.random() < 0.6:
        t["node_budget"] = f2b(rng.choice([1.5, 1.5, 2.0, 2.0, 100.0, 100.0, 1.8, 3.0, 3.0, 1.0, 0.5, 0.0,
                                            nextafter(1.0, True), nextafter(1.0, False), 1.6, nextafter(1.6, False)]))
    if rng.random() < 0.35:
        em = {}
        for k in rng.sample(RELS, rng.choice([1, 2, 4])):
            em[k] = f2b(rng.choice([1.0, 0.6, 0.8, 0.0, -1.0, 0.5, 2.0]))
        t["edge_type_mult"] = em
    cache_on = rng.random() < 0.12
    t["cache"] = {"enabled": cache_on}
    if cache_on and rng.random() < 0.5:
        del t["cache"]  # default: enabled
    case: Dict[str, Any] = {"text": gen_text(rng, words, graphs), "graphs": graphs, "active": active, "t1": t,
                            "shape": rng.choice(["ns", "ns", "attrdict"])}
    r = rng.random()
    if r < 0.45:
        perf: Dict[str, Any] = {"enabled": rng.random() < 0.85}
        if rng.random() < 0.7:
            perf["metrics"] = {"report_memory": rng.random() < 0.8}
        pt: Dict[str, Any] = {}
        caps = {}
        if rng.random() < 0.8:
            caps["frontier"] = rng.choice([0, 1, 1, 2, 2, 3, 5, None])
        if rng.random() < 0.4:
            caps["visited"] = rng.choice([0, 1, 2, 5])
        if caps:
            pt["caps"] = caps
        if rng.random() < 0.4:
            pt["dedupe_window"] = rng.choice([0, 1, 2, 4, None])
        if pt:
            perf["t1"] = pt
        if rng.random() < 0.12 and not cache_on:
            perf["parallel"] = {"enabled": True, "t1": True, "max_workers": rng.choice([1, 2, 3])}
        case["perf"] = perf
    r = rng.random()
    if r < 0.3:
        sl = {}
        if rng.random() < 0.7:
            sl["t1_pops"] = rng.choice([0, 1, 2, 3, 5, 50, None])
        if rng.random() < 0.7:
            sl["t1_iters"] = rng.choice([0, 1, 2, 3, 50, None])
        case["slice"] = sl
    elif r < 0.35:
        case["slice"] = None
    return case


# --------------------------------------------------------------------------
# component
# --------------------------------------------------------------------------

def eff_queue(case) -> int:
    qb = int(case["t1"].get("queue_budget", 10_000))
    sp = (case.get("slice") or {}).get("t1_pops")
    return qb if sp is None else min(qb, int(sp))


class T1Comp(Component):
    name = "t1"
    budget = {"quick": 3200, "thorough": 40000, "search": 10000}
    decay_present = True

    def gen(self, rng: random.Random, i: int) -> dict:
        return gen_case(rng, i, self.decay_present)

    def impl(self, case: dict) -> Any:
        trace = not parallel_on(case)
        try:
            out = call_real(case, case["active"], trace)
        except Exception as e:  # well-formed input: the stage must complete (monitor `completes`)
            return {"raised_exc": type(e).__name__, "msg": str(e)[:200]}
        # per-graph runs of the real code (for the concat / per-graph budget monitors)
        singles = None
        if len(case["active"]) > 1:
            singles = []
            tp = ti = 0
            for a in case["active"]:
                try:
                    singles.append(call_real(slice_left(case, tp, ti), [a], trace))
                    tp += int(singles[-1]["metrics"]["pops"])
                    ti += int(singles[-1]["metrics"]["iters"])
                except Exception as e:  # the whole call would have raised too
                    singles.append({"__raised__": type(e).__name__})
        out["singles"] = singles
        return out

    def request(self, case: dict) -> dict:
        return model_request(case, case["active"])

    def compare(self, case, impl_out, model_out) -> Optional[str]:
        if isinstance(model_out, dict) and "__model_err__" in model_out:
            return f"model error {model_out['__model_err__']}"
        if isinstance(impl_out, dict) and ("__raised__" in impl_out or "raised_exc" in impl_out):
            name = impl_out.get("__raised__") or impl_out.get("raised_exc")
            return f"impl raised {name}: {impl_out.get('msg')} ; model={str(model_out)[:200]}"
        if "raised" in model_out:
            return "model raised KeyError, impl did not"
        a = {"deltas": impl_out["deltas"],
             "metrics": impl_out["metrics"]}
        b = {"deltas": [d[1] for d in model_out["deltas"]],
             "metrics": {k: v for k, v in model_out["metrics"].items() if k in impl_out["metrics"]}}
        if impl_out.get("trace") is not None:
            # seeds and accumulator are compared as sets / maps (dict insertion order is incidental);
            # pops, pushes and decay calls in order (priority order and edge order are the documented rule)
            def canon_seg(sg):
                return {"seeds": sorted(sg["seeds"]), "heap": sg["heap"], "decays": sg["decays"],
                        "acc": sorted(sg["acc"], key=lambda kv: kv[0])}
            a["trace"] = [canon_seg(sg) for sg in impl_out["trace"]]
            b["trace"] = [canon_seg(sg) for sg in model_out["trace"] if sg is not None]
        from harness.core import _canon, first_diff
        a, b = _canon(a), _canon(b)
        return None if a == b else first_diff(a, b)

    # -- monitors ------------------------------------------------------------
    def _graph_of(self, case, gid):
        for g in case["graphs"]:
            if g["gid"] == gid:
                return g
        return None

    def monitor_requests(self, case, impl_out) -> List[Tuple[str, dict]]:
        rq: List[Tuple[str, dict]] = []
        if "raised_exc" in impl_out:
            return rq
        cj = cfg_json(case, eps_bits())
        runs = [(case["active"], impl_out)]
        for a, s in zip(case["active"], impl_out.get("singles") or []):
            if "__raised__" not in s:
                runs.append(([a], s))
        for active, out in runs:
            if len(active) == 1:
                m = out["metrics"]
                if out["flags"].get("cache_used") is not True:
                    rq.append(("budget", {"c": "t1.budget", "cfg": cj, "pops": m["pops"], "iters": m["iters"],
                                          "props": m["propagations"]}))
            if out.get("trace") is None or (len(active) > 1 and impl_out.get("singles")):
                continue  # multi-graph traces are checked on the per-graph runs (and compared exactly)
            for seg in out["trace"]:
                g = graph_json(case, self._graph_of(case, seg["gid"]))
                rq.append(("seeds", {"c": "t1.seeds", "graph": g, "text": cps(case["text"]), "seeds": seg["seeds"]}))
                rq.append(("rule", {"c": "t1.rule", "cfg": cj, "graph": g, "heap": seg["heap"]}))
                rq.append(("trace", {"c": "t1.trace", "cfg": cj, "graph": g, "events": seg["events"]}))
                rq.append(("pops_budget", {"c": "t1.budget", "cfg": dict(cj, relax_cap=None), "pops": seg["pops"],
                                           "iters": -10**9, "props": 0}))
                if len(active) == 1 and seg["acc"] is not None and len(out["trace"]) == 1:
                    rq.append(("output", {"c": "t1.output", "cfg": cj, "graph": g, "acc": seg["acc"],
                                          "deltas": out["deltas"]}))
        return rq

    def monitors(self, case, impl_out):
        res = []
        if "raised_exc" in impl_out:
            return [("completes", False, f"t1_propagate raised {impl_out['raised_exc']}: {impl_out.get('msg')} "
                                         "on a well-formed store/text/config (no seeding, no propagation, no result)")]
        res.append(("purity", bool(impl_out["pure"]), "store/config/state changed by t1_propagate"))
        res.append(("delta_shape", bool(impl_out["ops_ok"]), "a delta is not {'op':'upsert_node','id':…}"))
        res.append(("graphs_touched", impl_out["flags"]["graphs_touched"] == len(case["active"]),
                    f"graphs_touched={impl_out['flags']['graphs_touched']} active={len(case['active'])}"))
        singles = impl_out.get("singles")
        cache_on = bool((case["t1"].get("cache", {}) or {}).get("enabled", True))
        if singles and not cache_on and all("__raised__" not in s for s in singles):
            cat = [d for s in singles for d in s["deltas"]]
            res.append(("concat_deltas", cat == impl_out["deltas"], "deltas are not the per-graph concatenation in active order"))
            for k in ("pops", "iters", "propagations", "radius_cap_hits", "layer_cap_hits", "node_budget_hits"):
                tot = sum(s["metrics"][k] for s in singles)
                res.append((f"sum_{k}", tot == impl_out["metrics"][k], f"{k}: total {impl_out['metrics'][k]} != sum of per-graph {tot}"))
        # per-graph order: each single run's deltas strictly ascending (code-point order)
        for s in (singles if singles else ([impl_out] if len(case["active"]) == 1 else [])):
            if "__raised__" in s:
                continue
            ds = s["deltas"]
            res.append(("ids_strictly_ascending", all(ds[i] < ds[i + 1] for i in range(len(ds) - 1)),
                        f"per-graph deltas not strictly ascending: {ds}"))
        return res

    def tags(self, case, impl_out):
        if "raised_exc" in impl_out:
            return ["raised:" + impl_out["raised_exc"]]
        t = set()
        m = impl_out["metrics"]
        if m["propagations"] > 0:
            t.add("relax")
        if m["pops"] > 0:
            t.add("pop")
        for k in ("radius_cap_hits", "layer_cap_hits", "node_budget_hits", "cache_hits"):
            if m[k] > 0:
                t.add(k)
        if m.get("t1_frontier_evicted", 0):
            t.add("frontier_evicted")
        rc = case["t1"].get("relax_cap")
        if rc is not None and m["propagations"] >= max(rc, 0) and len(case["active"]) == 1 and m["pops"] > 0:
            t.add("relax_cap_reached")
        if len(case["active"]) == 1 and m["pops"] == max(0, eff_queue(case)) and m["pops"] > 0:
            t.add("queue_budget_exhausted")
        if len(case["active"]) > 1:
            t.add("multi_graph")
        if impl_out["created"]:
            t.add("unknown_gid")
        if parallel_on(case):
            t.add("parallel")
        if impl_out.get("trace_dropped"):
            t.add("TRACE-UNAVAILABLE")
        tr = impl_out.get("trace") or []
        if any(len(s["decays"]) > sum(1 for h in s["heap"] if not h[0]) for s in tr):
            t.add("eps_or_nodebudget_cut")
        if not case["t1"].get("decay"):
            t.add("decay_absent_or_falsy")
        elif set(case["t1"]["decay"]) - {"mode"} != {"rate", "floor", "alpha"}:
            t.add("decay_partial")
        if (case["t1"].get("decay") or {}).get("mode") == "attn_quad" and m["propagations"] > 0:
            t.add("attn_quad")
        if "slice" in case and case["slice"]:
            t.add("slice_caps")
        return sorted(t) or ["default"]

    def shrink(self, case):
        for gi, g in enumerate(case["graphs"]):
            if len(case["graphs"]) > 1:
                gs = case["graphs"][:gi] + case["graphs"][gi + 1:]
                yield dict(case, graphs=gs, active=[a for a in case["active"] if a != g["gid"]] or [gs[0]["gid"]])
            for ei in range(len(g["edges"])):
                g2 = dict(g, edges=g["edges"][:ei] + g["edges"][ei + 1:])
                yield dict(case, graphs=case["graphs"][:gi] + [g2] + case["graphs"][gi + 1:])
            for ni in range(len(g["nodes"])):
                g2 = dict(g, nodes=g["nodes"][:ni] + g["nodes"][ni + 1:])
                yield dict(case, graphs=case["graphs"][:gi] + [g2] + case["graphs"][gi + 1:])
        for k in list(case["t1"].keys()):
            if k not in ("decay", "cache"):
                t = dict(case["t1"])
                del t[k]
                yield dict(case, t1=t)
        for k in ("perf", "slice"):
            if k in case:
                c2 = dict(case)
                del c2[k]
                yield c2


class T1NoDecay(T1Comp):
    """Configs without `t1.decay` (the validated default), with `decay: None` / `{}` or a partial decay dict:
    the repaired `_compute_decay` falls back to its defaults; an ordinary exact-correspondence stream."""
    name = "t1_nodecay"
    budget = {"quick": 400, "thorough": 3000, "search": 1000}
    decay_present = False


class T1Boundary(T1Comp):
    """Boundary stream: chains / stars whose contributions sit exactly at EPS ± ulp, accumulators exactly at
    node_budget, caps exactly at the path length, relax_cap 0/1, frontier cap 1, budget = number of seeds."""
    name = "t1_boundary"
    budget = {"quick": 600, "thorough": 6000, "search": 2000}

    def gen(self, rng: random.Random, i: int) -> dict:
        n = rng.choice([2, 3, 4, 5])
        ids = rng.sample(["a", "b", "c", "d", "e", "f"], n)
        eps = 1e-6
        mode = rng.choice(["eps", "budget", "caps", "star", "neg"])
        nodes = [{"id": ids[0], "label": "seed"}] + [{"id": x, "label": None} for x in ids[1:]]
        if rng.random() < 0.3 and n > 2:
            nodes[-1]["tags"] = ["seed"]  # second seed at the far end
        edges = []
        def w_eps():
            return rng.choice([eps, nextafter(eps, False), nextafter(eps, True), eps * 2, eps / 2,
                               eps / 0.6, nextafter(eps / 0.6, True), nextafter(eps / 0.6, False)])
        for k in range(n - 1):
            if mode == "eps":
                w = w_eps() if k == rng.randrange(n - 1) else 1.0
            elif mode == "budget":
                w = rng.choice([0.5, 0.25, 0.75, 1.0])
            elif mode == "neg":
                w = rng.choice([-1.0, 1.0, -0.5, 0.5])
            else:
                w = rng.choice([1.0, 0.9])
            src = ids[0] if mode == "star" else ids[k]
            edges.append({"id": f"e{k}", "src": src, "dst": ids[k + 1], "w": f2b(w),
                          "rel": rng.choice(["supports", "supports", "associates", "unknown"])})
        if mode in ("budget", "neg"):
            # second edge into the same node / back edges: accumulators reach exact sums
            for k in range(rng.choice([1, 2, 3])):
                a_, b_ = rng.choice(ids), rng.choice(ids)
                edges.append({"id": f"x{k}", "src": a_, "dst": b_, "w": f2b(rng.choice([0.5, 0.25, 1.0, -0.5])),
                              "rel": "supports"})
        t: Dict[str, Any] = {"cache": {"enabled": False},
                             "decay": rng.choice([{"mode": "exp_floor", "rate": f2b(1.0), "floor": f2b(0.0)},
                                                  {"mode": "exp_floor", "rate": f2b(0.5), "floor": f2b(0.25)},
                                                  {"mode": "attn_quad", "alpha": f2b(0.0)},
                                                  {"mode": "attn_quad", "alpha": f2b(1.0)}, {}]),
                             "queue_budget": rng.choice([0, 1, 2, n - 1, n, n + 1, 50])}
        if mode == "budget" or rng.random() < 0.3:
            t["node_budget"] = f2b(rng.choice([1.0, 1.5, 1.25, 1.75, 2.0, nextafter(1.5, False), nextafter(1.5, True), 0.5]))
        if mode == "caps" or rng.random() < 0.4:
            t[rng.choice(["radius_cap", "iter_cap", "iter_cap_layers"])] = rng.choice([0, 1, n - 2, n - 1, n])
        if rng.random() < 0.4:
            t["relax_cap"] = rng.choice([0, 1, 2, n - 1, n, -1])
        case: Dict[str, Any] = {"text": rng.choice(["seed", "SEED!", "see", "a seed b"]),
                                "graphs": [{"gid": "g", "nodes": nodes, "edges": edges}],
                                "active": ["g"], "t1": t, "shape": "ns"}
        if rng.random() < 0.35:
            case["perf"] = {"enabled": True, "metrics": {"report_memory": True},
                            "t1": {"caps": {"frontier": rng.choice([1, 1, 2]), "visited": rng.choice([0, 1])},
                                   "dedupe_window": rng.choice([0, 1, 2])}}
        if rng.random() < 0.3:
            case["slice"] = {"t1_pops": rng.choice([0, 1, 2, n]), "t1_iters": rng.choice([0, 1, n - 1, None])}
        return case


class T1Malformed(Component):
    """Malformed inputs (non-numeric weights/caps, non-string labels/text): the model does not cover them;
    checked on the real code only: it either raises a plain TypeError/ValueError/AttributeError/KeyError or
    returns, and in both cases leaves the store untouched."""
    name = "t1_malformed"
    deciding = False
    budget = {"quick": 150, "thorough": 1500, "search": 300}

    def gen(self, rng: random.Random, i: int) -> dict:
        base = gen_case(rng, i, True)
        kind = rng.choice(["weight_str", "weight_none", "cap_str", "label_int", "text_none", "budget_str", "mult_str"])
        base["malformed"] = kind
        return base

    def impl(self, case: dict) -> Any:
        from clematis.engine.stages import t1 as t1mod
        kind = case["malformed"]
        store = build_store(case, None)
        ctx = build_ctx(case)
        text: Any = case["text"]
        g0 = store.get_graph(case["graphs"][0]["gid"])
        if kind == "weight_str":
            for e in g0.edges.values():
                e.weight = "abc"
        elif kind == "weight_none":
            for e in g0.edges.values():
                e.weight = None
        elif kind == "cap_str":
            ctx.cfg.t1["radius_cap"] = "two"
        elif kind == "label_int":
            for n in g0.nodes.values():
                n.label = 5
        elif kind == "text_none":
            text = None
        elif kind == "budget_str":
            ctx.cfg.t1["node_budget"] = "lots"
        elif kind == "mult_str":
            ctx.cfg.t1["edge_type_mult"] = {"supports": "x", "associates": "y", "contradicts": "z"}
        before = snapshot_store_loose(store)
        reset_cache(t1mod)
        raised = None
        try:
            t1mod.t1_propagate(ctx, {"store": store, "active_graphs": list(case["active"])}, text)
        except Exception as e:
            raised = type(e).__name__
        finally:
            reset_cache(t1mod)
        after = snapshot_store_loose(store)
        created = [g for g in after if g not in before]
        pure = all(after[g] == before[g] for g in before) and all(after[g]["n"] == [] and after[g]["e"] == [] for g in created)
        return {"raised": raised, "pure": pure}

    def request(self, case: dict) -> dict:
        return {"c": "const", "v": None}

    def compare(self, case, impl_out, model_out):
        return None

    def monitors(self, case, impl_out):
        ok_exc = impl_out["raised"] in (None, "TypeError", "ValueError", "AttributeError", "KeyError", "ParallelError")
        return [("purity_malformed", bool(impl_out["pure"]), "store changed by t1_propagate on malformed input"),
                ("plain_exception", ok_exc, f"unexpected exception class {impl_out['raised']}")]

    def tags(self, case, impl_out):
        return [f"{case['malformed']}:{impl_out['raised'] or 'returned'}"]


def snapshot_store_loose(store) -> Any:
    return {gid: {"n": [(k, repr(n.id), repr(n.label), repr(n.attrs)) for k, n in g.nodes.items()],
                  "e": [(k, e.src, e.dst, repr(e.weight), e.rel) for k, e in g.edges.items()],
                  "etag": g.version_etag}
            for gid, g in store._graphs.items()}


# --------------------------------------------------------------------------
# history stream: several propagations on ONE store with store edits in between
# --------------------------------------------------------------------------

def _find(lst, key):
    for i, x in enumerate(lst):
        if x["id"] == key:
            return i
    return None


def apply_ops_shadow(graphs: List[dict], ops: List[list]) -> List[dict]:
    """The graph contents after `ops`, following dict semantics of the store (assignment to an existing key keeps
    its position, a new key is appended, delete + re-add moves to the end)."""
    gs = copy.deepcopy(graphs)
    for op in ops:
        kind, gid = op[0], op[1]
        g = next((x for x in gs if x["gid"] == gid), None)
        if g is None:
            continue
        if kind in ("upsert_edge", "delta_edge"):
            e = dict(op[2])
            i = _find(g["edges"], e["id"])
            if i is None:
                g["edges"].append(e)
            else:
                g["edges"][i] = e
        elif kind == "mutate_edge":
            i = _find(g["edges"], op[2])
            if i is not None:
                g["edges"][i] = dict(g["edges"][i], **{op[3]: op[4]})
        elif kind == "del_edge":
            i = _find(g["edges"], op[2])
            if i is not None:
                del g["edges"][i]
        elif kind == "upsert_node":
            n = dict(op[2])
            i = _find(g["nodes"], n["id"])
            if i is None:
                g["nodes"].append(n)
            else:
                g["nodes"][i] = n
        elif kind == "mutate_label":
            i = _find(g["nodes"], op[2])
            if i is not None:
                g["nodes"][i] = dict(g["nodes"][i], label=op[3])
        elif kind == "del_node":
            i = _find(g["nodes"], op[2])
            if i is not None:
                del g["nodes"][i]
    return gs


def apply_ops_real(store, ops: List[list]) -> None:
    from clematis.graph.store import Node, Edge
    for op in ops:
        kind, gid = op[0], op[1]
        if gid not in store._graphs:
            continue
        g = store._graphs[gid]
        if kind == "upsert_edge":
            e = op[2]
            store.upsert_edges(gid, [Edge(id=e["id"], src=e["src"], dst=e["dst"], weight=_f(e["w"]), rel=e["rel"])])
        elif kind == "delta_edge":
            e = op[2]
            store.apply_deltas(gid, [{"op": "upsert_edge", "id": e["id"], "src": e["src"], "dst": e["dst"],
                                      "weight": _f(e["w"]), "rel": e["rel"]}])
        elif kind == "mutate_edge":
            if op[2] in g.edges:
                field, val = op[3], op[4]
                setattr(g.edges[op[2]], "weight" if field == "w" else field, _f(val) if field == "w" else val)
        elif kind == "del_edge":
            g.edges.pop(op[2], None)
        elif kind == "upsert_node":
            n = op[2]
            tags = n.get("tags")
            store.upsert_nodes(gid, [Node(id=n["id"], label=n.get("label"),
                                          attrs={"tags": list(tags)} if isinstance(tags, list) else {})])
        elif kind == "mutate_label":
            if op[2] in g.nodes:
                g.nodes[op[2]].label = op[3]
        elif kind == "del_node":
            g.nodes.pop(op[2], None)


class T1History(T1Comp):
    """2-4 real `t1_propagate` calls on ONE store instance with store edits in between (same-id edge re-point /
    re-weight / relation change through `upsert_edges`, `apply_deltas` and direct mutation; label changes;
    delete + add keeping the counts; count-changing edits).  The T1 result cache is disabled in this stream
    (stale results of the result cache are C05's).  Every call is compared exactly with the model run on the
    CURRENT graph contents and with the same call on a fresh store built from those contents; all Lean
    monitors are evaluated on every call of the history."""
    name = "t1_history"
    budget = {"quick": 450, "thorough": 5000, "search": 1500}

    def gen(self, rng: random.Random, i: int) -> dict:
        case = gen_case(rng, i, rng.random() < 0.85)
        case["t1"]["cache"] = {"enabled": False}
        if "perf" in case:
            case["perf"].pop("parallel", None)
        case["active"] = [a for a in case["active"] if a != "g:unknown"] or [case["graphs"][0]["gid"]]
        # histories need propagation to be worth anything: loosen the caps most of the time
        if rng.random() < 0.7:
            for k in ("radius_cap", "iter_cap", "iter_cap_layers", "relax_cap"):
                case["t1"].pop(k, None)
            case["t1"]["queue_budget"] = rng.choice([20, 50, 100])
            case.pop("slice", None)
        cur = copy.deepcopy(case["graphs"])
        words = sorted({n["label"] for g in cur for n in g["nodes"] if n.get("label")} | set(WORDS[:4]))
        steps = []
        for _ in range(rng.choice([1, 1, 2, 3])):
            ops: List[list] = []
            for _ in range(rng.choice([1, 1, 2, 3])):
                g = rng.choice(cur)
                gid = g["gid"]
                n_before = len(ops)
                ids = [n["id"] for n in g["nodes"]] or ["a"]
                r = rng.random()
                if g["edges"] and r < 0.55:
                    # same-id edit of an existing edge: counts unchanged
                    e = dict(rng.choice(g["edges"]))
                    what = rng.choice(["dst", "dst", "w", "w", "rel", "src"])
                    if what == "dst":
                        e["dst"] = rng.choice(ids + [rng.choice(IDS)])
                    elif what == "src":
                        e["src"] = rng.choice(ids)
                    elif what == "w":
                        e["w"] = f2b(rng.choice([0.0, 1.0, 0.5, -0.5, 0.9, 1e-7, 2.0]))
                    else:
                        e["rel"] = rng.choice(RELS)
                    how = rng.choice(["upsert_edge", "delta_edge", "mutate_edge"])
                    if how == "mutate_edge":
                        ops.append(["mutate_edge", gid, e["id"], what, e[what]])
                    else:
                        ops.append([how, gid, e])
                elif g["edges"] and r < 0.67:
                    # delete one edge, add another: counts unchanged
                    old = rng.choice(g["edges"])
                    ops.append(["del_edge", gid, old["id"]])
                    ops.append(["upsert_edge", gid, {"id": f"n{rng.randrange(1000)}", "src": rng.choice(ids),
                                                     "dst": rng.choice(ids), "w": f2b(gen_weight(rng)),
                                                     "rel": rng.choice(RELS[:3])}])
                elif r < 0.8:
                    # label change of an existing node (same id): counts unchanged
                    n = rng.choice(g["nodes"]) if g["nodes"] else None
                    if n is not None:
                        lab = rng.choice(words + [None])
                        if rng.random() < 0.5:
                            ops.append(["mutate_label", gid, n["id"], lab])
                        else:
                            ops.append(["upsert_node", gid, {"id": n["id"], "label": lab}])
                elif r < 0.92:
                    # count-changing edits
                    if rng.random() < 0.6:
                        ops.append([rng.choice(["upsert_edge", "delta_edge"]), gid,
                                    {"id": f"x{rng.randrange(1000)}", "src": rng.choice(ids), "dst": rng.choice(ids + [rng.choice(IDS)]),
                                     "w": f2b(gen_weight(rng)), "rel": rng.choice(RELS[:3])}])
                    else:
                        ops.append(["upsert_node", gid, {"id": rng.choice(IDS), "label": rng.choice(words)}])
                elif g["edges"]:
                    ops.append(["del_edge", gid, rng.choice(g["edges"])["id"]])
                cur = apply_ops_shadow(cur, ops[n_before:])
            text = case["text"] if rng.random() < 0.8 else gen_text(rng, words, cur)
            steps.append({"ops": ops, "text": text})
        case["steps"] = steps
        return case

    # -- the calls of a history ------------------------------------------------
    def call_cases(self, case: dict) -> List[dict]:
        base = {k: v for k, v in case.items() if k != "steps"}
        out = [base]
        cur = case["graphs"]
        for st in case.get("steps", []):
            cur = apply_ops_shadow(cur, st["ops"])
            out.append(dict(base, graphs=cur, text=st["text"]))
        return out

    def impl(self, case: dict) -> Any:
        calls = self.call_cases(case)
        store = build_store(case, None)
        outs = []
        for k, ck in enumerate(calls):
            if k > 0:
                apply_ops_real(store, case["steps"][k - 1]["ops"])
            rec: Dict[str, Any] = {}
            try:
                rec["hist"] = call_real(ck, ck["active"], True, store=store)
            except Exception as e:
                rec["hist"] = {"raised_exc": type(e).__name__, "msg": str(e)[:200]}
            try:
                rec["fresh"] = call_real(ck, ck["active"], False)
            except Exception as e:
                rec["fresh"] = {"raised_exc": type(e).__name__, "msg": str(e)[:200]}
            # the shadow contents must be what the store really holds (harness self-check)
            rec["shadow_ok"] = snapshot_contents(store) == snapshot_contents(build_store(ck, None))
            if "singles" not in rec["hist"]:
                rec["hist"]["singles"] = None
            outs.append(rec)
        return {"calls": outs}

    def request(self, case: dict) -> dict:
        return {"c": "t1.batch", "reqs": [model_request(ck, ck["active"]) for ck in self.call_cases(case)]}

    def compare(self, case, impl_out, model_out) -> Optional[str]:
        if isinstance(model_out, dict) and "__model_err__" in model_out:
            return f"model error {model_out['__model_err__']}"
        if isinstance(impl_out, dict) and "__raised__" in impl_out:
            return f"harness/impl raised {impl_out['__raised__']}: {impl_out.get('msg')}"
        for k, (ck, rec, mo) in enumerate(zip(self.call_cases(case), impl_out["calls"], model_out)):
            d = T1Comp.compare(self, ck, rec["hist"], mo)
            if d is not None:
                return f"call {k} of the history (after {k} edit step(s)): {d}"
        return None

    def monitor_requests(self, case, impl_out) -> List[Tuple[str, dict]]:
        rq: List[Tuple[str, dict]] = []
        for k, (ck, rec) in enumerate(zip(self.call_cases(case), impl_out["calls"])):
            rq += [(name, r) for name, r in T1Comp.monitor_requests(self, ck, rec["hist"])]
        return rq

    def monitors(self, case, impl_out):
        res = []
        for k, (ck, rec) in enumerate(zip(self.call_cases(case), impl_out["calls"])):
            res.append(("history_shadow_selfcheck", bool(rec["shadow_ok"]),
                        f"harness: shadow graph contents differ from the store after step {k}"))
            h, f = rec["hist"], rec["fresh"]
            for name, ok, detail in T1Comp.monitors(self, ck, h):
                res.append((name, ok, f"call {k}: {detail}"))
            if "raised_exc" in h or "raised_exc" in f:
                continue
            same = (h["deltas"] == f["deltas"] and h["metrics"] == f["metrics"])
            res.append(("history_equals_fresh_store", same,
                        f"call {k} (after {k} edit step(s)) on the long-lived store differs from the same call on a fresh "
                        f"store with the same contents: deltas {h['deltas']} vs {f['deltas']}; "
                        f"counters {[h['metrics'][x] for x in ('pops', 'propagations', 'node_budget_hits')]} vs "
                        f"{[f['metrics'][x] for x in ('pops', 'propagations', 'node_budget_hits')]}"))
        return res

    def tags(self, case, impl_out):
        t = set()
        for k, (ck, rec) in enumerate(zip(self.call_cases(case), impl_out["calls"])):
            if "raised_exc" in rec["hist"]:
                t.add("raised:" + rec["hist"]["raised_exc"])
                continue
            m = rec["hist"]["metrics"]
            if k > 0 and m["propagations"] > 0:
                t.add("relax_after_edit")
            if k > 0 and rec["hist"]["deltas"] != impl_out["calls"][k - 1]["hist"].get("deltas"):
                t.add("result_changed_by_edit")
        for st in case.get("steps", []):
            for op in st["ops"]:
                t.add("op:" + op[0])
        cur = case["graphs"]
        for st in case.get("steps", []):
            nxt = apply_ops_shadow(cur, st["ops"])
            if ([len(g["nodes"]) for g in cur], [len(g["edges"]) for g in cur]) == \
                    ([len(g["nodes"]) for g in nxt], [len(g["edges"]) for g in nxt]) and nxt != cur:
                t.add("same_count_edit")
            cur = nxt
        t.add(f"calls:{len(case.get('steps', [])) + 1}")
        return sorted(t) or ["default"]

    def shrink(self, case):
        steps = case.get("steps", [])
        for i in range(len(steps)):
            yield dict(case, steps=steps[:i] + steps[i + 1:])
            for j in range(len(steps[i]["ops"])):
                st = dict(steps[i], ops=steps[i]["ops"][:j] + steps[i]["ops"][j + 1:])
                yield dict(case, steps=steps[:i] + [st] + steps[i + 1:])
        for gi, g in enumerate(case["graphs"]):
            if len(case["graphs"]) > 1:
                gs = case["graphs"][:gi] + case["graphs"][gi + 1:]
                yield dict(case, graphs=gs, active=[a for a in case["active"] if a != g["gid"]] or [gs[0]["gid"]])
            for ei in range(len(g["edges"])):
                g2 = dict(g, edges=g["edges"][:ei] + g["edges"][ei + 1:])
                yield dict(case, graphs=case["graphs"][:gi] + [g2] + case["graphs"][gi + 1:])
        for k in ("perf", "slice"):
            if k in case:
                c2 = dict(case)
                del c2[k]
                yield c2


def snapshot_contents(store) -> Any:
    """graph contents only (what T1 reads), in dict order; etags excluded"""
    return {gid: {"n": [(k, n.id, n.label, repr(getattr(n, "attrs", None))) for k, n in g.nodes.items()],
                  "e": [(k, e.id, e.src, e.dst, f2b(e.weight), e.rel) for k, e in g.edges.items()]}
            for gid, g in store._graphs.items()}


# --------------------------------------------------------------------------
# warm-cache history: repeated / varied calls in one process with the T1 result cache ON, no store edits
# --------------------------------------------------------------------------

CORE_COUNTERS = ["pops", "iters", "propagations", "radius_cap_hits", "layer_cap_hits", "node_budget_hits"]


class T1CacheHistory(T1Comp):
    """2-4 `t1_propagate` calls in one process on ONE store with the (default-on) legacy T1 result cache ENABLED and
    no store edits: same text, other texts, other subsets / orders / repetitions of the active graphs.  Every call
    must equal (a) the model on the store's contents and (b) the same call on a cold cache — deltas (per-graph
    concatenation, each touched node once per graph) and the work counters; cache diagnostics (`cache_hits`,
    `cache_misses`, `cache_used`, `max_delta` of a hit, perf eviction counters) are not compared."""
    name = "t1_warmcache"
    budget = {"quick": 350, "thorough": 4000, "search": 1200}

    def gen(self, rng: random.Random, i: int) -> dict:
        words = rng.sample(WORDS, rng.choice([2, 3]))
        ng = rng.choice([2, 2, 2, 3, 1])
        graphs = [gen_graph(rng, f"g{j}", words) for j in range(ng)]
        # make sure that most graphs own a keyword of the text
        text_words = []
        for g in graphs:
            if rng.random() < 0.9 and g["nodes"]:
                n = rng.choice(g["nodes"])
                if not n.get("label"):
                    n["label"] = rng.choice(words)
                text_words.append(n["label"])
        base = gen_case(rng, i, rng.random() < 0.8)
        t = base["t1"]
        if rng.random() < 0.5:
            t.pop("cache", None)           # default: enabled
        else:
            t["cache"] = {"enabled": True}
        if rng.random() < 0.7:
            for k in ("radius_cap", "iter_cap", "iter_cap_layers", "relax_cap"):
                t.pop(k, None)
            t["queue_budget"] = rng.choice([20, 50, 100])
        case: Dict[str, Any] = {"text": " ".join(text_words) or gen_text(rng, words, graphs), "graphs": graphs,
                                "active": [g["gid"] for g in graphs], "t1": t, "shape": base["shape"]}
        if "perf" in base and rng.random() < 0.5:
            perf = base["perf"]
            perf.pop("parallel", None)
            (perf.get("t1") or {}).pop("cache", None)
            case["perf"] = perf
        if rng.random() < 0.1:
            rng.shuffle(case["active"])
        # slice budgets (ctx.slice_budgets) on the long-lived cache: the budget is shared by the active graphs of one
        # call, so the same graph with the same seeds runs under different REMAINDERS from call to call when the
        # graphs before it are seeded / not seeded / absent — small values so that the remainder binds
        sliced = rng.random() < 0.5
        if sliced:
            case["slice"] = self._gen_slice(rng)
        gids = [g["gid"] for g in graphs]
        # texts that seed only a subset of the graphs (one keyword each)
        sub_texts = [w for w in text_words] + [" ".join(text_words[k:]) for k in range(1, len(text_words))]
        if sub_texts and rng.random() < 0.5:
            case["text"] = rng.choice(sub_texts)
        full_text = " ".join(text_words) or case["text"]
        steps = []
        for _ in range(rng.choice([1, 2, 2, 3])):
            r = rng.random()
            text = case["text"] if r < 0.45 else (full_text if r < 0.6 else (
                gen_text(rng, words, graphs) if r < 0.75 else (
                    rng.choice(sub_texts) if sub_texts and r < 0.9 else case["text"].upper())))
            r2 = rng.random()
            if r2 < 0.5:
                active = list(case["active"])
            elif r2 < 0.7:
                active = [gids[0]]
            elif r2 < 0.85:
                active = list(reversed(case["active"]))
            else:
                active = [rng.choice(gids) for _ in range(rng.choice([1, 2, 3]))]
            st = {"text": text, "active": active}
            if sliced and rng.random() < 0.3:
                st["slice"] = self._gen_slice(rng) if rng.random() < 0.8 else None
            steps.append(st)
        case["steps"] = steps
        return case

    @staticmethod
    def _gen_slice(rng: random.Random) -> dict:
        sl: Dict[str, Any] = {}
        r = rng.random()
        if r < 0.75:
            sl["t1_pops"] = rng.choice([1, 2, 2, 3, 3, 4, 5, 6, 8, 0, 50])
        if r > 0.55:
            sl["t1_iters"] = rng.choice([1, 2, 2, 3, 3, 4, 0, 50])
        return sl

    def call_cases(self, case: dict) -> List[dict]:
        base = {k: v for k, v in case.items() if k != "steps"}
        out = [base]
        for st in case.get("steps", []):
            ck = dict(base, text=st["text"], active=st["active"])
            if "slice" in st:        # this call's ctx carries other slice budgets (None: no `slice_budgets` value)
                ck["slice"] = st["slice"]
            out.append(ck)
        return out

    @staticmethod
    def _core(out: dict) -> dict:
        return {"deltas": out["deltas"], "counters": {k: out["metrics"][k] for k in CORE_COUNTERS}}

    def impl(self, case: dict) -> Any:
        from clematis.engine.stages import t1 as t1mod
        calls = self.call_cases(case)
        store = build_store(case, None)
        warm = []
        reset_cache(t1mod)
        try:
            for ck in calls:
                try:
                    warm.append(call_real(ck, ck["active"], False, store=store, keep_cache=True))
                except Exception as e:
                    warm.append({"raised_exc": type(e).__name__, "msg": str(e)[:200]})
        finally:
            reset_cache(t1mod)
        outs = []
        for ck, w in zip(calls, warm):
            rec: Dict[str, Any] = {"warm": w}
            try:
                rec["cold"] = call_real(ck, ck["active"], False)
            except Exception as e:
                rec["cold"] = {"raised_exc": type(e).__name__, "msg": str(e)[:200]}
            # per-graph cold runs: the expected concatenation
            per = []
            tp = ti = 0
            for a in ck["active"]:
                try:
                    one = call_real(slice_left(ck, tp, ti), [a], False)
                    per.append(one["deltas"])
                    tp += int(one["metrics"]["pops"])
                    ti += int(one["metrics"]["iters"])
                except Exception as e:
                    per.append(None)
            rec["per_graph"] = per
            outs.append(rec)
        return {"calls": outs}

    def request(self, case: dict) -> dict:
        return {"c": "t1.batch", "reqs": [model_request(ck, ck["active"]) for ck in self.call_cases(case)]}

    def compare(self, case, impl_out, model_out) -> Optional[str]:
        if isinstance(model_out, dict) and "__model_err__" in model_out:
            return f"model error {model_out['__model_err__']}"
        if isinstance(impl_out, dict) and "__raised__" in impl_out:
            return f"harness/impl raised {impl_out['__raised__']}: {impl_out.get('msg')}"
        from harness.core import _canon, first_diff
        for k, (rec, mo) in enumerate(zip(impl_out["calls"], model_out)):
            w = rec["warm"]
            if "raised_exc" in w:
                return f"call {k}: impl raised {w['raised_exc']}: {w.get('msg')}"
            if "raised" in mo:
                return f"call {k}: model raised"
            a = _canon(self._core(w))
            b = _canon({"deltas": [d[1] for d in mo["deltas"]], "counters": {x: mo["metrics"][x] for x in CORE_COUNTERS}})
            if a != b:
                return f"call {k} (warm cache, after {k} earlier call(s)): " + first_diff(a, b)
        return None

    def monitor_requests(self, case, impl_out) -> List[Tuple[str, dict]]:
        rq: List[Tuple[str, dict]] = []
        cj_cache = {}
        for ck, rec in zip(self.call_cases(case), impl_out["calls"]):
            w = rec["warm"]
            if "raised_exc" in w or len(ck["active"]) != 1:
                continue
            m = w["metrics"]
            rq.append(("budget", {"c": "t1.budget", "cfg": cfg_json(ck, eps_bits()), "pops": m["pops"],
                                  "iters": m["iters"], "props": m["propagations"]}))
        return rq

    def monitors(self, case, impl_out):
        res = []
        for k, (ck, rec) in enumerate(zip(self.call_cases(case), impl_out["calls"])):
            w, c = rec["warm"], rec["cold"]
            if "raised_exc" in w:
                res.append(("completes", False, f"call {k}: t1_propagate raised {w['raised_exc']}: {w.get('msg')}"))
                continue
            res.append(("purity", bool(w["pure"]), f"call {k}: store/config/state changed by t1_propagate"))
            res.append(("delta_shape", bool(w["ops_ok"]), f"call {k}: a delta is not {{'op':'upsert_node','id':…}}"))
            sl = ck.get("slice") or {}
            for key, mk in (("t1_pops", "pops"), ("t1_iters", "iters")):
                if sl.get(key) is not None:
                    res.append((f"slice_{mk}_bind", int(w["metrics"][mk]) <= max(0, int(sl[key])),
                                f"call {k} (text {ck['text']!r}, active {ck['active']}) after {k} earlier call(s) on the warm T1 "
                                f"cache: total {mk} {w['metrics'][mk]} over the active graphs exceeds slice budget {key}={sl[key]}"))
            if "raised_exc" not in c:
                res.append(("warm_equals_cold", self._core(w) == self._core(c),
                            f"call {k} (text {ck['text']!r}, active {ck['active']}) after {k} earlier call(s) in the same process "
                            f"differs from the same call on a cold T1 cache: deltas {_ids(w['deltas'])} vs {_ids(c['deltas'])}; "
                            f"counters {self._core(w)['counters']} vs {self._core(c)['counters']}"))
            if all(p is not None for p in rec["per_graph"]):
                cat = [d for p in rec["per_graph"] for d in p]
                res.append(("deltas_are_per_graph_concat", w["deltas"] == cat,
                            f"call {k}: deltas {_ids(w['deltas'])} are not the per-graph results in active order "
                            f"(each touched node once per graph): expected {_ids(cat)}"))
                for a, p in zip(ck["active"], rec["per_graph"]):
                    res.append(("ids_strictly_ascending", all(p[i] < p[i + 1] for i in range(len(p) - 1)),
                                f"call {k}: graph {a} deltas not strictly ascending: {_ids(p)}"))
        return res

    def tags(self, case, impl_out):
        t = set()
        calls = self.call_cases(case)
        for k, (ck, rec) in enumerate(zip(calls, impl_out["calls"])):
            w = rec["warm"]
            if "raised_exc" in w:
                t.add("raised:" + w["raised_exc"])
                continue
            m = w["metrics"]
            if m.get("cache_hits"):
                t.add("cache_hit")
            if k > 0 and m.get("cache_hits") and m.get("cache_misses"):
                t.add("hit_and_miss_in_one_call")
            if m["propagations"] > 0:
                t.add("relax")
            seeded = sum(1 for p in rec["per_graph"] if p)
            if seeded >= 2:
                t.add("two_or_more_graphs_with_deltas")
            if k > 0 and ck["active"] != calls[0]["active"]:
                t.add("active_varied")
            if k > 0 and ck["text"] != calls[0]["text"]:
                t.add("text_varied")
            sl = ck.get("slice") or {}
            if sl.get("t1_pops") is not None or sl.get("t1_iters") is not None:
                t.add("sliced")
                if m.get("cache_hits"):
                    t.add("sliced_cache_hit")
                if (sl.get("t1_pops") is not None and m["pops"] >= int(sl["t1_pops"])) or \
                        (sl.get("t1_iters") is not None and m["iters"] >= int(sl["t1_iters"])):
                    t.add("slice_budget_exhausted")
            if k > 0 and ck.get("slice") != calls[0].get("slice"):
                t.add("slice_varied")
        t.add(f"calls:{len(calls)}")
        return sorted(t) or ["default"]

    def shrink(self, case):
        steps = case.get("steps", [])
        for i in range(len(steps)):
            yield dict(case, steps=steps[:i] + steps[i + 1:])
        for gi, g in enumerate(case["graphs"]):
            for ei in range(len(g["edges"])):
                g2 = dict(g, edges=g["edges"][:ei] + g["edges"][ei + 1:])
                yield dict(case, graphs=case["graphs"][:gi] + [g2] + case["graphs"][gi + 1:])
            for ni in range(len(g["nodes"])):
                g2 = dict(g, nodes=g["nodes"][:ni] + g["nodes"][ni + 1:])
                yield dict(case, graphs=case["graphs"][:gi] + [g2] + case["graphs"][gi + 1:])
        for k in ("perf", "slice"):
            if k in case:
                c2 = dict(case)
                del c2[k]
                yield c2


def _ids(ds) -> List[str]:
    return ["".join(chr(c) for c in d) if all(isinstance(c, int) for c in d) else str(d) for d in ds]


COMPONENTS = [T1Comp(), T1NoDecay(), T1Boundary(), T1Malformed(), T1History(), T1CacheHistory()]


def run(ctx: Ctx) -> None:
    for comp in COMPONENTS:
        run_component(ctx, comp)


def replay(ctx: Ctx, rec: dict) -> int:
    from harness.core import generic_replay
    return generic_replay(ctx, rec, {c.name: c for c in COMPONENTS})
