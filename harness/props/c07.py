"""C07 — delta snapshots reconstruct the full payload exactly: correspondence + monitors."""
from __future__ import annotations

import contextlib
import copy
import io
import itertools
import json
import logging
import math
import os
import random
import shutil
import tempfile
from typing import Any, Dict, Iterable, List, Optional, Tuple

from harness.core import Component, Ctx, run_driver
from harness.lib import jwire
from harness.lib.jwire import enc, dec, canon

RULE = ("pairs (base, current) of JSON objects: 60% 'current' derived from 'base' by random edits (delete/add key, "
        "replace a leaf by its Python-== twin 1/True/1.0, 0/False/0.0/-0.0, dict<->leaf, nested edit, key reorder), 40% independent; "
        "keys from an alphabet with '.', '', backslashes, unicode, '_adds'; thorough tier additionally enumerates ALL pairs of "
        "objects in two small scopes; arbitrary delta blobs with adversarial path strings for apply_delta; file-level "
        "scenarios (write_snapshot_auto / read_snapshot by etag and by path / load_latest_snapshot / rm / corrupt / the REAL writer "
        "killed at a scripted FS call of the atomic body or sidecar write, leaving its real temp files / foreign look-alike files "
        "'<stem>.json.bak|.tmp|.1|.swp…') in scratch directories; a killed write exists for the model iff its os.replace happened. A case is non-trivial when "
        "the delta is non-empty or a fallback/raise branch is taken; distinct by canonical JSON of the case")
ASSUMPTIONS = [
    "payloads are JSON trees as produced by json.loads (dicts with string keys, no aliasing between sub-objects, no lone surrogates)",
    "top-level base/current are dicts or None (the documented signature)",
    "json.loads(json.dumps(x, sort_keys=True)) == x for finite JSON trees (file round-trip; NaN/Infinity use CPython's extension); "
    "the file-level model's 'one header line + one payload line' layout is NOT assumed but monitored: every file written by the real "
    "write_snapshot_auto must split into exactly two str.splitlines() lines (keys/strings with U+0085, U+2028, U+2029, VT, FF, FS, GS, "
    "RS, CR, LF and astral characters are generated), and what read_snapshot (etag and path) returns is compared with what was written "
    "by the Lean J.eqv; load_latest_snapshot must load the written snapshot (loaded=True, its version_etag)",
    "a 'corrupt' baseline is one that json cannot parse (the code then raises); a baseline replaced by a different *valid* JSON document "
    "is indistinguishable from a legitimate one (no content hash in the delta header) and is out of scope",
]
CLAIM = {
    "text": ("Unbounded Lean theorems about the executable model of the (repaired) delta codec: C07_roundtrip — for ALL well-formed JSON "
             "values base, cur (no bound on size, depth or key content) apply_delta(base, compute_delta(base, cur)) is the same JSON "
             "document as cur (J.Equiv: same key set at every level, leaves identical in type and value, arrays element-wise; only "
             "the order of keys inside objects is ignored, as Python == on dicts and the sort_keys writer do), by strong induction "
             "on the size of base; C07_apply_order_irrelevant — any operation list with the same members as _walk_diff's output, in "
             "any order, rebuilds cur; C07_path_codec_lossless/injective — split(join(segs)) = segs for arbitrary segments; "
             "C07_same_value_strict — the leaf comparison never identifies different documents; file level (write_snapshot_auto / "
             "read_snapshot etag and path branches / delta branch of load_latest_snapshot over an abstract directory): delta written "
             "with readable baseline reads back to the payload, missing baseline => writer emits full, readers answer the sibling "
             "full payload or absence and never patch, unreadable baseline => raise / not loaded. Tie: exact differential execution "
             "of the same definitions (clemdrv) against the real functions and real files in scratch directories; the round-trip "
             "monitor is the Lean Bool J.eqv (sound w.r.t. J.Equiv: C07_monitor_sound) evaluated on the implementation's outputs."),
    "note": ("The theorems hold for the code WITH proposed_fixes/C07_delta_paths_and_strict_leaves.diff and "
             "C07_load_latest_missing_baseline.diff applied (519 repo tests pass with both). On the pinned tree the property is "
             "violated: corpus/C07 holds one failing input per class (dotted key, dotted delete, empty key, 1/True/1.0/-0.0 leaf), "
             "Clem/Props/C07/Legacy.lean proves the counterexamples on a model of the pinned codec (C07_legacy_*; that legacy model "
             "is documentation, not tied by correspondence). Only covered by correspondence: the loader's state after the "
             "delta branch (compared with loading the same payload from a full file), key order of _adds/_mods (unobservable, "
             "not modelled), _dels compared as a set. Not covered: zstd codec (module absent here; the writer's documented degrade "
             "path is what runs), baselines replaced by a different valid JSON document (no content hash in the header), a stale "
             "delta file shadowing a newer full file of the same etag (reader prefers the delta; outside the statement)."),
    "technique": "Lean 4 size induction over a JSON value type + exact differential execution + exhaustive small scope",
    "design_ref": "DESIGN.md §4 C07, §5 rows 1 and 18",
}
DRIVER_MODULES = ['HDelta']
TABLES = []
MODELLED = {
    "clematis/engine/util/snapshot_delta.py": ["_join_path", "_split_path", "_same_value", "_walk_diff", "compute_delta",
                                               "_set_path", "_del_path", "apply_delta"],
    "clematis/engine/snapshot.py": ["write_snapshot_auto", "read_snapshot", "load_latest_snapshot", "_read_header_payload",
                                    "_find_snapshot_file"],
}
TRUSTED = ["modelled, not verified: CPython dict semantics, copy.deepcopy on trees, json.dumps/loads round-trip, os file primitives"]

# --------------------------------------------------------------------------
# generators
# --------------------------------------------------------------------------
KEYS = ["a", "b", "c", "a.b", "", "é", "\\", "a\\", ".", "\\.", "a.", ".b", "_adds", "b.c.d", "\\\\", "a\\.b", "日本", "..", "a b"]
NAN = float("nan")


def _leaves() -> List[Any]:
    return [0, 1, -1, True, False, 1.0, 0.0, -0.0, 2.5, NAN, float("inf"), "x", "", "1", [], {}, None, [1], [True], [1.0],
            [0.0], [-0.0], [{"a": 1}], [{"a": True}], [{"b": 1, "a": 2}], [{"a": 2, "b": 1}], [{"a": 2}], 2 ** 40, [[]], "a.b", [[1, 2]]]


TWINS = [[1, True, 1.0], [0, False, 0.0, -0.0], [[1], [True], [1.0]], [[0.0], [-0.0]], [[{"a": 1}], [{"a": True}]],
         [[{"b": 1, "a": 2}], [{"a": 2, "b": 1}], [{"a": 2}], [{"a": 2, "b": 1, "c": 0}]], [{}, None, [], "", 0], ["1", 1],
         [[[1, 2]], [[1, 2, 3]], [[1]]]]


# code points that matter to line-oriented readers: str.splitlines() also splits on VT, FF, FS, GS, RS, NEL, LS, PS
# (and CR, LF); astral characters exercise surrogate-pair escaping
EXO_STRS = ["a\u2028b", "\x85", "x\u2029", "\u2028", "\u2029", "n\x85m", "\x0b", "\x0c", "\x1c", "\x1d", "\x1e", "a\x1cb\x1d\x1e",
            "\r", "a\nb", "\r\n", "\n", "\U0001F600", "\U00010000z", "q\U0001F600\u2028", "\u2028\u2029\x85", "é\u2029.x"]
_ALPH: Dict[str, Any] = {"keys": None, "strs": None}


def _keys() -> List[str]:
    return _ALPH["keys"] or KEYS


def _leaf(rng: random.Random) -> Any:
    if _ALPH["strs"] and rng.random() < 0.35:
        return rng.choice(_ALPH["strs"]) if rng.random() < 0.8 else [rng.choice(_ALPH["strs"])]
    return copy.deepcopy(rng.choice(_leaves()))


class exotic_alphabet:
    """context manager: gen_obj / mutate draw keys and string leaves from the exotic alphabet as well."""

    def __init__(self, on: bool):
        self.on = on

    def __enter__(self):
        if self.on:
            _ALPH["keys"], _ALPH["strs"] = KEYS[:6] + EXO_STRS, EXO_STRS

    def __exit__(self, *a):
        _ALPH["keys"] = _ALPH["strs"] = None


def gen_obj(rng: random.Random, depth: int, width: int) -> dict:
    o: Dict[str, Any] = {}
    for _ in range(rng.randint(0, width)):
        k = rng.choice(_keys())
        if depth > 0 and rng.random() < 0.4:
            o[k] = gen_obj(rng, depth - 1, width)
        else:
            o[k] = _leaf(rng)
    return o


def _dicts(o: dict, acc: List[dict]) -> List[dict]:
    acc.append(o)
    for v in o.values():
        if isinstance(v, dict):
            _dicts(v, acc)
    return acc


def _strict_eq(a: Any, b: Any) -> bool:
    return canon(enc(a)) == canon(enc(b))


def mutate(rng: random.Random, base: dict) -> dict:
    cur = copy.deepcopy(base)
    for _ in range(rng.choice([0, 1, 1, 2, 3, 5])):
        d = rng.choice(_dicts(cur, []))
        r = rng.random()
        ks = list(d.keys())
        if r < 0.2 and ks:
            del d[rng.choice(ks)]
        elif r < 0.4:
            d[rng.choice(_keys())] = _leaf(rng) if rng.random() < 0.7 else gen_obj(rng, 1, 2)
        elif r < 0.65 and ks:
            k = rng.choice(ks)
            for tw in TWINS:
                hit = [j for j, t in enumerate(tw) if _strict_eq(t, d[k])]
                if hit:
                    d[k] = copy.deepcopy(rng.choice([t for j, t in enumerate(tw) if j != hit[0]]))
                    break
            else:
                d[k] = _leaf(rng)
        elif r < 0.8 and ks:
            k = rng.choice(ks)
            d[k] = gen_obj(rng, 1, 2) if not isinstance(d[k], dict) else _leaf(rng)
        elif r < 0.9 and len(ks) > 1:
            items = list(d.items())
            rng.shuffle(items)
            d.clear()
            d.update(items)
        else:
            d[rng.choice(_keys())] = {}
    return cur


def hsplit(path: str) -> List[str]:
    """harness-side reference of the escaped path syntax (spec of `_split_path`)."""
    keys, buf, i = [], [], 0
    while i < len(path):
        ch = path[i]
        if ch == "\\" and i + 1 < len(path) and path[i + 1] in "\\.":
            buf.append(path[i + 1])
            i += 2
        elif ch == ".":
            keys.append("".join(buf))
            buf = []
            i += 1
        else:
            buf.append(ch)
            i += 1
    keys.append("".join(buf))
    return keys


def _all_keys(o: Any, acc: set) -> set:
    if isinstance(o, dict):
        for k, v in o.items():
            acc.add(k)
            _all_keys(v, acc)
    elif isinstance(o, list):
        for v in o:
            _all_keys(v, acc)
    return acc


def _all_strings(o: Any, acc: set) -> set:
    if isinstance(o, dict):
        for k, v in o.items():
            acc.add(k)
            _all_strings(v, acc)
    elif isinstance(o, list):
        for v in o:
            _all_strings(v, acc)
    elif isinstance(o, str):
        acc.add(o)
    return acc


def _py_eq_confusion(b: Any, c: Any) -> bool:
    """some position where Python `==` holds but the JSON values differ."""
    if isinstance(b, dict) and isinstance(c, dict):
        return any(_py_eq_confusion(b[k], c[k]) for k in b.keys() & c.keys())
    try:
        return bool(b == c) and not _strict_eq(b, c)
    except Exception:
        return False


def classify(base: Any, cur: Any) -> str:
    """deterministic defect class of a failing round-trip case (used as the monitor key)."""
    ks = _all_keys(base, set()) | _all_keys(cur, set())
    if _py_eq_confusion(base or {}, cur or {}):
        return "pyeq-leaf"
    if any("." in k for k in ks):
        both = set((base or {}).keys()) - set((cur or {}).keys())
        return "dotted-delete" if any("." in k for k in both) else "key-contains-dot"
    if "" in ks:
        return "empty-key"
    if any("\\" in k for k in ks):
        return "key-contains-backslash"
    return "other"


# --------------------------------------------------------------------------
# components
# --------------------------------------------------------------------------
class RoundTrip(Component):
    """compute_delta / apply_delta on object pairs; cases hold wire-encoded values."""
    name = "roundtrip"
    budget = {"quick": 3000, "thorough": 100000, "search": 100000}

    def gen(self, rng: random.Random, i: int) -> dict:
        depth = rng.choice([0, 1, 1, 2, 3])
        width = rng.choice([1, 2, 3, 4, 6])
        base = gen_obj(rng, depth, width)
        cur = mutate(rng, base) if rng.random() < 0.6 else gen_obj(rng, depth, width)
        r = rng.random()
        if r < 0.02:
            base = None
        elif r < 0.04:
            cur = None
        return {"base": enc(base), "cur": enc(cur)}

    def impl(self, case: dict) -> Any:
        from clematis.engine.util.snapshot_delta import compute_delta, apply_delta
        base, cur = dec(case["base"]), dec(case["cur"])
        delta = compute_delta(base, cur)
        out = apply_delta(base, delta)
        return {"delta": enc(delta), "out": enc(out),
                "inputs_untouched": enc(base) == case["base"] and enc(cur) == case["cur"]}

    def request(self, case: dict) -> dict:
        return {"c": "delta.roundtrip", "base": case["base"], "cur": case["cur"]}

    def compare(self, case, impl_out, model_out):
        if not isinstance(impl_out, dict) or "out" not in impl_out or not isinstance(model_out, dict) or "out" not in model_out:
            return f"impl={json.dumps(impl_out)[:200]} model={json.dumps(model_out)[:200]}"
        def dz(w):
            w = canon(w)
            if isinstance(w, dict) and "o" in w:
                w = {"o": [[k, sorted(v) if k == "_dels" and isinstance(v, list) and all(isinstance(x, str) for x in v) else v]
                           for k, v in w["o"]]}
            return w
        for f in ("delta", "out"):
            a, b = dz(impl_out[f]), dz(model_out[f])
            if a != b:
                return f"{f}: impl={json.dumps(a)[:300]} model={json.dumps(b)[:300]}"
        return None

    @staticmethod
    def _want(case) -> Any:
        c = case["cur"]
        return c if isinstance(c, dict) and "o" in c else {"o": []}

    def monitor_requests(self, case, impl_out):
        cls = classify(dec(case["base"]), dec(case["cur"]))
        return [(f"roundtrip:{cls}", {"c": "delta.eqv", "a": impl_out["out"], "b": self._want(case)})]

    def monitors(self, case, impl_out):
        cls = classify(dec(case["base"]), dec(case["cur"]))
        ok = canon(impl_out["out"]) == canon(self._want(case))
        return [(f"roundtrip:{cls}", ok, f"apply(base, delta(base, cur)) = {json.dumps(canon(impl_out['out']))[:300]} "
                                          f"but cur = {json.dumps(canon(self._want(case)))[:300]}"),
                ("inputs_untouched", impl_out["inputs_untouched"], "compute/apply mutated an argument")]

    def tags(self, case, impl_out):
        t = set()
        d = dec(impl_out["delta"])
        for f, tag in (("_adds", "adds"), ("_mods", "mods")):
            if d.get(f):
                t.add(tag)
                if any(len(hsplit(p)) > 1 for p in d[f]):
                    t.add("nested-" + tag)
        if d.get("_dels"):
            t.add("dels")
            if any(len(hsplit(p)) > 1 for p in d["_dels"]):
                t.add("nested-dels")
        base, cur = dec(case["base"]), dec(case["cur"])
        ks = _all_keys(base, set()) | _all_keys(cur, set())
        if any("." in k for k in ks):
            t.add("key:dot")
        if "" in ks:
            t.add("key:empty")
        if any("\\" in k for k in ks):
            t.add("key:backslash")
        if any(ord(ch) > 127 for k in ks for ch in k):
            t.add("key:unicode")
        if _py_eq_confusion(base or {}, cur or {}):
            t.add("leaf:pyeq-twin")
        if base is None or cur is None:
            t.add("none-arg")
        if not t and base:
            t.add("noop-nonempty")
        return sorted(t) or ["default"]

    def shrink(self, case):
        return []


class Apply(Component):
    """apply_delta on arbitrary delta blobs (adversarial path strings, missing/None sections)."""
    name = "apply"
    budget = {"quick": 1500, "thorough": 30000, "search": 30000}
    ALPH = ["a", "b", ".", "\\", "é"]

    def _path(self, rng):
        if rng.random() < 0.3:
            from_segs = [rng.choice(KEYS) for _ in range(rng.randint(1, 3))]
            return ".".join(s.replace("\\", "\\\\").replace(".", "\\.") for s in from_segs)
        return "".join(rng.choice(self.ALPH) for _ in range(rng.choice([0, 1, 2, 3, 4, 6])))

    def gen(self, rng, i):
        base = gen_obj(rng, rng.choice([0, 1, 2]), rng.choice([1, 2, 4]))
        delta: Dict[str, Any] = {}
        for f in ("_adds", "_mods"):
            r = rng.random()
            if r < 0.1:
                continue
            if r < 0.15:
                delta[f] = None
                continue
            delta[f] = {self._path(rng): copy.deepcopy(rng.choice(_leaves())) if rng.random() < 0.8 else gen_obj(rng, 1, 2)
                        for _ in range(rng.randint(0, 3))}
        r = rng.random()
        if r > 0.15:
            delta["_dels"] = [self._path(rng) for _ in range(rng.randint(0, 3))]
        elif r > 0.1:
            delta["_dels"] = None
        d: Any = delta
        if rng.random() < 0.03:
            d = rng.choice([None, {}])
        return {"base": enc(base if rng.random() > 0.03 else None), "delta": enc(d)}

    def impl(self, case):
        from clematis.engine.util.snapshot_delta import apply_delta
        return enc(apply_delta(dec(case["base"]), dec(case["delta"])))

    def request(self, case):
        return {"c": "delta.apply", "base": case["base"], "delta": case["delta"]}

    def compare(self, case, impl_out, model_out):
        try:
            a, b = canon(impl_out), canon(model_out)
        except Exception:
            a, b = impl_out, model_out
        return None if a == b else f"impl={json.dumps(a)[:300]} model={json.dumps(b)[:300]}"

    def tags(self, case, impl_out):
        t = set()
        d = dec(case["delta"]) or {}
        ps = list((d.get("_adds") or {}).keys()) + list((d.get("_mods") or {}).keys()) + list(d.get("_dels") or [])
        for p in ps:
            if p == "":
                t.add("path:empty")
            if "\\" in p:
                t.add("path:escape")
            if p.endswith("\\"):
                t.add("path:trailing-backslash")
            if len(hsplit(p)) > 1:
                t.add("path:nested")
        if d.get("_dels"):
            t.add("dels")
        if any(d.get(f) is None for f in ("_adds", "_mods", "_dels")):
            t.add("section-missing")
        return sorted(t) or ["default"]


class Paths(Component):
    """_join_path / _split_path."""
    name = "paths"
    budget = {"quick": 1000, "thorough": 20000, "search": 20000}

    def gen(self, rng, i):
        if rng.random() < 0.5:
            segs = [rng.choice(KEYS) for _ in range(rng.randint(1, 4))]
        else:
            segs = ["".join(rng.choice(["a", ".", "\\", "é", "b"]) for _ in range(rng.randint(0, 4))) for _ in range(rng.randint(1, 3))]
        return {"segs": segs}

    def impl(self, case):
        from clematis.engine.util import snapshot_delta as sd
        p = sd._join_path(tuple(case["segs"]))
        return {"path": p, "back": sd._split_path(p)}

    def request(self, case):
        return {"c": "delta.join", "segs": case["segs"]}

    def canon_model(self, case, out):
        if isinstance(out, dict):
            out.pop("ok", None)
        return out

    def monitors(self, case, impl_out):
        return [("split_join_inverse", impl_out["back"] == case["segs"], f"split(join({case['segs']})) = {impl_out['back']}")]

    def tags(self, case, impl_out):
        t = set()
        if any("." in s for s in case["segs"]):
            t.add("dot")
        if any("\\" in s for s in case["segs"]):
            t.add("backslash")
        if "" in case["segs"]:
            t.add("empty-seg")
        if len(case["segs"]) > 1:
            t.add("multi")
        return sorted(t) or ["default"]


class Auto(Component):
    """write_snapshot_auto / read_snapshot over a real scratch directory."""
    name = "auto"
    budget = {"quick": 300, "thorough": 5000, "search": 5000}
    scratch: Optional[str] = None
    ETAGS = ["e0", "e1", "e2", "é.x"]
    FOREIGN_SUFFIX = [".bak", ".tmp", ".1", ".swp", ".orig", ".json", ".abc12345", ".meta.bak", "~"]
    FOREIGN_BODY = [b"", b"{\"schema\":\"snapshot:v1\",\"mode\":\"fu",
                    b"{\"codec\":\"none\",\"etag_to\":\"zz\",\"level\":0,\"mode\":\"full\",\"schema\":\"snapshot:v1\"}\n{\"foreign\":true}",
                    b"{\"foreign\":true,\"version_etag\":\"stolen\"}"]
    GARBAGE = [b"", b"{", b"not json\nstill not", b"\xff\xfe\x00", b"{\"schema\":\"snapshot:v1\"}\n{\"a\": [1, "]

    def gen(self, rng, i):
        exotic = rng.random() < 0.5
        with exotic_alphabet(exotic):
            case = self._gen(rng, exotic)
        return case

    def _gen(self, rng, exotic: bool):
        steps: List[list] = []
        snaplike = rng.random() < 0.5
        ETAGS = self.ETAGS + (["x\u2029", "\U0001F600\x85"] if exotic and rng.random() < 0.3 else []) \
            + ([7, "7", "10"] if rng.random() < 0.3 else [])
        payloads = [self._snap_payload(rng, None, exotic) if snaplike else gen_obj(rng, rng.choice([0, 1, 2]), 3)]

        def pay():
            if snaplike:
                # only well-formed graph edits here: the loader's result for junk records that collide on one
                # sanitised edge id depends on dict order, which is C06's business and would make the
                # "load via delta == load from full file" oracle order-sensitive
                p = self._snap_payload(rng, payloads[-1], exotic)
            else:
                p = mutate(rng, rng.choice(payloads)) if rng.random() < 0.8 else gen_obj(rng, 1, 3)
            payloads.append(p)
            return enc(p)

        def reads(et):
            r = rng.random()
            if r < 0.5:
                steps.append(["read", et])
            elif r < 0.75:
                steps.append(["readp", rng.choice(["delta", "delta", "full"]), et])
            elif r < 0.93:
                steps.append(["load", et])
            else:
                steps.append(["loadf", et])

        def pair():
            # (etag_from, etag_to): distinct in either order, EQUAL (a quiet turn: same version, new payload), or equal only
            # after normalisation (7 / "7")
            r = rng.random()
            if r < 0.3:
                e = rng.choice(ETAGS)
                alt = {7: "7", "7": 7}.get(e, e) if rng.random() < 0.5 else e
                return e, alt
            a, b = rng.sample(ETAGS, 2)
            return (a, b) if rng.random() < 0.5 else (max(str(a), str(b)), min(str(a), str(b)))

        def kill_script():
            # the k-th FS call of the atomic writer dies (Crash, a BaseException: no cleanup runs); `short:n` entries make
            # raw writes partial, so empty, partial and complete temps are all left behind
            return ["ok"] * rng.choice([0, 1, 2, 3, 3, 4, 5, 6, 7, 8, 9, 10, 12, 15, 18, 21, 24, 27, 30]) \
                + [f"short:{rng.choice([1, 10, 50])}"] * rng.choice([0, 0, 1, 2, 4]) + ["crash"]

        def foreign(et):
            steps.append(["foreign", rng.choice(["full", "full", "delta"]), et, rng.randrange(len(self.FOREIGN_SUFFIX)),
                          rng.randrange(len(self.FOREIGN_BODY))])

        def rand_step():
            r = rng.random()
            et = rng.choice(ETAGS)
            if r < 0.12:
                ef = rng.choice(ETAGS + [None]) if rng.random() < 0.7 else None
                steps.append(["kill", ef, et, pay(), rng.random() < 0.6, kill_script()])
                reads(et)
            elif r < 0.18:
                foreign(et)
            elif r < 0.4:
                ef = rng.choice(ETAGS + [None, ""]) if rng.random() < 0.9 else None
                if rng.random() < 0.2:
                    ef = et
                steps.append(["auto", ef, et, pay(), rng.random() < 0.75])
                if rng.random() < 0.6:
                    reads(et)
            elif r < 0.7:
                reads(et)
            elif r < 0.85:
                steps.append(["rm", rng.choice(["full", "full", "delta"]), et])
            else:
                steps.append(["corrupt", rng.choice(["full", "full", "delta"]), et, rng.randrange(len(self.GARBAGE))])

        r0 = rng.random()
        if r0 < 0.3:
            # scripted skeleton: the FIRST write of baseline e0 is killed mid-way (or foreign look-alike files lie around);
            # every reader and the next delta writer must behave as if that write never happened
            e0, e1 = pair()
            for _ in range(rng.choice([0, 0, 1, 2])):
                foreign(rng.choice([e0, e1]))
            if rng.random() < 0.8:
                steps.append(["kill", None, e0, enc(payloads[0]), False, kill_script()])
            else:
                foreign(e0)
            for _ in range(rng.choice([1, 2, 3])):
                reads(e0)
            steps.append(["auto", e0, e1, pay(), True])
            reads(e1)
            if rng.random() < 0.5:
                steps.append(["auto", None, e0, enc(payloads[0]), False])
                if rng.random() < 0.5:
                    steps.append(["kill", e0, e1, pay(), True, kill_script()])
                else:
                    steps.append(["auto", e0, e1, pay(), True])
                reads(e1)
                steps.append(["rm", "full", e0])
                reads(e1)
            for _ in range(rng.choice([0, 1, 3])):
                rand_step()
        elif r0 < 0.75:
            # scripted skeleton: full baseline, delta on top, then a fault on the baseline
            e0, e1 = pair()
            steps.append(["auto", None, e0, enc(payloads[0]), rng.random() < 0.3])
            steps.append(["auto", e0, e1, pay(), True])
            reads(e1)
            if str(e0) == str(e1):
                steps.append(["read", e1])
                steps.append(["readp", "delta", e1])
                reads(e1)
            fault = rng.choice(["rm", "rm", "corrupt", "none", "sibling-first"])
            if fault == "sibling-first":
                steps.append(["auto", None, e1, pay(), False])
                fault = "rm"
            if fault == "rm":
                steps.append(["rm", "full", e0])
            elif fault == "corrupt":
                steps.append(["corrupt", "full", e0, rng.randrange(len(self.GARBAGE))])
            reads(e1)
            if rng.random() < 0.3:
                reads(e1)
            if rng.random() < 0.5:
                steps.append(["auto", e0, rng.choice(ETAGS), pay(), True])
            if rng.random() < 0.5:
                steps.append(["auto", None, e1, pay(), False])
                reads(e1)
            for _ in range(rng.choice([0, 1, 3])):
                rand_step()
        else:
            for _ in range(rng.choice([2, 4, 6, 9])):
                rand_step()
        return {"steps": steps}

    @staticmethod
    def _snap_payload(rng, prev: Optional[dict] = None, exotic: bool = False) -> dict:
        """a payload shaped like write_snapshot's (version_etag + gel with user-controlled ids)."""
        ids = ["a", "b", "n.1", "n.2", "", "é", "x\\y"]
        if exotic:
            ids = ids[:4] + ["a\u2028b", "\x85", "x\u2029", "\x0b\x0c", "\x1c\x1d\x1e", "\r", "a\nb", "\U0001F600", "\U00010000z"]
        p = copy.deepcopy(prev) if isinstance(prev, dict) and "gel" in prev else {"gel": {"nodes": {}, "edges": {}}}
        gel = p.setdefault("gel", {})
        if not isinstance(gel, dict):
            gel = p["gel"] = {}
        for part in ("nodes", "edges"):
            if not isinstance(gel.get(part), dict):
                gel[part] = {}
        for _ in range(rng.randint(0, 3)):
            a, b = rng.choice(ids), rng.choice(ids)
            key = f"{a}→{b}" if a <= b else f"{b}→{a}"
            r = rng.random()
            if r < 0.25 and gel["edges"]:
                del gel["edges"][rng.choice(sorted(gel["edges"]))]
            else:
                gel["edges"][key] = {"src": min(a, b), "dst": max(a, b), "rel": "coact",
                                     "weight": rng.choice([0.5, 1.0, 1, -0.25, 0.0]), "attrs": {}}
            if rng.random() < 0.5:
                gel["nodes"][a] = {"id": a, "label": rng.choice(["x", "", "a.b"] + (EXO_STRS if exotic else []))}
        if rng.random() < 0.8:
            p["version_etag"] = rng.choice(["v1", "v2", "7", 7])
        else:
            p.pop("version_etag", None)
        return p

    @staticmethod
    def _fname(d, kind, et):
        return os.path.join(d, f"snapshot-{et}.{kind}.json")

    def impl(self, case):
        from clematis.engine.snapshot import write_snapshot_auto, read_snapshot
        d = tempfile.mkdtemp(prefix="auto_", dir=self.scratch)
        out = []
        logging.disable(logging.CRITICAL)
        try:
            with contextlib.redirect_stderr(io.StringIO()):
                for st in case["steps"]:
                    if st[0] == "auto":
                        try:
                            pth, wrote = write_snapshot_auto(d, etag_from=st[1], etag_to=st[2], payload=dec(st[3]), delta_mode=st[4])
                            with open(pth, "rb") as fh:
                                nlines = len(fh.read().decode("utf-8").splitlines())
                            out.append({"mode": "delta" if wrote else "full", "lines": nlines})
                        except Exception:
                            out.append({"raised": True})
                    elif st[0] == "read":
                        try:
                            out.append({"payload": enc(read_snapshot(root=d, etag_to=st[1]))})
                        except Exception:
                            out.append({"raised": True})
                    elif st[0] == "readp":
                        try:
                            out.append({"payload": enc(read_snapshot(path=self._fname(d, st[1], st[2])))})
                        except Exception:
                            out.append({"raised": True})
                    elif st[0] == "load":
                        out.append(self._load(d, self._fname(d, "delta", st[1])))
                    elif st[0] == "loadf":
                        out.append(self._load(d, self._fname(d, "full", st[1])))
                    elif st[0] == "kill":
                        out.append(self._killed_write(d, st))
                    elif st[0] == "foreign":
                        with open(self._fname(d, st[1], st[2]) + self.FOREIGN_SUFFIX[st[3]], "wb") as f:
                            f.write(self.FOREIGN_BODY[st[4]])
                        out.append(None)
                    elif st[0] == "rm":
                        with contextlib.suppress(FileNotFoundError):
                            os.unlink(self._fname(d, st[1], st[2]))
                        out.append(None)
                    elif st[0] == "corrupt":
                        with open(self._fname(d, st[1], st[2]), "wb") as f:
                            f.write(self.GARBAGE[st[3]])
                        out.append(None)
        finally:
            logging.disable(logging.NOTSET)
            shutil.rmtree(d, ignore_errors=True)
        if any(st[0] == "kill" for st in case["steps"]):
            if len(self._kills) > 50000:
                self._kills.clear()
            self._kills[self._ckey(case)] = out
        return out

    @staticmethod
    def _load(d: str, pick: Optional[str]) -> dict:
        """load_latest_snapshot on directory d; `pick` is made the newest *.json so that it is the file picked."""
        import types
        from clematis.engine.snapshot import load_latest_snapshot
        if pick is not None:
            if not os.path.exists(pick):
                return {"nofile": True}
            os.utime(pick, (4102444800, 4102444800))
        state: Dict[str, Any] = {}
        try:
            res = load_latest_snapshot(types.SimpleNamespace(cfg={"t4": {"snapshot_dir": d}}), state)
        except Exception as e:
            return {"load_raised": type(e).__name__}
        finally:
            if pick is not None and os.path.exists(pick):
                os.utime(pick, (1000000000, 1000000000))
        picked = os.path.basename(res.get("path") or "")
        return {"loaded": bool(res.get("loaded")), "version_etag": res.get("version_etag"),
                "picked_ok": pick is None or picked == os.path.basename(pick),
                "state": json.loads(json.dumps(state, sort_keys=True, default=str))}

    def _oracle(self, et: str, payload_wire: Any) -> dict:
        """state obtained by loading the given payload from a plain FULL snapshot file."""
        from clematis.engine.snapshot import write_snapshot_auto
        d = tempfile.mkdtemp(prefix="oracle_", dir=self.scratch)
        logging.disable(logging.CRITICAL)
        try:
            with contextlib.redirect_stderr(io.StringIO()):
                write_snapshot_auto(d, etag_from=None, etag_to=et, payload=dec(payload_wire), delta_mode=False)
                return self._load(d, None)
        finally:
            logging.disable(logging.NOTSET)
            shutil.rmtree(d, ignore_errors=True)

    @staticmethod
    def _same_load(a: dict, b: dict) -> bool:
        va, vb = a.get("version_etag"), b.get("version_etag")
        return a.get("loaded") == b.get("loaded") and a.get("state") == b.get("state") and \
            (va == vb or (va is not None and vb is not None and str(va) == str(vb)))

    def _killed_write(self, d: str, st: list) -> dict:
        """the REAL write_snapshot_auto with the atomic writer dying at the scripted FS call (harness/lib/faults.py)."""
        from pathlib import Path
        from harness.lib import faults
        from clematis.engine.snapshot import write_snapshot_auto
        box: Dict[str, Any] = {}

        def go():
            box["ret"] = write_snapshot_auto(d, etag_from=st[1], etag_to=st[2], payload=dec(st[3]), delta_mode=st[4])

        before = set(os.listdir(d))
        r = faults.run_injected(go, Path(d), [], list(st[5]), record_hist=False)
        if r["status"] == "returned":
            pth, wrote = box["ret"]
            with open(pth, "rb") as fh:
                nlines = len(fh.read().decode("utf-8").splitlines())
            return {"mode": "delta" if wrote else "full", "lines": nlines}
        if r["status"] == "raised":
            return {"raised": True}
        reps = [t for t in r["trace"] if t[0] == "replace"]
        left = sorted(set(os.listdir(d)) - before)
        return {"crashed": True, "committed": bool(reps) and reps[0][1] == "ok",
                "died_at": r["trace"][-1][0] if r["trace"] else "?", "left": len(left),
                "left_sizes": sorted({"empty" if os.path.getsize(os.path.join(d, n)) == 0 else "nonempty" for n in left})}

    _kills: Dict[str, List[Any]] = {}

    @staticmethod
    def _ckey(case) -> str:
        import hashlib
        return hashlib.sha1(json.dumps(case, sort_keys=True).encode()).hexdigest()

    def request(self, case):
        # a killed write exists for the model iff the body's os.replace happened (ground truth from the real run)
        if any(s[0] == "kill" for s in case["steps"]):
            k = self._ckey(case)
            if k not in self._kills:
                self.impl(case)
            outs = self._kills.get(k, [])
            steps = []
            for s_, o in zip(case["steps"], outs):
                if s_[0] == "kill":
                    if isinstance(o, dict) and o.get("crashed") and not o.get("committed"):
                        steps.append(["rm", "full", "\u0000never-written"])
                    else:
                        steps.append(["auto"] + list(s_[1:5]))
                elif s_[0] == "foreign":
                    steps.append(["rm", "full", "\u0000never-written"])
                else:
                    steps.append(s_)
            case = {"steps": steps}
        # `loadf` (load_latest_snapshot on a FULL file) is answered by the model's read of that file
        return {"c": "delta.auto", "steps": [s[:3] if s[0] == "corrupt" else (["readp", "full", s[1]] if s[0] == "loadf" else
                                                                              (["rm", "full", "\u0000never-written"] if s[0] == "foreign" else s))
                                             for s in map(self._nstep, case["steps"])]}

    _ETAG_POS = {"auto": (1, 2), "kill": (1, 2), "read": (1,), "load": (1,), "loadf": (1,), "readp": (2,), "rm": (2,),
                 "corrupt": (2,), "foreign": (2,)}

    @classmethod
    def _nstep(cls, st: list) -> list:
        """etags reach file names and headers through f-strings / JSON: 7 and "7" name the same snapshot.  The model and the
        bookkeeping work on the normalised (string) etag; the real code gets the value as generated."""
        st = list(st)
        for i in cls._ETAG_POS.get(st[0], ()):
            if i < len(st) and st[i] is not None and not isinstance(st[i], str):
                st[i] = str(st[i])
        return st

    @staticmethod
    def _nolines(out):
        return [({k: v for k, v in o.items() if k != "lines"} if isinstance(o, dict) and "lines" in o else o) for o in out] \
            if isinstance(out, list) else out

    def compare(self, case, impl_out, model_out):
        def cz(o):
            if isinstance(o, list):
                return [({"payload": canon(x["payload"])} if isinstance(x, dict) and "payload" in x and "src" not in x else x)
                        for x in o]
            return o
        impl_out = self._nolines(impl_out)
        case = {"steps": [self._nstep(s) for s in case["steps"]]}
        if isinstance(impl_out, list) and isinstance(model_out, list) and len(impl_out) == len(model_out):
            impl_out, model_out = list(impl_out), list(model_out)
            for i, st in enumerate(case["steps"]):
                io = impl_out[i]
                if st[0] == "kill" and isinstance(io, dict) and io.get("crashed"):
                    # a write that died: exists for the model iff committed (then the model must have written, not raised)
                    if io.get("committed") and not (isinstance(model_out[i], dict) and "mode" in model_out[i]):
                        return f"step {i}: body committed before the crash but model answered {json.dumps(model_out[i])[:100]}"
                    impl_out[i] = model_out[i] = "killed-write"
            for i, st in enumerate(case["steps"]):
                if st[0] != "loadf" or not isinstance(model_out[i], dict):
                    continue
                io, mo = impl_out[i], model_out[i]
                if mo.get("raised"):
                    ok = isinstance(io, dict) and (io.get("nofile") or io.get("loaded") is False)
                else:
                    ok = isinstance(io, dict) and "state" in io and self._same_load(io, self._oracle(st[1], mo["payload"]))
                if not ok:
                    return f"step {i} {st}: loader state {json.dumps(io)[:250]} but model read {json.dumps(mo)[:200]}"
                impl_out[i] = model_out[i] = "loadf-agrees"
            # a `load` step: the model names the source; the real loader must end in the same state as when it
            # loads that payload from a plain full file (or must report that nothing was loaded)
            impl_out, model_out = list(impl_out), list(model_out)
            for i, st in enumerate(case["steps"]):
                if st[0] != "load" or not isinstance(model_out[i], dict) or "src" not in model_out[i]:
                    continue
                io, mo = impl_out[i], model_out[i]
                if isinstance(io, dict) and io.get("nofile"):
                    ok = mo["src"] == "notLoaded"
                elif mo["src"] == "notLoaded":
                    ok = isinstance(io, dict) and io.get("loaded") is False and io.get("version_etag") is None
                else:
                    ok = isinstance(io, dict) and "state" in io and self._same_load(io, self._oracle(st[1], mo["payload"]))
                if not ok:
                    return f"step {i} {st}: loader state {json.dumps(io)[:250]} but model source {json.dumps(mo)[:200]}"
                impl_out[i] = model_out[i] = "load-agrees"
        a, b = cz(impl_out), cz(model_out)
        if a == b:
            return None
        for i, (x, y) in enumerate(zip(a, b)) if isinstance(a, list) and isinstance(b, list) else []:
            if x != y:
                return f"step {i} {case['steps'][i][:3]}: impl={json.dumps(x)[:250]} model={json.dumps(y)[:250]}"
        return f"impl={json.dumps(a)[:200]} model={json.dumps(b)[:200]}"

    def _track(self, case, impl_out):
        """spec-level bookkeeping of what each file should hold, to state the property clauses."""
        full: Dict[str, Any] = {}     # etag -> payload wire | "corrupt"
        delta: Dict[str, Any] = {}    # etag -> (etag_from, payload wire) | "corrupt"
        res = []
        tags = set()
        lean: List[Tuple[str, dict]] = []
        self._lean = lean
        prev = None
        exo = "\x85\u2028\u2029\x0b\x0c\x1c\x1d\x1e\r\n"
        if any(ch in exo or ord(ch) > 0xFFFF for stp in case["steps"] if stp[0] == "auto"
               for k in _all_strings(dec(stp[3]), set()) for ch in k):
            tags.add("payload:line-breaking-or-astral-chars")
        raw_out = impl_out
        impl_out = self._nolines(impl_out)
        nsteps = [self._nstep(s) for s in case["steps"]]
        if any(s[0] in ("auto", "kill") and s[1] is not None and s[1] == s[2] for s in nsteps):
            tags.add("etags:from==to")
        if any(a != b for a, b in zip(nsteps, case["steps"])):
            tags.add("etags:non-string-form")
        for idx, (st, o) in enumerate(zip(nsteps, impl_out)):
            if st[0] == "foreign":
                tags.add("foreign-lookalike-file")
                continue
            if st[0] == "kill" and isinstance(o, dict) and o.get("crashed"):
                tags.add("kill:committed" if o.get("committed") else "kill:uncommitted:" + o.get("died_at", "?"))
                for sz in o.get("left_sizes", []):
                    tags.add("kill:left-temp-" + sz)
                if o.get("committed"):
                    ef, et, p, dm = st[1], st[2], st[3], st[4]
                    if dm and ef and isinstance(full.get(ef), dict):
                        delta[et] = (ef, p)
                    else:
                        full[et] = p
                prev = None
                continue
            if st[0] == "kill":
                st = ["auto"] + list(st[1:5])      # the script ran out / the call raised first: an ordinary write
            if st[0] == "auto" and isinstance(raw_out[idx], dict) and "lines" in raw_out[idx]:
                res.append(("written_file_is_one_header_line_plus_one_payload_line", raw_out[idx]["lines"] == 2,
                            f"the file written for etag {st[2]!r} splits into {raw_out[idx]['lines']} str.splitlines() lines"))
            if st[0] == "auto":
                ef, et, p, dm = st[1], st[2], st[3], st[4]
                base_state = full.get(ef) if (dm and ef) else None
                if isinstance(o, dict) and o.get("raised"):
                    tags.add("write:raised")
                    res.append(("writer_raises_only_on_unreadable_baseline", base_state == "corrupt",
                                f"write_snapshot_auto raised with baseline state {base_state!r}"))
                else:
                    if dm and ef and base_state is None:
                        tags.add("write:fallback-full")
                        res.append(("writer_falls_back_to_full", o == {"mode": "full"}, f"baseline missing but writer answered {o}"))
                    if o == {"mode": "delta"}:
                        tags.add("write:delta")
                        delta[et] = (ef, p)
                    elif o == {"mode": "full"}:
                        tags.add("write:full")
                        full[et] = p
            elif st[0] == "rm":
                (full if st[1] == "full" else delta).pop(st[2], None)
                prev = None
                continue
            elif st[0] == "corrupt":
                (full if st[1] == "full" else delta)[st[2]] = "corrupt"
                prev = None
                continue
            elif st[0] == "loadf":
                et = st[1]
                fl = full.get(et)
                if isinstance(o, dict) and "state" in o and isinstance(fl, dict):
                    tags.add("loadf:full")
                    res.append(("load_latest_picked_the_full_file", o.get("picked_ok", False), "picker chose another file"))
                    wv = dec(fl).get("version_etag") if isinstance(dec(fl), dict) else None
                    res.append(("load_latest_loads_written_full_snapshot",
                                o["loaded"] is True and str(o["version_etag"]) == str(wv if wv is not None else et),
                                f"full snapshot of {et!r} written, loader answered loaded={o['loaded']} version_etag={o['version_etag']!r}"))
                    want = self._oracle_state(et, fl)
                    if want is not None:
                        res.append(("load_latest_full_state", self._same_load(o, want), f"loaded {json.dumps(o)[:250]} expected {json.dumps(want)[:250]}"))
                if isinstance(o, dict) and "load_raised" in o:
                    res.append(("load_latest_never_raises", False, f"raised {o['load_raised']}"))
            elif st[0] == "load":
                et = st[1]
                dl = delta.get(et)
                if isinstance(o, dict) and "state" in o and isinstance(dl, tuple) and isinstance(full.get(dl[0]), dict) \
                        and prev is not None and prev[2] == et and prev[5] == {"mode": "delta"}:
                    wv = dec(dl[1]).get("version_etag") if isinstance(dec(dl[1]), dict) else None
                    res.append(("load_latest_loads_written_delta_snapshot",
                                o["loaded"] is True and str(o["version_etag"]) == str(wv if wv is not None else et),
                                f"delta snapshot of {et!r} written with baseline present, loader answered loaded={o['loaded']} "
                                f"version_etag={o['version_etag']!r}"))
                if isinstance(o, dict) and "state" in o and isinstance(dl, tuple):
                    res.append(("load_latest_picked_the_delta_file", o.get("picked_ok", False), "picker chose another file"))
                    base_state = full.get(dl[0])
                    if isinstance(base_state, dict) and prev is not None and prev[2] == et and prev[5] == {"mode": "delta"}:
                        tags.add("load:delta-reconstructed")
                        want = self._oracle(et, dl[1])
                        cls = classify(dec(base_state), dec(dl[1]))
                        res.append((f"load_latest_delta_equals_full:{cls}", self._same_load(o, want),
                                    f"loaded {json.dumps(o)[:250]} expected {json.dumps(want)[:250]}"))
                    elif base_state is None:
                        sib = full.get(et)
                        if isinstance(sib, dict) and et:
                            tags.add("load:baseline-missing-sibling")
                            want = self._oracle(et, sib)
                            res.append(("load_latest_missing_baseline_uses_sibling_full", self._same_load(o, want),
                                        f"loaded {json.dumps(o)[:250]} expected {json.dumps(want)[:250]}"))
                        else:
                            tags.add("load:baseline-missing")
                            res.append(("load_latest_delta_without_baseline_reports_absence",
                                        o["loaded"] is False and o["version_etag"] is None,
                                        f"baseline missing, no sibling full, but loader answered loaded={o['loaded']} "
                                        f"version_etag={o['version_etag']!r}"))
                    elif base_state == "corrupt":
                        tags.add("load:baseline-corrupt")
                        res.append(("load_latest_unreadable_baseline_not_loaded", o["loaded"] is False, f"{json.dumps(o)[:200]}"))
                elif isinstance(o, dict) and "state" in o and dl == "corrupt":
                    tags.add("load:delta-corrupt")
                    res.append(("load_latest_unreadable_delta_not_loaded", o["loaded"] is False, f"{json.dumps(o)[:200]}"))
                if isinstance(o, dict) and "load_raised" in o:
                    res.append(("load_latest_never_raises", False, f"raised {o['load_raised']}"))
            elif st[0] in ("read", "readp"):
                if st[0] == "readp":
                    et = st[2]
                    target = (delta if st[1] == "delta" else full).get(et)
                    if target is None:
                        tags.add("readp:missing")
                        res.append(("read_path_missing_raises", isinstance(o, dict) and o.get("raised") is True, f"{o}"))
                        continue
                    if st[1] == "full":
                        tags.add("readp:full")
                        if isinstance(target, dict) and not (isinstance(o, dict) and o.get("raised")):
                            res.append(("full_file_reads_back", canon(o["payload"]) == canon(target) or not dec(target), f"{o}"))
                            if dec(target):
                                lean.append(("full_file_reads_back", {"c": "delta.eqv", "a": o["payload"], "b": target}))
                        continue
                    tags.add("readp:delta")
                else:
                    et = st[1]
                dl = delta.get(et)
                raised = isinstance(o, dict) and o.get("raised")
                got = None if raised else canon(o["payload"])
                if raised:
                    tags.add("read:raised")
                    unreadable = dl == "corrupt" or (isinstance(dl, tuple) and full.get(dl[0]) == "corrupt") or full.get(et) == "corrupt"
                    res.append(("reader_raises_only_on_unreadable_file", unreadable, f"read_snapshot raised; delta={dl!r}"))
                elif isinstance(dl, tuple) and dl[0] and isinstance(full.get(dl[0]), dict) \
                        and prev is not None and prev[0] == "auto" and prev[2] == et and prev[5] == {"mode": "delta"}:
                    tags.add("read:delta-reconstructed")
                    want = canon(dl[1])
                    cls = classify(dec(full[dl[0]]), dec(dl[1]))
                    res.append((f"delta_file_reads_back:{cls}", got == want,
                                f"read {json.dumps(got)[:250]} expected {json.dumps(want)[:250]}"))
                    lean.append((f"delta_file_reads_back:{cls}", {"c": "delta.eqv", "a": o["payload"], "b": dl[1]}))
                elif isinstance(dl, tuple) and full.get(dl[0]) is None:
                    tags.add("read:baseline-missing")
                    sib = full.get(et)
                    allowed = [canon(enc({}))] + ([canon(sib)] if isinstance(sib, dict) else [])
                    res.append(("missing_baseline_full_or_absent", got in allowed,
                                f"baseline missing: read {json.dumps(got)[:250]}"))
                elif dl is None and isinstance(full.get(et), dict):
                    tags.add("read:full")
                    res.append(("full_file_reads_back", got == canon(full[et]) or (got == canon(enc({})) and not dec(full[et])),
                                f"read {json.dumps(got)[:250]}"))
                    if dec(full[et]):
                        lean.append(("full_file_reads_back", {"c": "delta.eqv", "a": o["payload"], "b": full[et]}))
                elif dl is None and full.get(et) is None:
                    tags.add("read:absent")
                    res.append(("absent_reads_empty", got == canon(enc({})), f"read {json.dumps(got)[:250]}"))
            if st[0] == "auto":
                prev = list(st[:5]) + [o]
            elif st[0] in ("rm", "corrupt"):
                prev = None
        return res, tags

    def monitors(self, case, impl_out):
        return self._track(case, impl_out)[0]

    def monitor_requests(self, case, impl_out):
        """what was read back vs what was written, decided by Lean (`J.eqv`)."""
        self._track(case, impl_out)
        return list(self._lean)

    def tags(self, case, impl_out):
        return sorted(self._track(case, impl_out)[1]) or ["default"]

    def _oracle_state(self, et, payload_wire):
        try:
            return self._oracle(et, payload_wire)
        except Exception:
            return None


RT, AP, PA, AU = RoundTrip(), Apply(), Paths(), Auto()
COMPONENTS = [RT, AP, PA, AU]


# --------------------------------------------------------------------------
# exhaustive small scopes (thorough tier)
# --------------------------------------------------------------------------
def _objs(keys: List[str], vals: List[Any], maxk: int) -> List[dict]:
    out = []
    for n in range(maxk + 1):
        for ks in itertools.combinations(keys, n):
            for vs in itertools.product(vals, repeat=n):
                out.append({k: copy.deepcopy(v) for k, v in zip(ks, vs)})
    return out


def scope_flat() -> List[dict]:
    return _objs(["a", "a.b", "", "é", "\\"], [0, 1, True, 1.0, "x", [], {}, None], 2)          # 681 objects


def scope_nested() -> List[dict]:
    inner = _objs(["a", "a.b", ""], [1, True, {}, {"": 1}], 2)                                       # 61 objects
    vals = [1, True] + inner
    return [{k: copy.deepcopy(v) for k, v in zip(ks, vs)}
            for ks in (("a",), ("a.b",), ("",), ("a", "a.b")) for vs in itertools.product(vals, repeat=len(ks))
            if len(ks) == 1 or (vs[0] in inner[:14] and vs[1] in inner[:14])]


def run_cases(ctx: Ctx, comp: Component, cases: Iterable[dict], chunk: int = 20000) -> int:
    """run_component's per-case logic over a (possibly huge) stream of given cases, in chunks."""
    n = 0
    it = iter(cases)
    while True:
        batch = list(itertools.islice(it, chunk))
        if not batch:
            return n
        n += len(batch)
        ios = []
        for c in batch:
            try:
                ios.append(comp.impl(c))
            except Exception as e:
                ios.append({"__raised__": type(e).__name__, "msg": str(e)[:200]})
        resps = run_driver([comp.request(c) for c in batch])
        mon = [(i, name, rq) for i, (c, io) in enumerate(zip(batch, ios))
               if not (isinstance(io, dict) and "__raised__" in io) for name, rq in comp.monitor_requests(c, io)]
        for (i, name, rq), rs in zip(mon, run_driver([r for _, _, r in mon]) if mon else []):
            if rs.get("ok") is not True and len(ctx.failures) < 50:
                ctx.monitor_fail(comp.name, name, batch[i], f"Lean monitor returned {json.dumps(rs)[:300]}", ios[i])
        for c, io, rs in zip(batch, ios, resps):
            raised = isinstance(io, dict) and "__raised__" in io
            ctx.record_case(comp.name, c, ["raised:" + io["__raised__"]] if raised else comp.tags(c, io))
            mo = {"__model_err__": rs["err"]} if "err" in rs else rs["ok"]
            d = comp.compare(c, io, mo)
            if d is not None and len(ctx.mismatches) < 50:
                ctx.mismatch(comp.name, c, d, io, mo, deciding=comp.deciding)
            if not raised:
                for name, ok, detail in comp.monitors(c, io):
                    if not ok and len(ctx.failures) < 50:
                        ctx.monitor_fail(comp.name, name, c, detail, io)


def run(ctx: Ctx) -> None:
    AU.scratch = str(ctx.scratch)
    for comp in COMPONENTS:
        rng = ctx.rng_for(comp.name)
        n = int(comp.budget.get(ctx.tier, comp.budget["quick"]) * ctx.budget_scale)
        corpus = list(comp.corpus(ctx))
        run_cases(ctx, comp, itertools.chain(corpus, (comp.gen(rng, i) for i in range(n))))
        ctx.per_component.setdefault(comp.name, {"cases": 0, "nontrivial": 0})["corpus"] = len(corpus)
    if ctx.tier in ("thorough", "search"):
        for nm, objs in (("flat<=2keys", scope_flat()), ("nested", scope_nested())):
            wires = [enc(o) for o in objs]
            k = run_cases(ctx, RT, ({"base": b, "cur": c} for b in wires for c in wires))
            ctx.extra.setdefault("exhaustive_scopes", {})[nm] = {"objects": len(objs), "pairs": k}
            ctx.log(f"EXHAUSTIVE scope={nm} objects={len(objs)} pairs={k}")


def replay(ctx: Ctx, rec: dict) -> int:
    from harness.core import generic_replay
    AU.scratch = str(ctx.scratch)
    return generic_replay(ctx, rec, {c.name: c for c in COMPONENTS})
