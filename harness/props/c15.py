"""C15 — bounded caches: correspondence + monitors.

Components (one per container; all driven op-by-op against the compiled Lean models):
  lrubytes  clematis/engine/util/lru_bytes.py:LRUBytes
  ttllru    clematis/engine/cache.py:LRUCache (+ _NamespaceCache, stable_key normalisation), injected clock
  ttlmgr    clematis/engine/cache.py:CacheManager
  lset      clematis/engine/util/lru_det.py:DeterministicLRUSet and util/ring.py:DeterministicLRU
  lmap      clematis/engine/util/lru_det.py:DeterministicLRU
  ring      clematis/engine/util/ring.py:DedupeRing
  merge     clematis/engine/cache.py:merge_caches_deterministic
  wrapsched clematis/engine/cache.py:ThreadSafeCache / ThreadSafeBytesCache under generated schedules
plus a real-thread stress of the wrappers (supporting only).
"""
from __future__ import annotations

import random
from typing import Any, List, Tuple

from harness.core import Component, Ctx, run_component
from harness.lib.c15_vals import val_of, val_id, obs, obs_model, gen_val
from harness.lib.c15_ttl import TtlLruComp, TtlMgrComp, TtlLruExhaustive
from harness.lib.c15_det import LSetComp, LMapComp, RingComp, LMapExhaustive, RingExhaustive
from harness.lib.c15_merge import MergeComp, WrapSchedComp, thread_stress

RULE = ("operation sequences over small key/cost alphabets with boundary-biased capacities (0, 1, tight, loose, occasionally negative), "
        "TTLs (0, 1, small, 600, occasionally negative) and scripted clocks (steps 0, 1, ttl-1, ttl, ttl+1, occasionally backwards), "
        "generated from one seeded PRNG per component; a case is non-trivial when it triggers at least one of: "
        "eviction, rejection, expiry, hit, update-in-place, conflict, interleaving; distinct by canonical JSON of the whole sequence. "
        "Components *_x enumerate ALL sequences of a small alphabet (ttllru_x: length<=4 over 5 ops x clock advances {0,ttl,ttl+1} x caps {1,2}; "
        "lmap_x: length<=4 over 10 ops x caps {1,2} x both flags; ring_x: length<=5 over 7 ops x k in {1,2,3}): a seed-dependent slice in quick, the whole space in thorough")
ASSUMPTIONS = [
    "stored values are opaque to the containers: the models carry value ids (naturals), the harness maps ids to Python objects whose domain includes "
    "None, 0, '', False, (), 0.0 (a hit on such a value is still a hit: returned, counted, moved to MRU) and get(key, default) with None/falsy/ordinary defaults; "
    "set-like containers are driven with '', None, 0 among their elements; falsy keys (0, '', None, False) are in the key pool",
    "keys and values are mapped to naturals (hashable Python keys are only compared for equality); for LRUCache/CacheManager the key identity is "
    "the harness's own normalisation (hashable as-is, else compact sorted-key JSON), checked against stable_key/_hashable_or_stable on a pool with collisions",
    "LRUBytes capacities are non-negative (negative caps are outside every validated configuration); the TTL LRU and the deterministic containers are modelled for every integer capacity",
    "the injected clock returns integer-valued readings (int or float), one reading per call",
    "threading.RLock provides mutual exclusion (wrapper methods are single atomic steps; checked structurally from the AST: Clem/Gen/Locks.lean)",
    "merge: worker_order_key / key_order_key return integers (ties allowed; Python's sorts are stable)",
]
CLAIM = {
    "text": ("Unbounded Lean theorems (induction over arbitrary operation lists, every capacity/TTL setting, every clock reading) for each cache container: "
             "LRUBytes, the TTL LRU (_NamespaceCache/LRUCache) and the namespaced CacheManager, DeterministicLRUSet, DeterministicLRU, DedupeRing — every reachable state is "
             "within its entry/byte capacity, keys are unique, bytes/sizes/counters are accounted exactly, eviction removes a strict oldest-first prefix and never the key just written, "
             "a TTL hit implies the entry is fresh w.r.t. the injected clock and an expired entry is removed on read, capacity 0 (or <= 0) means disabled, namespaces are independent; "
             "merge_caches_deterministic is independent of the listing order of workers and of each worker's internal order (distinct order keys) for every target cache and is first-wins; "
             "the lock wrappers hold the lock over every whole method body (table regenerated from the AST, decided by the kernel), so concurrent executions are exactly the interleavings "
             "of atomic steps (linearizability theorem), every sequential invariant holds under every schedule, no operation is lost or reordered within a thread, and "
             "(TTL off, no invalidate, cap >= number of distinct keys) every key ends with the value of the last put in the linearization (no completed put is lost). "
             "Tied to the code by op-by-op differential execution of the same definitions (compiled driver) against the real classes with a scripted clock, "
             "with the invariants evaluated by Lean on the implementation's state and the theorem statements re-checked as monitors on the implementation's outputs."),
    "note": ("Trusted: Lean kernel + propext/Classical.choice/Quot.sound; the harness; CPython dict/deque/OrderedDict semantics; RLock mutual exclusion "
             "(the atomic-step obligation is structural: whole method body under `with self._lock`). Keys/values abstracted to naturals. "
             "stable_key / _hashable_or_stable is covered by correspondence only (key pool with unhashable keys, dict-order and str/list collisions); "
             "LRUCache constructor argument precedence is modelled (effMax/effTtl) and covered by correspondence. "
             "DedupeRing with discard under-counts the window by design: the invariant proved is refcount <= multiplicity (equality for discard-free histories; "
             "machine-checked witness that equality fails with discard). Real-thread runs of the wrappers are supporting stress only; the deciding argument for "
             "'no lost update under threads' is lock coverage + the interleaving theorem + the sequential theorems. Negative LRUBytes capacities excluded."),
    "technique": "Lean 4 invariant proofs by induction over operation sequences + exact op-by-op correspondence with the Python containers",
    "design_ref": "DESIGN.md §4 C15",
}
DRIVER_MODULES = ['HLruBytes', 'HTtlLru', 'HDetLru', 'HCacheMerge']
TABLES = ['locks']
MODELLED = {
    "clematis/engine/util/lru_bytes.py": ["LRUBytes"],
    "clematis/engine/cache.py": ["_NamespaceCache", "LRUCache", "CacheManager", "stable_key", "ThreadSafeCache",
                                 "ThreadSafeBytesCache", "merge_caches_deterministic"],
    "clematis/engine/util/lru_det.py": ["DeterministicLRUSet", "DeterministicLRU"],
    "clematis/engine/util/ring.py": ["DedupeRing", "DeterministicLRU"],
}
TRUSTED = ["modelled, not verified: CPython dict/deque/OrderedDict semantics; RLock mutual exclusion"]


class LruBytesComp(Component):
    name = "lrubytes"
    budget = {"quick": 400, "thorough": 20000, "search": 40000}

    def gen(self, rng: random.Random, i: int) -> dict:
        maxE = rng.choice([0, 0, 1, 2, 3, 5, 8])
        maxB = rng.choice([0, 0, 1, 4, 10, 25, 100])
        nk = rng.choice([2, 3, 5, 9])
        costs = [0, 1, 2, 3, 4, 5, 10, 11, 26, -1]
        if maxB:
            costs += [maxB, maxB + 1, maxB - 1]
        ops = []
        for _ in range(rng.choice([3, 8, 20, 60])):
            r = rng.random()
            if r < 0.55:
                ops.append(["put", rng.randrange(nk), gen_val(rng), rng.choice(costs)])
            elif r < 0.85:
                ops.append(["get", rng.randrange(nk)])
            elif r < 0.97:
                ops.append(["contains", rng.randrange(nk)])
            else:
                ops.append(["clear"])
        return {"maxE": maxE, "maxB": maxB, "ops": ops}

    @staticmethod
    def _obs(c) -> dict:
        keys = list(c.keys())
        return {"keys": keys, "bytes": c.size_bytes(), "n": c.size_entries()}

    def impl(self, case: dict) -> Any:
        from clematis.engine.util.lru_bytes import LRUBytes
        ev: List[list] = []
        c = LRUBytes(case["maxE"], case["maxB"], on_evict=lambda k, v, b: ev.append([k, val_id(v), b]))
        out = []
        states = []
        for op in case["ops"]:
            del ev[:]
            if op[0] == "put":
                r = c.put(op[1], val_of(op[2]), op[3])      # value ids denote Python objects incl. None/0/""/False
                out.append({"r": list(r), "ev": [list(e) for e in ev], "s": self._obs(c)})
            elif op[0] == "get":
                out.append({"r": obs(c.get(op[1])), "s": self._obs(c)})
            elif op[0] == "contains":
                out.append({"r": op[1] in c, "s": self._obs(c)})
            else:
                c.clear()
                out.append({"r": None, "s": self._obs(c)})
            # full observable state for the Lean-side invariant monitor
            q = list(c._q)
            items = [[k, val_id(c._map[k][0]), c._map[k][1]] if k in c._map else [k, -1, -1] for k in q]
            states.append({"items": items, "bytes": c._bytes, "mapn": len(c._map),
                           "public_items": [[k, val_id(v)] for k, v in c.items()]})
        return {"out": out, "states": states}

    def compare(self, case, impl_out, model_out):
        if isinstance(impl_out, dict) and "out" in impl_out:
            impl_out = impl_out["out"]
        return super().compare(case, impl_out, model_out)

    def canon_model(self, case, out):
        if isinstance(out, list):
            for op, o in zip(case["ops"], out):
                if isinstance(o, dict) and isinstance(o.get("s"), dict):
                    o["s"].pop("inv", None)
                if isinstance(o, dict) and op[0] == "get":
                    o["r"] = obs_model(o.get("r"))      # LRUBytes.get returns a stored None as None
        return out

    def monitor_requests(self, case, impl_out) -> List[Tuple[str, dict]]:
        rq = []
        for i, st in enumerate(impl_out["states"]):
            if any(it[2] < 0 for it in st["items"]) or st["mapn"] != len(st["items"]):
                rq.append(("inv.deque_map_consistent", {"c": "const", "v": False}))
                continue
            rq.append(("inv", {"c": "lrubytes.inv", "maxE": case["maxE"], "maxB": case["maxB"],
                               "items": st["items"], "bytes": st["bytes"]}))
        # only the distinct states are worth sending; keep all (cheap)
        return rq

    def monitors(self, case, impl_out):
        res = []
        # eviction reports: evicted entries are a prefix of the previous recency order
        prev: List[int] = []
        pitems: List[list] = []
        for op, o, st in zip(case["ops"], impl_out["out"], impl_out["states"]):
            if op[0] == "get":
                # a present key is a hit whatever its value (None, 0, "", False …): value returned, key → MRU
                ent = next((it for it in pitems if it[0] == op[1]), None)
                if ent is not None:
                    ok = o["r"] == obs_model(ent[1]) and o["s"]["keys"] == [k for k in prev if k != op[1]] + [op[1]]
                else:
                    ok = o["r"] is None and o["s"]["keys"] == prev
                res.append(("get_hit_refreshes", ok, f"get {op[1]} -> {o['r']}: entry {ent}, order {prev} -> {o['s']['keys']}"))
            res.append(("items_match_state", st["public_items"] == [[it[0], it[1]] for it in st["items"]]
                        or (case["maxE"] == 0 and case["maxB"] == 0), f"items() {st['public_items']} vs {st['items']}"))
            pitems = st["items"]
            if op[0] == "put" and o["ev"]:
                order = [k for k in prev if k != op[1]] + [op[1]]
                evk = [e[0] for e in o["ev"]]
                ok = order[: len(evk)] == evk and op[1] not in evk
                res.append(("evict_lru_prefix", ok, f"recency {order}, evicted {evk}"))
                ok2 = o["r"] == [len(o["ev"]), sum(e[2] for e in o["ev"])]
                res.append(("evict_report_totals", ok2, f"returned {o['r']} for {o['ev']}"))
            if case["maxE"] == 0 and case["maxB"] == 0:
                res.append(("disabled_inert", o["s"]["n"] == 0 and (op[0] != "get" or o["r"] is None),
                            f"disabled cache state {o['s']} result {o['r']}"))
            prev = o["s"]["keys"]
        return res

    def tags(self, case, impl_out):
        t = set()
        for op, o in zip(case["ops"], impl_out["out"]):
            if op[0] == "put":
                if o.get("ev"):
                    t.add("evict")
                if len(o.get("ev", [])) > 1:
                    t.add("evict_many")
            if op[0] == "get" and o["r"] is not None:
                t.add("hit")
            if op[0] == "put" and o["s"]["keys"] and o["s"]["keys"][-1] == op[1] and 0 <= op[2] < 6:
                t.add("falsy_value_stored")
        if case["maxE"] == 0 and case["maxB"] == 0:
            t.add("disabled")
        return sorted(t) or ["default"]

    def shrink(self, case):
        ops = case["ops"]
        for i in range(len(ops)):
            yield dict(case, ops=ops[:i] + ops[i + 1:])



COMPONENTS = [LruBytesComp(), TtlLruComp(), TtlMgrComp(), LSetComp(), LMapComp(), RingComp(), MergeComp(), WrapSchedComp(),
              TtlLruExhaustive(), LMapExhaustive(), RingExhaustive()]


def run(ctx: Ctx) -> None:
    for comp in COMPONENTS:
        run_component(ctx, comp)
    rounds = {"quick": 4, "thorough": 40}.get(ctx.tier, 40)
    if "thread_stress" not in ctx.extra or ctx.tier == "search":
        ctx.extra["thread_stress"] = thread_stress(ctx, rounds)


def replay(ctx: Ctx, rec: dict) -> int:
    from harness.core import generic_replay
    if rec.get("component") == "wrapstress":
        st = thread_stress(ctx, 40)
        print(f"REPLAY wrapstress {st}")
        return 1 if st["failures"] else 0
    return generic_replay(ctx, rec, {c.name: c for c in COMPONENTS})
