"""C03 — the T4 meta-filter stays inside the safety envelope: correspondence + monitors.

The real `t4_filter` is driven in-process on generated plans (dataclass / dict / None forms, ops in
attribute / dict forms, cooldown state on attribute- or dict-shaped `state.meta`, the turn number
under its three names, caps from validated configs, raw dicts, partial dicts and defaults).  The
Lean model (`Clem/Model/T4.lean`, instantiated at Float in `Driver/HT4.lean`) gets the same input and
must return the same `T4Result` bit for bit; the envelope predicates proved in `Clem/Props/C03*.lean`
are evaluated BY LEAN on the implementation's output (`t4.monall`).  Python-side monitors: purity
(deep-copy comparison of the arguments), independence from the listing order (re-running the real
code on permutations), exact-rational L2 bound, reported caps.
"""
from __future__ import annotations

import copy
import math
import random
from fractions import Fraction
from types import SimpleNamespace
from typing import Any, Dict, List, Optional, Tuple

from harness.core import Component, Ctx, Infra, b2f, f2b, run_driver, shrink_case

RULE = ("plans over a small alphabet of targets (duplicates, ids ordered around ':', rare ckey collisions), magnitudes biased to "
        "{cap-ulp, cap, cap+ulp, 0, -0, denormal, 1e16, 1e308, equal magnitudes}, L2 cap biased to the plan's own norm +-ulp, churn cap in "
        "{0,1,n-1,n,n+1}, ops with cooldown histories at turn-last in {cd-1, cd, cd+1}; every input shape t4_filter accepts; a case is "
        "non-trivial when it merges duplicates, blocks an op, clamps, scales, drops a tail or uses a non-default input shape; distinct by canonical JSON. "
        "HISTORY stream: 2-4 real t4_filter calls in one process on the SAME ctx/config/state/plan objects, edited in place between calls (caps, "
        "cooldown map, last-use turns, turn id, deltas); each call checked against the model and all monitors on its current argument values and "
        "against the same call on freshly built objects. Input shapes are enumerated from the accessor functions' own branches "
        "(_get_cfg holders, _get_plan_ops/_get_plan_deltas, _get_last_turn_map: holder x meta x cooldowns present/None/missing/non-dict, _get_turn, "
        "_get_op_kind); purity = deep snapshot (types, container identities, key sets and key order) of EVERY argument before vs after every call")
ASSUMPTIONS = [
    "delta values are finite floats/ints (NaN/inf deltas are outside 'magnitudes'; finite inputs never produce NaN inside the pipeline)",
    "target kind/id/attr and op kinds are str; `str()` of exotic kind objects is not modelled",
    "caps in the validator's ranges for the envelope monitors (0 < delta_norm_cap_l2 not NaN, churn_cap_edges >= 0); the exact "
    "correspondence also covers raw/negative settings",
    "the L2 bound is a statement about reals: at Float it is monitored with relative slack 1e-9 (+ n denormal ulps); the exact-at-Float gap is probed and reported",
]
CLAIM = {
    "text": ("Unbounded Lean theorems about one executable model of the whole of stages/t4.py, generic in the number carrier: for every plan, "
             "op list, cooldown history, turn and caps (0 < cap_l2, 0 <= k) the approved list has unique targets, |delta| <= novelty cap, "
             "sum of squares <= cap_l2^2, length <= k with top-K dominance under (-|delta|, ckey), no recorded provenance in cooldown, only "
             "proposed targets, strict canonical order; blocked ops reported ascending; merge = per-key sum in canonical order (pipeline spec); "
             "permutation invariance of the whole result for EVERY input and EVERY totally ordered carrier (no associativity, no hypothesis on "
             "target names: the canonical key is proved injective; covers Float without NaN). "
             "The same definitions run at Float in the driver and agree bit-for-bit with the real t4_filter; the Bool predicates the theorems "
             "are about are evaluated by Lean on the real T4Result."),
    "note": ("Proved at ordered fields with sqrt as a parameter (laws as hypotheses); IEEE rounding is not a field: novelty/churn/cooldown/"
             "subset/sorted/unique are monitored exactly at Float, the L2 cap with slack 1e-9 (float-gap probe reports how often the exact "
             "predicate is off by rounding). Order-independence under float addition was false of the original code ([1e16,1,-1e16]); repaired by "
             "proposed_fixes/C03_combine_sum_canonical_order.diff (regression case in corpus, monitor key order.float-sum); colliding display strings "
             "(ids/attrs containing ':') merged distinct targets: repaired by proposed_fixes/C03_t4_order_ckey-collision.diff (key = tuple, string "
             "order kept; regression case in corpus, monitor key order.ckey-collision, Lean witness C03_collision_targets_kept_apart). 'Depends on nothing but its arguments' "
             "is a theorem of the model (a function) and is tied to the code by the HISTORY stream (call sequences on reused, in-place edited objects "
             "vs fresh objects; module-level memo/stale-state bugs show as history_dependence). Purity, argument shapes "
             "(_get_cfg, _get_plan_*, _get_last_turn_map, _get_turn, _get_op_kind) and metrics.caps are covered by correspondence only. "
             "`delta_norm_cap_l2 = NaN` was accepted by the validator (fixed 0c7ad1a). `delta_norm_cap_l2 < 1e-150` let the squares underflow so "
             "the L2 cap was not enforced: repaired by proposed_fixes/C03_t4_l2_tiny-cap.diff (_l2_norm factors out the largest magnitude when "
             "the sum of squares is below 2^-512; bit-identical above; regression case in corpus, monitor key l2.tiny-cap, theorem C03_l2_norm_exact)."),
    "technique": "Lean 4 theorems over a generic ordered field about the executable pipeline model + bit-exact differential execution at Float + Lean-evaluated monitors on the real T4Result",
    "design_ref": "DESIGN.md §4 C03, §2.3, §5 row 13",
}
MODELLED = {
    "clematis/engine/stages/t4.py": [
        "t4_filter", "_get_cfg", "_get_plan_ops", "_get_plan_deltas", "_canonical_key", "_combine_by_ckey",
        "_sum_canonical", "_min_optional_int", "_collect_blocked_ops", "_get_turn", "_get_last_turn_map", "_map_get", "_get_op_kind",
        "_novelty_clamp", "_l2_scale", "_l2_norm", "_churn_cap"],
}
TRUSTED = ["modelled, not verified: IEEE-754 rounding of + * / sqrt (Lean Float = CPython float on this image, probed by the exact correspondence); "
           "CPython str comparison = code-point lexicographic; dict insertion order; sorted() stability"]

DEF_L2, DEF_NOV, DEF_K = 1.5, 0.3, 64
TINY_CAP = 1e-150
MON_NAMES = ["unique", "sorted", "novelty", "l2", "churn", "cooldown", "subset", "rejected", "topk"]


def _ff(q) -> str:
    try:
        return repr(float(q))
    except OverflowError:
        return "overflow"


def cps(s: str) -> List[int]:
    return [ord(c) for c in s]


def nxt(x: float, up: bool) -> float:
    return math.nextafter(x, math.inf if up else -math.inf)


# ---------------------------------------------------------------------------------------------
# value specs (JSON-safe: floats only as bit strings so that replays are exact)
# ---------------------------------------------------------------------------------------------

def vs_float(x: float) -> dict:
    return {"f": f2b(x)}


def vs_decode(v: Any) -> Any:
    if isinstance(v, dict):
        if "f" in v:
            return b2f(v["f"])
        if "int" in v:
            return int(v["int"])
        if "bool" in v:
            return bool(v["bool"])
        if "str" in v:
            return str(v["str"])
    return None


# ---------------------------------------------------------------------------------------------
# resolution of the input shapes (what the model is told)
# ---------------------------------------------------------------------------------------------

def op_kind(op: dict) -> str:
    f = op["form"]
    if f in ("dict", "obj"):
        return op["kind"]
    if f == "dictnone":
        return "None"  # str(op.get("kind", "")) of an explicit None
    return ""  # objnone (kind=None), dictnokind, other (an int)


# State shapes, one per branch of `_get_last_turn_map`: "<holder>/<meta>/<cooldowns>" with
#   holder    attr (getattr(state, "meta")) | dict (state.get("meta")) | none | other (an int)
#   meta      obj | dict | none (present, None) | missing
#   cooldowns map | none (present, None) | missing | notdict (a list)
# Old names are kept as aliases (corpus / recorded replays).
STATE_ALIAS = {"obj_obj": "attr/obj/map", "obj_dict": "attr/dict/map", "dict_dict": "dict/dict/map", "dict_obj": "dict/obj/map",
               "nometa": "attr/missing/-", "cd_notdict": "attr/obj/notdict", "state_none": "none/-/-"}
STATE_NEW = [f"{h}/{m}/{c}" for h in ("attr", "dict") for m in ("obj", "dict") for c in ("none", "missing", "notdict")] + \
            ["attr/none/-", "dict/none/-", "dict/missing/-", "other/-/-", "attr/dict/map+", "dict/dict/missing+"]


def state_shape(sf: str) -> Tuple[str, str, str, bool]:
    sf = STATE_ALIAS.get(sf, sf)
    extra = sf.endswith("+")  # other keys around the cooldown entry (key order / key set is part of the snapshot)
    h, m, c = sf.rstrip("+").split("/")
    return h, m, c, extra or sf not in STATE_ALIAS.values()


def last_reachable(sf: str) -> bool:
    h, m, c, _ = state_shape(sf)
    return h in ("attr", "dict") and m in ("obj", "dict") and c == "map"


# Plan shapes, one per branch of `_get_plan_ops` / `_get_plan_deltas`
PLAN_NO_DELTAS = ("none", "nodeltas", "dict_nonevals", "obj_nodeltas", "other", "dict_empty")
PLAN_NO_OPS = ("none", "noops", "dict_nonevals", "dict_noops", "other", "dict_empty")


def eff_cfg(case: dict) -> Tuple[float, float, int, Dict[str, int]]:
    if case["cfg_form"] == "nondict":
        return DEF_L2, DEF_NOV, DEF_K, {}
    c = case["cfg"]
    l2 = b2f(c["delta_norm_cap_l2"]) if "delta_norm_cap_l2" in c else DEF_L2
    nov = b2f(c["novelty_cap_per_node"]) if "novelty_cap_per_node" in c else DEF_NOV
    k = int(c["churn_cap_edges"]) if "churn_cap_edges" in c else DEF_K
    cds = dict(c["cooldowns"]) if isinstance(c.get("cooldowns"), dict) else {}
    return l2, nov, k, cds


def eff_last(case: dict) -> List[list]:
    if not last_reachable(case["state_form"]):
        return []
    out = []
    for kind, v in case["last"]:
        x = vs_decode(v)
        out.append([cps(kind), int(x) if isinstance(x, int) else None])
    return out


def eff_turns(case: dict) -> List[Optional[int]]:
    out = []
    for _name, v in case["turn"]:
        x = vs_decode(v)
        try:
            out.append(int(x))
        except Exception:
            out.append(None)
    return out


def model_input(case: dict) -> dict:
    l2, nov, k, cds = eff_cfg(case)
    ds = [] if case["plan_form"] in PLAN_NO_DELTAS else case["deltas"]
    ops = [] if case["plan_form"] in PLAN_NO_OPS else case["ops"]
    return {
        "deltas": [[cps(d["kind"]), cps(d["id"]), cps(d["attr"]), f2b(float(vs_decode(d["delta"]))), d["op_idx"], d["idx"]]
                   for d in ds],
        "ops": [cps(op_kind(o)) for o in ops],
        "cooldowns": [[cps(kk), int(v)] for kk, v in cds.items()],
        "last": eff_last(case),
        "turns": eff_turns(case),
        "capL2": f2b(l2), "capNov": f2b(nov), "k": k,
    }


# ---------------------------------------------------------------------------------------------
# real objects
# ---------------------------------------------------------------------------------------------

class _Obj:
    """plain attribute bag (deep-copyable, comparable through __dict__)"""

    def __init__(self, **kw):
        self.__dict__.update(kw)


def build_args(case: dict):
    from clematis.engine.types import ProposedDelta
    deltas = [ProposedDelta(target_kind=d["kind"], target_id=d["id"], attr=d["attr"], delta=vs_decode(d["delta"]),
                            op_idx=d["op_idx"], idx=d["idx"]) for d in case["deltas"]]
    ops: List[Any] = []
    for o in case["ops"]:
        f = o["form"]
        if f == "dict":
            ops.append({"kind": o["kind"], "payload": 1})
        elif f == "obj":
            ops.append(_Obj(kind=o["kind"]))
        elif f == "objnone":
            ops.append(_Obj(kind=None))
        elif f == "dictnokind":
            ops.append({"payload": 1})
        elif f == "dictnone":
            ops.append({"kind": None})
        else:
            ops.append(7)
    pf = case["plan_form"]
    if pf == "dict":
        plan: Any = {"ops": ops, "deltas": deltas}
    elif pf == "obj":
        plan = _Obj(ops=ops, deltas=deltas)
    elif pf == "tuple":  # attribute form with a tuple of deltas (list(...) is taken)
        plan = _Obj(ops=ops, deltas=tuple(deltas))
    elif pf == "nodeltas":
        plan = {"ops": ops}
    elif pf == "noops":
        plan = _Obj(deltas=deltas, ops=None)
    elif pf == "dataclass":
        from clematis.engine.types import Plan
        plan = Plan(version="t3-plan-v1", ops=ops, deltas=deltas)
    elif pf == "dict_nonevals":
        plan = {"ops": None, "deltas": None}
    elif pf == "dict_noops":
        plan = {"deltas": deltas, "note": "x"}
    elif pf == "dict_empty":
        plan = {}
    elif pf == "obj_nodeltas":
        plan = _Obj(ops=ops)
    elif pf == "other":
        plan = 7
    else:
        plan = None
    # config
    cf = case["cfg_form"]
    if cf == "nondict":
        cv = case.get("cfg_variant", 0)
        # every holder `_get_cfg` does NOT accept falls back to the defaults: t4=None, no t4 attribute, a dict-style
        # config (getattr on a dict finds no "t4"), a non-dict t4 object, and (below) a ctx without `config`
        cfg_obj = (_Obj(t4=None) if cv == 0 else _Obj() if cv == 1 else
                   {"t4": {"novelty_cap_per_node": 0.01, "churn_cap_edges": 0}} if cv == 3 else
                   _Obj(t4=_Obj(novelty_cap_per_node=0.01, churn_cap_edges=0, cooldowns={"EditGraph": 9})) if cv == 4 else _Obj())
    else:
        t4: Dict[str, Any] = {}
        c = case["cfg"]
        for kk in ("delta_norm_cap_l2", "novelty_cap_per_node"):
            if kk in c:
                t4[kk] = b2f(c[kk])
        if "churn_cap_edges" in c:
            t4["churn_cap_edges"] = c["churn_cap_edges"]
        if "cooldowns" in c:
            t4["cooldowns"] = dict(c["cooldowns"]) if isinstance(c["cooldowns"], dict) else c["cooldowns"]
        t4.update(case.get("cfg_extra", {}))
        cfg_obj = _Obj(t4=t4)
    ctx = _Obj(config=cfg_obj)
    if cf == "nondict" and case.get("cfg_variant", 0) == 2:
        ctx = _Obj(other="x")  # no `config` attribute at all
    for name, v in case["turn"]:
        setattr(ctx, name, vs_decode(v))
    # state
    last = {kind: vs_decode(v) for kind, v in case["last"]}
    state = build_state(case["state_form"], last)
    return ctx, state, plan


def build_state(sf: str, last: Dict[str, Any]) -> Any:
    h, m, c, extra = state_shape(sf)
    if h == "none":
        return None
    if h == "other":
        return 7
    meta: Any = None
    if m in ("obj", "dict"):
        fields: Dict[str, Any] = {"agent": "A"} if extra else {}
        if c == "map":
            fields["cooldowns"] = last
        elif c == "none":
            fields["cooldowns"] = None
        elif c == "notdict":
            fields["cooldowns"] = [1, 2]
        if extra:
            fields["seen"] = [1]
        meta = _Obj(**fields) if m == "obj" else fields
    top: Dict[str, Any] = {"name": "s"} if extra else {}
    if m != "missing":
        top["meta"] = meta
    if extra:
        top["version"] = 3
    return _Obj(**top) if h == "attr" else top


def snap(x: Any) -> Any:
    """structural snapshot for the purity comparison (floats by bits, objects by __dict__)"""
    if isinstance(x, float):
        return ("f", f2b(x))
    if isinstance(x, (bool, int, str)) or x is None:
        return (type(x).__name__, x)
    # containers: type, identity (an equal copy put in place of the caller's container is a mutation too),
    # and the contents in order (key sets and key order of dicts / attribute dicts included)
    if isinstance(x, (list, tuple)):
        return (type(x).__name__, id(x), [snap(v) for v in x])
    if isinstance(x, dict):
        return ("dict", id(x), [(snap(k), snap(v)) for k, v in x.items()])
    if hasattr(x, "__dict__"):
        return (type(x).__name__, id(x), [(k, snap(v)) for k, v in x.__dict__.items()])
    return ("repr", repr(x))


def snap_diff(before: Any, after: Any) -> Optional[str]:
    if before == after:
        return None
    from harness.core import _canon, first_diff
    return first_diff(_canon(before), _canon(after)).replace("impl=", "before=").replace("model=", "after=")[:400]


def canon_result(res: Any) -> dict:
    ap = []
    for d in res.approved_deltas:
        dv = d.delta
        ap.append([cps(d.target_kind), cps(d.target_id), cps(d.attr),
                   f2b(dv) if isinstance(dv, float) else {"nonfloat": repr(dv)}, d.op_idx, d.idx])
    m = res.metrics
    return {
        "approved": ap,
        "rejected": [[cps(r.kind), r.idx] for r in res.rejected_ops],
        "reasons": list(res.reasons),
        "counts": dict(m["counts"]),
        "novelty_clamped": m["clamps"]["novelty_clamped"],
        "l2_scale": f2b(m["clamps"]["l2_scale"]),
        "blocked_ops": m["cooldowns"]["blocked_ops"],
    }


def perms_of(n: int) -> List[List[int]]:
    if n < 2:
        return []
    base = list(range(n))
    out = [base[::-1], base[1:] + base[:1]]
    r = random.Random(1000 + n)
    p = base[:]
    r.shuffle(p)
    out.append(p)
    return [p for p in out if p != base]


def ckey_s(d: dict) -> str:
    return f"{d['kind']}:{d['id']}:{d['attr']}"


def classify_order(case: dict, perm: List[int]) -> str:
    ds = case["deltas"]
    trip: Dict[str, set] = {}
    for d in ds:
        trip.setdefault(ckey_s(d), set()).add((d["kind"], d["id"], d["attr"]))
    if any(len(v) > 1 for v in trip.values()):
        return "order.ckey-collision"

    def sums(order):
        acc: Dict[str, float] = {}
        for i in order:
            d = ds[i]
            kk = ckey_s(d)
            v = float(vs_decode(d["delta"]))
            acc[kk] = acc[kk] + v if kk in acc else v
        return {kk: f2b(v) for kk, v in acc.items()}
    if sums(range(len(ds))) != sums(perm):
        return "order.float-sum"
    return "order.other"


# ---------------------------------------------------------------------------------------------
# the component
# ---------------------------------------------------------------------------------------------

IDS = ["n:a", "n:b", "n:c", "n:a-b", "n:a;b", "n:A", "e:a|r|b", "n:\u00e9", "n:a:b", ""]
ATTRS = ["weight", "weight", "weight", "w", "b:w", ""]
KINDS = ["EditGraph", "CreateGraph", "Speak", "SetMetaFilter", "RequestRetrieve"]


class T4Comp(Component):
    name = "t4"
    budget = {"quick": 2500, "thorough": 60000, "search": 60000}

    def corpus(self, ctx: "Ctx") -> List[dict]:
        out = []
        for c in ctx.load_corpus(self.name):
            # a NaN cap is only in the property's scope while the REAL validator accepts it
            if c.get("stream") == "nancap" and c.get("cfg_form") != "nondict" and self.validate(c["cfg"]) is None:
                continue
            out.append(c)
        return out

    # -- generation ----------------------------------------------------------
    def gen(self, rng: random.Random, i: int) -> dict:
        r = rng.random()
        stream = ("valid" if r < 0.62 else "boundary" if r < 0.80 else "floatsum" if r < 0.84 else
                  "collision" if r < 0.86 else "nancap" if r < 0.875 else "malformed")
        return self.gen_stream(rng, stream)

    def gen_stream(self, rng: random.Random, stream: str) -> dict:
        validated = stream in ("valid", "boundary", "floatsum", "collision", "nancap") and rng.random() < 0.7
        if stream == "nancap":
            validated = True  # the point of this stream: NaN only if the REAL validator lets it through
        nov = rng.choice([0.3, 0.3, 1.0, 0.5, 0.25, 1e-3, nxt(0.3, True), 5e-324, 1e-310])
        if stream == "malformed" and rng.random() < 0.3:
            nov = rng.choice([-0.3, 0.0, 2.5, 1e200])
        # targets
        nt = rng.choice([1, 2, 3, 4, 6, 9])
        pool = []
        for _ in range(nt):
            pool.append((rng.choice(["node", "node", "edge"]), rng.choice(IDS[:7] if stream != "malformed" else IDS),
                         rng.choice(ATTRS[:4] if stream != "malformed" else ATTRS)))
        if stream == "collision":
            pool += [("node", "n:a", "b:w"), ("node", "n:a:b", "w")]
        # ops
        nops = rng.choice([0, 1, 2, 3, 5])
        ops = []
        for _ in range(nops):
            f = rng.choices(["dict", "obj", "objnone", "dictnokind", "other", "dictnone"], [45, 38, 5, 5, 4, 3])[0]
            kind = rng.choice(KINDS[:3] + KINDS) if rng.random() < 0.95 else ""
            ops.append({"form": f, "kind": kind})
        # magnitudes
        mags = [nov, nxt(nov, True), nxt(nov, False), nov / 2, 2 * nov, 0.1, 0.2, 0.05, 0.0, -0.0, 1e-320, 5e-324, 1.0]
        if stream in ("boundary", "floatsum", "malformed"):
            mags += [1e16, 1e308, 1e-160, 3e-162, 0.30000000000000004, 1e-17]
        if stream == "boundary" and rng.random() < 0.35:
            # around the switch of _l2_norm (sum of squares 2^-512, i.e. magnitudes ~2^-256) and below
            b = 2.0 ** -256
            mags = [b, nxt(b, True), nxt(b, False), b / 2, b * 0.75, b * 1.5, b / 1.4142135623730951, 1e-160, 1e-200, 1e-310, 5e-324, 0.0]
        nd = rng.choice([0, 1, 2, 3, 5, 8, 13, 20])
        deltas = []
        shared = rng.choice(mags)
        for j in range(nd):
            kind, tid, attr = rng.choice(pool)
            rr = rng.random()
            if rr < 0.30:
                v: Any = vs_float(rng.uniform(-1, 1) * rng.choice([1.0, 1.0, nov, 1e-3]))
            elif rr < 0.45:
                v = vs_float(shared * rng.choice([1, -1]))
            elif rr < 0.50:
                v = {"int": rng.choice([0, 1, -1, 2, -3])}
            elif rr < 0.52:
                v = {"bool": rng.random() < 0.5}
            else:
                v = vs_float(rng.choice(mags) * rng.choice([1, -1]))
            oi = None if (not nops or rng.random() < 0.15) else rng.randrange(nops)
            if rng.random() < 0.03:
                oi = rng.choice([-1, nops, nops + 3])
            deltas.append({"kind": kind, "id": tid, "attr": attr, "delta": v, "op_idx": oi,
                           "idx": rng.choice([j, j, None, rng.randrange(0, 30)])})
        if stream == "floatsum" and pool:
            kind, tid, attr = pool[0]
            trio = rng.choice([[1e16, 1.0, -1e16], [1e308, 1e308, -1e308], [0.1, 0.2, -0.30000000000000004], [1.0, 1e-17, 1e-17]])
            trio = trio[:]
            rng.shuffle(trio)
            for v in trio:
                deltas.insert(rng.randrange(len(deltas) + 1),
                              {"kind": kind, "id": tid, "attr": attr, "delta": vs_float(v), "op_idx": None, "idx": None})
        # cooldown config + history
        turn = rng.choice([0, 1, 2, 3, 5, 8, 12])
        cds: Dict[str, int] = {}
        for kk in KINDS:
            if rng.random() < 0.45:
                cds[kk] = rng.choice([0, 1, 2, 2, 3, 10])
        if stream == "malformed" and rng.random() < 0.3:
            cds[rng.choice(KINDS)] = rng.choice([-1, -5])
        last = []
        for kk in KINDS:
            if rng.random() < 0.6:
                cd = cds.get(kk, 2)
                base = turn - rng.choice([cd - 1, cd, cd + 1, 0, 1, -1, -3])
                rr = rng.random()
                if rr < 0.85:
                    v = {"int": base}
                elif rr < 0.90:
                    v = {"bool": rng.random() < 0.5}
                elif rr < 0.94:
                    v = vs_float(float(base))
                elif rr < 0.97:
                    v = {"str": str(base)}
                else:
                    v = None
                last.append([kk, v])
        # churn cap
        ndist = len({(d["kind"], d["id"], d["attr"]) for d in deltas})
        k = rng.choice([0, 1, ndist - 1, ndist, ndist + 1, 2, 3, 64])
        if k < 0 and stream != "malformed":
            k = 0
        if stream == "malformed" and rng.random() < 0.25:
            k = rng.choice([-1, -2, -ndist - 1])
        # L2 cap around the plan's own (unblocked) norm
        grp: Dict[Any, List[float]] = {}
        for d in deltas:
            grp.setdefault((d["kind"], d["id"], d["attr"]), []).append(float(vs_decode(d["delta"])))
        acc: Dict[Any, float] = {}
        for kk, vals in grp.items():
            vals = sorted(vals)
            tot = vals[0]
            for v in vals[1:]:
                tot += v
            acc[kk] = tot
        s = 0.0
        cl = []
        for v in acc.values():
            c = abs(nov)
            v = (c if v > 0 else -c) if abs(v) > c else v
            cl.append(v)
            s += v * v
        norm = math.sqrt(s)
        mx = max([abs(v) for v in cl], default=0.0)
        if s < 2.0 ** -512 and 0 < mx < math.inf:  # the repaired _l2_norm's small-magnitude path
            t = 0.0
            for v in cl:
                t += (v / mx) * (v / mx)
            norm = mx * math.sqrt(t)
        tiny_vals = any(0 < abs(v) < 1e-140 for v in cl)
        l2s = [1.5, 1.5, 0.3, 1.0, 0.1]
        if norm > 0 and math.isfinite(norm):
            l2s += [norm, nxt(norm, True), nxt(norm, False), norm / 2, norm * 2, norm / 3, norm * 0.999999, norm * 0.9999995]
        if stream in ("boundary", "malformed"):
            l2s += [math.inf, 5e-324, 1e-310, 1e308, 1e-9]
        l2 = rng.choice(l2s)
        if stream == "nancap":
            l2 = math.nan
        if stream == "malformed" and rng.random() < 0.2 and not tiny_vals:
            # (a non-positive cap over denormal magnitudes overflows cap/norm to -inf and 0*inf = NaN: NaN is out of scope)
            l2 = rng.choice([0.0, -1.0, -0.1])
        cfg: Dict[str, Any] = {"delta_norm_cap_l2": f2b(l2), "novelty_cap_per_node": f2b(nov), "churn_cap_edges": k,
                               "cooldowns": cds}
        case: Dict[str, Any] = {"stream": stream, "deltas": deltas, "ops": ops, "last": last}
        cfg_form = "raw"
        if validated:
            ok = self.validate(cfg)
            if ok is not None:
                cfg, cfg_form = ok, "validated"
                case["cfg_extra"] = {"enabled": True, "weight_min": -1.0, "weight_max": 1.0}
            elif stream == "nancap":
                # the validator of this tree rejects NaN: nothing to test in this stream
                cfg["delta_norm_cap_l2"] = f2b(DEF_L2)
                case["stream"] = "valid"
        elif stream != "nancap":
            rr = rng.random()
            if rr < 0.15:
                cfg_form = "partial"
                for kk in list(cfg):
                    if rng.random() < 0.5:
                        del cfg[kk]
            elif rr < 0.22:
                cfg_form = "nondict"
                case["cfg_variant"] = rng.choice([0, 1, 2, 3, 4])
            elif rr < 0.26:
                cfg_form = "partial"
                cfg["cooldowns"] = [1]
        case["cfg_form"] = cfg_form
        case["cfg"] = cfg
        case["plan_form"] = rng.choices(["dict", "obj", "dataclass", "tuple", "none", "nodeltas", "noops", "dict_nonevals", "dict_noops",
                                         "dict_empty", "obj_nodeltas", "other"], [36, 30, 12, 5, 2, 3, 3, 2, 2, 1, 2, 2])[0]
        if rng.random() < 0.7:
            case["state_form"] = rng.choices(["obj_obj", "obj_dict", "dict_dict", "dict_obj", "nometa", "cd_notdict", "state_none"],
                                             [40, 15, 15, 10, 7, 6, 7])[0]
        else:
            case["state_form"] = rng.choice(STATE_NEW)
        names = ["turn_id", "turn", "current_turn"]
        rr = rng.random()
        if rr < 0.6:
            tl = [["turn_id", {"int": turn}]]
        elif rr < 0.7:
            tl = [["turn", {"int": turn}]]
        elif rr < 0.78:
            tl = [["current_turn", {"str": str(turn)}]]
        elif rr < 0.86:
            tl = [["turn_id", {"str": "abc"}], ["current_turn", {"int": turn}]]
        elif rr < 0.92:
            tl = [["turn_id", None], ["turn", vs_float(turn + 0.75)]]
        elif rr < 0.96:
            tl = [[n, {"int": turn + j}] for j, n in enumerate(names)]
        else:
            tl = []
        case["turn"] = tl
        return case

    _vcache: Dict[str, Any] = {}

    def validate(self, cfg: dict) -> Optional[dict]:
        """Run the caps through the REAL validator; None when it rejects them."""
        try:
            from configs.validate import validate_config
            out = validate_config({"t4": {"delta_norm_cap_l2": b2f(cfg["delta_norm_cap_l2"]),
                                          "novelty_cap_per_node": b2f(cfg["novelty_cap_per_node"]),
                                          "churn_cap_edges": cfg["churn_cap_edges"], "cooldowns": dict(cfg["cooldowns"])}})
            t4 = out["t4"]
            return {"delta_norm_cap_l2": f2b(float(t4["delta_norm_cap_l2"])),
                    "novelty_cap_per_node": f2b(float(t4["novelty_cap_per_node"])),
                    "churn_cap_edges": int(t4["churn_cap_edges"]), "cooldowns": {str(a): int(b) for a, b in t4["cooldowns"].items()}}
        except Exception:
            return None

    # -- implementation --------------------------------------------------------
    def impl(self, case: dict) -> Any:
        from clematis.engine.stages.t4 import t4_filter
        ctx, state, plan = build_args(case)
        t1_arg, t2_arg, utter_arg = ["T1"], {"t2": [1]}, "utter"
        args = [ctx, state, t1_arg, t2_arg, plan, utter_arg]  # EVERY argument is snapshotted (one holder: ids are compared)
        before = snap(args)
        res = t4_filter(ctx, state, t1_arg, t2_arg, plan, utter_arg)
        after = snap(args)
        out = canon_result(res)
        caps = res.metrics.get("caps", {})
        io: Dict[str, Any] = {"out": out, "pure": before == after, "pure_diff": snap_diff(before, after),
                              "caps": [f2b(float(caps.get("delta_norm_cap_l2"))), f2b(float(caps.get("novelty_cap_per_node"))),
                                       int(caps.get("churn_cap_edges"))]}
        # determinism + independence from the listing order, on the real code
        res2 = t4_filter(*build_args(case)[:2], None, None, build_args(case)[2], None)
        io["repeat_same"] = canon_result(res2) == out
        io["perm_diff"] = None
        if case["plan_form"] in ("dict", "obj", "tuple", "dataclass"):
            for p in perms_of(len(case["deltas"])):
                c2 = dict(case, deltas=[case["deltas"][j] for j in p])
                c_ctx, c_state, c_plan = build_args(c2)
                o2 = canon_result(t4_filter(c_ctx, c_state, None, None, c_plan, None))
                if o2 != out:
                    io["perm_diff"] = {"perm": p, "class": classify_order(case, p)}
                    break
        return io

    def request(self, case: dict) -> dict:
        r = {"c": "t4"}
        r.update(model_input(case))
        return r

    def compare(self, case, impl_out, model_out):
        if isinstance(impl_out, dict) and "out" in impl_out:
            impl_out = impl_out["out"]
        return super().compare(case, impl_out, model_out)

    # -- monitors ------------------------------------------------------------------
    @staticmethod
    def gates(case: dict) -> Tuple[bool, bool]:
        l2, nov, k, _ = eff_cfg(case)
        return (l2 > 0 and not math.isnan(l2) and not math.isnan(nov)), k >= 0

    def mon_request(self, case: dict, impl_out: dict) -> dict:
        caps_ok, k_ok = self.gates(case)
        r = {"c": "t4.monall", "capsOk": caps_ok, "kOk": k_ok,
             "out": {"approved": impl_out["out"]["approved"], "rejected": impl_out["out"]["rejected"]}}
        r.update(model_input(case))
        return r

    def lean_ok(self, impl_out: dict) -> bool:
        """can the implementation output be shipped to the Lean monitors at all?"""
        return all(isinstance(a[3], str) and (a[4] is None or isinstance(a[4], int)) and (a[5] is None or isinstance(a[5], int))
                   for a in impl_out["out"]["approved"])

    def monitors(self, case, impl_out):
        res = []
        l2, nov, k, _ = eff_cfg(case)
        out = impl_out["out"]
        res.append(("pure", bool(impl_out["pure"]), "t4_filter mutated one of its arguments: " + str(impl_out.get("pure_diff"))))
        res.append(("deterministic", bool(impl_out["repeat_same"]), "same arguments (other t1/t2/utter) gave a different result"))
        pd = impl_out["perm_diff"]
        if pd is not None:
            res.append((pd["class"], False, f"listing the same deltas in order {pd['perm']} changes the result"))
        res.append(("caps_reported", impl_out["caps"] == [f2b(l2), f2b(nov), k], f"metrics.caps {impl_out['caps']}"))
        if not self.lean_ok(impl_out):
            res.append(("types", False, "approved delta carries a non-float delta or non-int provenance"))
            return res
        caps_ok, _ = self.gates(case)
        if caps_ok and math.isfinite(l2):
            ds = [Fraction(b2f(a[3])) if math.isfinite(b2f(a[3])) else None for a in out["approved"]]
            if any(d is None for d in ds):
                res.append(("l2.exact", False, "non-finite approved delta"))
            else:
                bound = Fraction(l2) * (1 + Fraction(1, 10 ** 9)) + len(ds) * Fraction(1, 2 ** 1074)
                tot = sum(d * d for d in ds)
                res.append(("l2.exact", tot <= bound * bound, f"sum of squares {_ff(tot)} vs cap {l2!r}"))
        return res

    # -- evidence tags ---------------------------------------------------------------
    def tags(self, case, impl_out):
        t = set()
        o = impl_out["out"]
        c = o["counts"]
        if c["input"] > len({ckey_s(d) for d in case["deltas"]}) and c["input"]:
            t.add("dup")
        if o["blocked_ops"]:
            t.add("blocked")
        if c["after_cooldown"] < len({ckey_s(d) for d in case["deltas"]}) and c["input"]:
            t.add("delta_blocked")
        if o["novelty_clamped"]:
            t.add("clamped")
        if "DELTA_NORM_HIGH" in o["reasons"]:
            t.add("scaled")
        elif b2f(o["l2_scale"]) != 1.0:
            t.add("scaled_no_reason")
        if c["dropped_tail"]:
            t.add("churn")
            mags = sorted((abs(b2f(a[3])) for a in o["approved"]))
            if mags and len([m for m in mags if m == mags[0]]) > 0:
                t.add("churn_tie_possible")
        if case["stream"] != "valid":
            t.add("stream:" + case["stream"])
        for f in ("cfg_form", "plan_form", "state_form"):
            if case[f] not in ("raw", "dict", "obj_obj"):
                t.add(f"{f}:{case[f]}")
        if impl_out.get("perm_diff"):
            t.add("order_dependent")
        return sorted(t) or ["default"]

    def shrink(self, case):
        ds = case["deltas"]
        for i in range(len(ds)):
            yield dict(case, deltas=ds[:i] + ds[i + 1:])
        if case["ops"]:
            n = len(case["ops"]) - 1
            if all(d["op_idx"] is None or d["op_idx"] < n for d in ds):
                yield dict(case, ops=case["ops"][:-1])
        if case["last"]:
            yield dict(case, last=case["last"][:-1])
        for f, v in (("plan_form", "dict"), ("state_form", "obj_obj")):
            if case[f] != v and case[f] in ("obj", "tuple", "obj_dict", "dict_dict", "dict_obj"):
                yield dict(case, **{f: v})
        for i, d in enumerate(ds):
            if d["idx"] is not None:
                yield dict(case, deltas=ds[:i] + [dict(d, idx=None)] + ds[i + 1:])


COMP = T4Comp()
COMPONENTS = [COMP]


# ---------------------------------------------------------------------------------------------
# runner (chunked; one Lean request for the model, one for all monitors)
# ---------------------------------------------------------------------------------------------

def run_impl(case: dict) -> Any:
    try:
        return COMP.impl(case)
    except Exception as e:
        return {"__raised__": type(e).__name__, "msg": str(e)[:200]}


def evaluate(case: dict, io: Any, model_resp: dict, mon_resp: Optional[dict]) -> Tuple[Optional[str], Any, List[Tuple[str, str]]]:
    """→ (correspondence diff or None, model output, [(failed monitor, detail)])"""
    mo = model_resp["ok"] if "ok" in model_resp else {"__model_err__": model_resp.get("err")}
    if isinstance(io, dict) and "__raised__" in io:
        return f"implementation raised {io['__raised__']}: {io.get('msg')}", mo, [("no_raise", f"t4_filter raised {io}")]
    diff = COMP.compare(case, io, mo)
    fails: List[Tuple[str, str]] = []
    if mon_resp is not None:
        if "ok" not in mon_resp:
            raise Infra(f"monitor route failed: {mon_resp}")
        for name in mon_resp["ok"]:
            fails.append((name, f"Lean predicate T4.mon{name} is false on the implementation's T4Result"))
    for name, ok, detail in COMP.monitors(case, io):
        if not ok:
            fails.append((name, detail))
    # what the result REPORTS (reasons in pipeline order, stage counts) must be what the pipeline did
    if isinstance(mo, dict) and "reasons" in mo:
        rep_i = [io["out"]["reasons"], io["out"]["counts"], io["out"]["novelty_clamped"], io["out"]["blocked_ops"]]
        rep_m = [mo["reasons"], mo["counts"], mo["novelty_clamped"], mo["blocked_ops"]]
        if rep_i != rep_m:
            fails.append(("reasons", f"reported {rep_i} but the pipeline did {rep_m}"))
    l2cap = eff_cfg(case)[0]
    if 0 < l2cap < TINY_CAP:
        # squares of magnitudes below ~1e-162 underflow to 0.0, `norm == 0.0` then skips the scaling
        fails = [("l2.tiny-cap" if n in ("l2", "l2.exact") else n, d) for n, d in fails]
        fails = [f for i, f in enumerate(fails) if f not in fails[:i]]
    if case.get("stream") == "nancap" and fails:
        # one deterministic class for everything that goes wrong under a NaN cap
        fails = [("nan-cap_l2", "delta_norm_cap_l2 = NaN (accepted by the validator): " + "; ".join(n for n, _ in fails))]
    return diff, mo, fails


def check_cases(ctx: Ctx, cases: List[dict], comp_name: str = "t4", record: bool = True) -> None:
    CH = 4000
    for off in range(0, len(cases), CH):
        chunk = cases[off:off + CH]
        ios = [run_impl(c) for c in chunk]
        resps = run_driver([COMP.request(c) for c in chunk])
        midx = [j for j, io in enumerate(ios) if not (isinstance(io, dict) and "__raised__" in io) and COMP.lean_ok(io)]
        mres = run_driver([COMP.mon_request(chunk[j], ios[j]) for j in midx])
        mon = dict(zip(midx, mres))
        for j, (c, io, rs) in enumerate(zip(chunk, ios, resps)):
            raised = isinstance(io, dict) and "__raised__" in io
            diff, mo, fails = evaluate(c, io, rs, mon.get(j))
            if record:
                ctx.record_case(comp_name, c, ["raised:" + io["__raised__"]] if raised else COMP.tags(c, io))
            for name, detail in fails:
                ctx.monitor_fail(comp_name, name, c, detail, io)
            if diff is not None and not (c.get("stream") == "nancap"):
                ctx.mismatch(comp_name, c, diff, io if raised else io["out"], mo, deciding=True)


def minimise_failures(ctx: Ctx) -> None:
    """shrink the first failing input of every class (re-checked against the real code + Lean monitors)"""
    seen = set()
    for f in ctx.failures:
        if f["key"] in seen or f["component"] != "t4":
            continue
        seen.add(f["key"])
        name = f["monitor"]

        def still(c: dict) -> bool:
            io = run_impl(c)
            if isinstance(io, dict) and "__raised__" in io:
                return name == "no_raise"
            rs = run_driver([COMP.request(c)])[0]
            mr = run_driver([COMP.mon_request(c, io)])[0] if COMP.lean_ok(io) else None
            return any(n == name for n, _ in evaluate(c, io, rs, mr)[2])
        try:
            small = shrink_case(COMP, f["case"], still, limit=150)
            f["case"] = small
            io = run_impl(small)
            f["impl"] = io
        except Exception:
            pass


def float_gap_probe(ctx: Ctx, n: int) -> None:
    """DESIGN §2.3: adversarial inputs for the statements that are about reals (the L2 cap); counts how often
    the EXACT predicate (slack 0) is false at Float on the real output, and the largest relative overshoot
    computed in exact rationals.  Only an overshoot beyond the monitor's slack is a violation (reported by
    the ordinary monitors, which run on these cases too)."""
    rng = ctx.rng_for("t4.gap")
    cases = []
    for i in range(n):
        nov = rng.choice([0.3, 1.0, 0.1, nxt(0.3, True), 1e-3])
        nt = rng.choice([2, 3, 5, 8, 16, 40])
        deltas = []
        for j in range(nt):
            m = rng.choice([nov, nov, nxt(nov, False), nov / 3, rng.uniform(0, nov), 1e-160, 1e-17 * nov, 2 * nov])
            deltas.append({"kind": "node", "id": f"n:{j}", "attr": "weight", "delta": vs_float(m * rng.choice([1, -1])),
                           "op_idx": None, "idx": j})
        s = 0.0
        for d in deltas:
            v = vs_decode(d["delta"])
            v = max(-nov, min(nov, v))
            s += v * v
        norm = math.sqrt(s)
        l2 = rng.choice([norm / 3, norm / 7, norm * 0.9, nxt(norm, False), norm / 1.1, 0.1, 1e-3, 1e-300, 5e-324, 3e-323, 1e-308])
        if not (l2 > 0):
            l2 = 0.1
        cases.append({"stream": "gap", "deltas": deltas, "ops": [], "last": [], "cfg_form": "raw",
                      "cfg": {"delta_norm_cap_l2": f2b(l2), "novelty_cap_per_node": f2b(nov), "churn_cap_edges": rng.choice([64, nt, nt // 2]),
                              "cooldowns": {}},
                      "plan_form": "dict", "state_form": "obj_obj", "turn": [["turn_id", {"int": 0}]]})
    check_cases(ctx, cases, comp_name="t4", record=True)
    ios = [run_impl(c) for c in cases]
    reqs = []
    for c, io in zip(cases, ios):
        r = {"c": "t4.gap", "out": {"approved": io["out"]["approved"], "rejected": io["out"]["rejected"]}}
        r.update(model_input(c))
        reqs.append(r)
    resps = run_driver(reqs)
    exact_false = 0
    worst = Fraction(0)
    worst_tiny = Fraction(0)
    real_over = 0
    for c, io, rs in zip(cases, ios, resps):
        if "ok" not in rs:
            raise Infra(f"gap route failed: {rs}")
        if not rs["ok"]["l2_exact"]:
            exact_false += 1
        l2 = eff_cfg(c)[0]
        tot = sum(Fraction(b2f(a[3])) ** 2 for a in io["out"]["approved"])
        cap2 = Fraction(l2) ** 2
        if tot > cap2:
            real_over += 1
            if l2 >= TINY_CAP:
                worst = max(worst, tot / cap2 - 1)
            else:
                worst_tiny = max(worst_tiny, tot / cap2 - 1)
    ctx.extra["float_gap_probe"] = {
        "cases": len(cases), "l2_exact_predicate_false_at_Float": exact_false,
        "l2_exceeds_cap_in_exact_rationals": real_over,
        "max_relative_overshoot_of_squared_norm (caps >= 1e-150)": float(worst),
        "max_relative_overshoot_of_squared_norm (caps < 1e-150, known finding l2.tiny-cap)": float(worst_tiny),
        "monitor_slack": 1e-9,
        "note": "novelty/churn/cooldown/unique/sorted/subset are exact at Float (monotone rounding); only the L2 cap has a rounding gap",
    }



# ---------------------------------------------------------------------------------------------
# HISTORY stream — "depends on nothing but its arguments", across calls in ONE process
# ---------------------------------------------------------------------------------------------
# A history is a list of 2-4 ordinary cases c_0..c_n with the same input shapes.  The real objects
# (ctx, ctx.config, the t4 dict, state, state.meta, the last-use map, the plan and its lists) are
# built ONCE from c_0; before call i they are edited IN PLACE to carry the values of c_i (caps,
# cooldown map, last-use turns, turn id, now and then the deltas).  Every call is compared
# (a) with the model and all envelope monitors on the CURRENT values c_i, and
# (b) with the same call on freshly built objects (`history_dependence`).

HIST_COMP = "t4.history"


def _last_map_obj(state: Any, sf: str) -> Optional[Dict[str, Any]]:
    if not last_reachable(sf):
        return None
    h, m, _c, _x = state_shape(sf)
    meta = state.meta if h == "attr" else state["meta"]
    return meta.cooldowns if m == "obj" else meta["cooldowns"]


def mutate_in_place(objs, prev: dict, new: dict) -> None:
    ctx, state, plan = objs
    t4 = ctx.config.t4
    nc = new["cfg"]
    for kk in ("delta_norm_cap_l2", "novelty_cap_per_node"):
        if kk in nc:
            t4[kk] = b2f(nc[kk])
        else:
            t4.pop(kk, None)
    if "churn_cap_edges" in nc:
        t4["churn_cap_edges"] = nc["churn_cap_edges"]
    else:
        t4.pop("churn_cap_edges", None)
    if "cooldowns" in nc:
        val = nc["cooldowns"]
        cur = t4.get("cooldowns")
        if isinstance(val, dict) and isinstance(cur, dict) and not new.get("cd_replace"):
            cur.clear()
            cur.update(val)
        else:
            t4["cooldowns"] = dict(val) if isinstance(val, dict) else val
    else:
        t4.pop("cooldowns", None)
    new_names = [n for n, _ in new["turn"]]
    for n, _ in prev["turn"]:
        if n not in new_names:
            delattr(ctx, n)
    for n, v in new["turn"]:
        setattr(ctx, n, vs_decode(v))
    m = _last_map_obj(state, new["state_form"])
    if m is not None:
        m.clear()
        m.update({kind: vs_decode(v) for kind, v in new["last"]})
    if new["deltas"] != prev["deltas"] or new["ops"] != prev["ops"]:
        _c, _s, p2 = build_args(new)
        if isinstance(plan, dict):
            plan["deltas"][:] = p2["deltas"]
            plan["ops"][:] = p2["ops"]
        else:
            plan.deltas[:] = p2.deltas
            plan.ops[:] = p2.ops


def gen_history(rng: random.Random) -> dict:
    for _ in range(6):
        base = COMP.gen_stream(rng, rng.choice(["valid", "valid", "valid", "boundary"]))
        if len(base["deltas"]) >= 3:
            break
    base["stream"] = "history"
    if base["cfg_form"] == "nondict":
        base["cfg_form"] = "raw"
        base.pop("cfg_variant", None)
    base["plan_form"] = rng.choice(["dict", "obj", "dataclass"])
    base["state_form"] = rng.choice(["obj_obj", "obj_obj", "obj_dict", "dict_dict", "dict_obj", "attr/dict/map+",
                                     "dict/dict/missing", "attr/dict/missing", "dict/dict/none", "dict/dict/missing+", "attr/obj/missing"])
    if not base["turn"]:
        base["turn"] = [["turn_id", {"int": 0}]]
    hist = [base]
    for _step in range(rng.choice([1, 1, 2, 3])):
        c = copy.deepcopy(hist[-1])
        c.pop("cd_replace", None)
        cfg = c["cfg"]
        l2, nov, k, cds = eff_cfg(c)
        edits = []
        if rng.random() < 0.6:
            cfg["novelty_cap_per_node"] = f2b(rng.choice([0.1, 0.05, nov / 2, min(1.0, nov * 2), 0.3, 1.0, nxt(nov, False)]))
            edits.append("nov")
        if rng.random() < 0.6:
            cfg["delta_norm_cap_l2"] = f2b(rng.choice([0.2, 0.1, l2 / 2, 1.5, l2 * 3, nxt(l2, False)]) if math.isfinite(l2) else 0.2)
            edits.append("l2")
        if rng.random() < 0.6:
            cfg["churn_cap_edges"] = rng.choice([3, 0, 1, 2, 64, max(0, k - 1), k + 1])
            edits.append("k")
        if rng.random() < 0.45:
            cds2 = dict(cds)
            kk = rng.choice(KINDS)
            if kk in cds2 and rng.random() < 0.4:
                del cds2[kk]
            else:
                cds2[kk] = rng.choice([0, 1, 2, 3, 10])
            cfg["cooldowns"] = cds2
            if rng.random() < 0.3:
                c["cd_replace"] = True
            edits.append("cooldowns")
        tvals = [vs_decode(v) for _n, v in c["turn"]]
        turn = next((int(x) for x in tvals if isinstance(x, int)), 0)
        if rng.random() < 0.5:
            turn = rng.choice([turn + 1, turn + 1, turn + 3, 0, turn + 10])
            c["turn"] = [[n, ({"int": turn} if isinstance(vs_decode(v), int) else v)] for n, v in c["turn"]]
            edits.append("turn")
        if rng.random() < 0.45:
            kk = rng.choice(KINDS)
            last = [p for p in c["last"] if p[0] != kk]
            if rng.random() < 0.8:
                last.append([kk, {"int": turn - rng.choice([0, 1, 2, 3, -1])}])
            c["last"] = last
            edits.append("last")
        if rng.random() < 0.2 and c["deltas"]:
            ds = c["deltas"]
            r = rng.random()
            if r < 0.4:
                ds.pop(rng.randrange(len(ds)))
            elif r < 0.7:
                ds.append(copy.deepcopy(rng.choice(ds)))
            else:
                ds[rng.randrange(len(ds))]["delta"] = vs_float(rng.uniform(-1, 1))
            edits.append("deltas")
        c["edits"] = edits
        hist.append(c)
    return {"stream": "history", "history": hist}


def run_history(hcase: dict) -> List[dict]:
    """Drive the real t4_filter through the whole history on ONE set of objects."""
    from clematis.engine.stages.t4 import t4_filter
    hist = hcase["history"]
    objs = build_args(hist[0])
    outs = []
    for i, c in enumerate(hist):
        try:
            if i > 0:
                mutate_in_place(objs, hist[i - 1], c)
            before = snap(objs)
            res = t4_filter(objs[0], objs[1], None, None, objs[2], None)
            after = snap(objs)
            caps = res.metrics.get("caps", {})
            io: Any = {"out": canon_result(res), "pure": before == after, "pure_diff": snap_diff(before, after),
                       "caps": [f2b(float(caps.get("delta_norm_cap_l2"))), f2b(float(caps.get("novelty_cap_per_node"))),
                                int(caps.get("churn_cap_edges"))],
                       "repeat_same": True, "perm_diff": None}
        except Exception as e:
            io = {"__raised__": type(e).__name__, "msg": str(e)[:200]}
        outs.append({"io": io, "fresh": run_impl(c)})
    return outs


def eval_histories(hcases: List[dict]) -> List[Tuple[dict, List[Tuple[str, str]], List[Tuple[int, str, Any, Any]], List[dict]]]:
    """→ per history: (case, failed monitors, correspondence diffs, per-call records)"""
    runs = [run_history(h) for h in hcases]
    flat = [(hi, ci) for hi, h in enumerate(hcases) for ci in range(len(h["history"]))]
    resps = run_driver([COMP.request(hcases[hi]["history"][ci]) for hi, ci in flat])
    midx = [j for j, (hi, ci) in enumerate(flat)
            if not (isinstance(runs[hi][ci]["io"], dict) and "__raised__" in runs[hi][ci]["io"]) and COMP.lean_ok(runs[hi][ci]["io"])]
    mres = run_driver([COMP.mon_request(hcases[flat[j][0]]["history"][flat[j][1]], runs[flat[j][0]][flat[j][1]]["io"]) for j in midx])
    mon = dict(zip(midx, mres))
    out = [(h, [], [], runs[hi]) for hi, h in enumerate(hcases)]
    for j, (hi, ci) in enumerate(flat):
        c = hcases[hi]["history"][ci]
        io, fresh = runs[hi][ci]["io"], runs[hi][ci]["fresh"]
        diff, mo, fails = evaluate(c, io, resps[j], mon.get(j))
        for name, detail in fails:
            out[hi][1].append((name, f"call {ci + 1}/{len(hcases[hi]['history'])}: {detail}"))
        if diff is not None:
            out[hi][2].append((ci, diff, io, mo))
        raised = isinstance(io, dict) and "__raised__" in io
        fresh_out = fresh.get("out") if isinstance(fresh, dict) else None
        if not raised and fresh_out is not None and io["out"] != fresh_out:
            from harness.core import first_diff, _canon
            out[hi][1].append(("history_dependence",
                               f"call {ci + 1}/{len(hcases[hi]['history'])} (after in-place edits {c.get('edits')}) differs from the same call on "
                               f"fresh objects with identical argument values: "
                               + first_diff(_canon(io['out']), _canon(fresh_out)).replace("impl=", "history=").replace("model=", "fresh=")))
    return out


def hist_tags(h: dict, runs: List[dict]) -> List[str]:
    t = {f"calls={len(h['history'])}"}
    for c in h["history"][1:]:
        for e in c.get("edits", []):
            t.add("edit:" + e)
        if c.get("cd_replace"):
            t.add("edit:cooldowns_replaced")
    for r in runs:
        io = r["io"]
        if isinstance(io, dict) and "out" in io:
            o = io["out"]
            if o["blocked_ops"]:
                t.add("blocked")
            if o["novelty_clamped"]:
                t.add("clamped")
            if "DELTA_NORM_HIGH" in o["reasons"]:
                t.add("scaled")
            if o["counts"]["dropped_tail"]:
                t.add("churn")
    return sorted(t)


def shrink_history(h: dict):
    hist = h["history"]
    if len(hist) > 2:
        for j in range(len(hist)):
            yield {"stream": "history", "history": hist[:j] + hist[j + 1:]}
    nd = max(len(c["deltas"]) for c in hist)
    for i in range(nd):
        if all(len(c["deltas"]) > i for c in hist) and all(c["deltas"] == hist[0]["deltas"] for c in hist):
            yield {"stream": "history", "history": [dict(c, deltas=c["deltas"][:i] + c["deltas"][i + 1:]) for c in hist]}
    if all(c["last"] == hist[0]["last"] for c in hist) and hist[0]["last"]:
        yield {"stream": "history", "history": [dict(c, last=c["last"][:-1]) for c in hist]}
    for j, c in enumerate(hist):
        if j > 0 and c.get("edits"):
            # undo one edited field of a later call (take the previous call's value)
            p = hist[j - 1]
            for fld in ("turn", "last"):
                if c[fld] != p[fld]:
                    yield {"stream": "history", "history": hist[:j] + [dict(c, **{fld: p[fld]})] + hist[j + 1:]}
            for kk in ("delta_norm_cap_l2", "novelty_cap_per_node", "churn_cap_edges", "cooldowns"):
                if c["cfg"].get(kk) != p["cfg"].get(kk) and kk in p["cfg"]:
                    yield {"stream": "history", "history": hist[:j] + [dict(c, cfg=dict(c["cfg"], **{kk: p["cfg"][kk]}))] + hist[j + 1:]}


def check_histories(ctx: Ctx, hcases: List[dict]) -> None:
    CH = 1500
    first_fail: Dict[str, dict] = {}
    for off in range(0, len(hcases), CH):
        for h, fails, diffs, runs in eval_histories(hcases[off:off + CH]):
            ctx.record_case(HIST_COMP, h, hist_tags(h, runs))
            seen = set()
            for name, detail in fails:
                if name in seen:
                    continue
                seen.add(name)
                kkey = f"{ctx.prop}:{HIST_COMP}:{name}" if name == "history_dependence" else f"{ctx.prop}:t4:{name}"
                is_known = any(k.get("status", "open") == "open" and k.get("key") == kkey for k in ctx.known)
                if name not in first_fail and not is_known:
                    first_fail[name] = h
                    h = _minimise_history(h, name)
                    detail = next((d for n, d in eval_histories([h])[0][1] if n == name), detail)
                # envelope monitors keep their ordinary class key (known findings apply); the history clause has its own
                key = f"{ctx.prop}:{HIST_COMP}:{name}" if name == "history_dependence" else f"{ctx.prop}:t4:{name}"
                ctx.monitor_fail(HIST_COMP, name, h, detail, [r["io"] for r in runs], key=key)
            for ci, diff, io, mo in diffs[:1]:
                ctx.mismatch(HIST_COMP, h, f"call {ci + 1}: {diff}", io.get("out", io) if isinstance(io, dict) else io, mo, deciding=True)


def _minimise_history(h: dict, name: str) -> dict:
    def still(c: dict) -> bool:
        return any(n == name for n, _ in eval_histories([c])[0][1])

    class _S:
        @staticmethod
        def shrink(c):
            return shrink_history(c)
    try:
        return shrink_case(_S, h, still, limit=60)
    except Exception:
        return h


def run(ctx: Ctx) -> None:
    comp = COMP
    n = int(comp.budget.get(ctx.tier, comp.budget["quick"]) * ctx.budget_scale)
    rng = ctx.rng_for(comp.name)
    cases = list(comp.corpus(ctx))
    ctx.per_component.setdefault(comp.name, {"cases": 0, "nontrivial": 0})["corpus"] = len(cases)
    for i in range(n):
        cases.append(comp.gen(rng, i))
    check_cases(ctx, cases)
    if ctx.tier != "quick":
        # small-scope enumeration: every list of <= 3 deltas over 2 targets x 5 magnitudes x 3 provenances
        check_cases(ctx, list(enumerate_small()))
        ctx.extra["exhaustive_scopes"] = {"t4": "all delta lists of length <= 3 over 2 targets x 5 magnitudes x 3 op indices (2 ops, one in cooldown), k in {1, 64}"}
    float_gap_probe(ctx, 300 if ctx.tier == "quick" else 6000)
    hrng = ctx.rng_for(HIST_COMP)
    nh = int((400 if ctx.tier == "quick" else 8000) * ctx.budget_scale)
    hcases = list(ctx.load_corpus(HIST_COMP))
    ctx.per_component.setdefault(HIST_COMP, {"cases": 0, "nontrivial": 0})["corpus"] = len(hcases)
    hcases += [gen_history(hrng) for _ in range(nh)]
    check_histories(ctx, hcases)
    minimise_failures(ctx)


def enumerate_small():
    import itertools
    mags = [0.3, -0.3, 0.30000000000000004, 0.1, 1.0]
    atoms = [(t, m, o) for t in ("n:a", "n:b") for m in mags for o in (None, 0, 1)]
    base = {"stream": "enum", "ops": [{"form": "dict", "kind": "EditGraph"}, {"form": "obj", "kind": "Speak"}],
            "last": [["EditGraph", {"int": 4}], ["Speak", {"int": 0}]], "cfg_form": "raw", "plan_form": "dict",
            "state_form": "obj_obj", "turn": [["turn_id", {"int": 5}]]}
    for ln in range(0, 4):
        for combo in itertools.product(atoms, repeat=ln):
            for k in ((1, 64) if ln >= 2 else (64,)):
                yield dict(base, deltas=[{"kind": "node", "id": t, "attr": "weight", "delta": vs_float(m), "op_idx": o, "idx": j}
                                         for j, (t, m, o) in enumerate(combo)],
                           cfg={"delta_norm_cap_l2": f2b(0.35), "novelty_cap_per_node": f2b(0.3), "churn_cap_edges": k,
                                "cooldowns": {"EditGraph": 2, "Speak": 2}})


def replay(ctx: Ctx, rec: dict) -> int:
    recs = [rec] if "case" in rec else rec.get("broken_correspondence", [])
    rc = 0
    for r in recs:
        case = r["case"]
        if isinstance(case, dict) and "history" in case:
            # re-create the whole call history on one set of objects
            _h, fails, diffs, _runs = eval_histories([case])[0]
            print(f"REPLAY component={HIST_COMP} calls={len(case['history'])} correspondence="
                  f"{'agrees' if not diffs else 'DIFFERS call %d: %s' % (diffs[0][0] + 1, diffs[0][1])}")
            for name, detail in fails:
                print(f"REPLAY monitor {name} FAILS: {detail}")
                rc = 1
            if diffs:
                rc = 1
            continue
        io = run_impl(case)
        rs = run_driver([COMP.request(case)])[0]
        raised = isinstance(io, dict) and "__raised__" in io
        mr = run_driver([COMP.mon_request(case, io)])[0] if (not raised and COMP.lean_ok(io)) else None
        diff, mo, fails = evaluate(case, io, rs, mr)
        print(f"REPLAY component=t4 correspondence={'agrees' if diff is None else 'DIFFERS ' + diff}")
        for name, detail in fails:
            print(f"REPLAY monitor {name} FAILS: {detail}")
            rc = 1
        if diff is not None:
            rc = 1
    if rec.get("broken_proof_obligations"):
        print("REPLAY broken proof obligations recorded:")
        for b in rec["broken_proof_obligations"]:
            print("  " + b[:500])
        rc = 1
    return rc
