"""C04 — Apply commits exactly the approved deltas, once, with version discipline.

Two components:
* `apply`  — the real `clematis.engine.apply.apply_changes` with a scripted store double, a real
  `CacheManager` (optionally wrapped so its k-th `invalidate_namespace` raises) and the real
  `write_snapshot` (optionally made to raise), against `Clem.Apply.apply`; the Lean predicate
  `Clem.Apply.spec` is evaluated on the implementation's observed output.
* `hist`   — histories of turns through the real `Orchestrator.run_turn` (T1/T2/T4 stage callables
  stubbed by monkeypatching, T3 gated off by config, real `apply_changes`, real log call sites
  captured through the orchestrator's own `append_jsonl` patch point), kill switch toggled at
  arbitrary turns, against `Clem.Apply.runTurn`; the Lean predicate `Clem.Apply.turnSpec` and the
  history law `version = v0 + #committed turns` are evaluated on the implementation's states.
"""
from __future__ import annotations

import itertools
import json
import os
import random
import re
from pathlib import Path
from types import SimpleNamespace
from typing import Any, List, Optional, Tuple

from harness.core import Component, Ctx, run_component

RULE = ("scripted-store cases (approved list with duplicates, script of ok/raise/garbage outcomes, version absent/numeric/junk in "
        "several concrete Python forms, cadence 0/1/k/negative, turn ids incl. unparsable, bust modes, namespace lists with "
        "duplicates, cache-manager and snapshot faults, dict- and attribute-style state) and histories of 1-30 turns through the real "
        "run_turn with the kill switch toggled at random turns; all from one seeded PRNG per component; non-trivial = at least one of: "
        "fallback taken, garbage counts, per-delta failure, snapshot written, invalidation, fault injected, kill-switch turn; "
        "distinct by canonical JSON")
ASSUMPTIONS = [
    "the store double answers each apply_deltas call from a script (return value whose counts parse / do not parse, or raise); a store is "
    "'all-or-nothing' when a call that raises commits nothing and a call that returns commits its whole batch",
    "exceptions raised by the store / cache manager derive from Exception (BaseException such as KeyboardInterrupt escapes by design)",
    "t4 configuration is a dict whose snapshot_every_n_turns is int()-convertible (validated configs); _get_cfg coercion errors are out of scope",
    "history level: T1/T2/T4 stages are stubs, T3 and the scheduler are gated off by config, distinct input text per turn, cache TTL does not expire",
    "the proposed fix proposed_fixes/C04_no_fallback_after_successful_batch.diff is applied (without it the corpus witness reports the double hand-off)",
]
CLAIM = {
    "text": ("Unbounded Lean theorems about the executable model of apply_changes + the T4/Apply section of run_turn: the calls received by the store are "
             "exactly [approved] or [approved] followed by one singleton per delta, the latter iff the batch call itself raised; under an all-or-nothing "
             "store no delta is committed more often than approved, for every script; the version becomes bump(v) for every script, every cache-manager "
             "behaviour and every snapshot fault, and after any history equals v0 + number of committed turns (kill-switch turns contribute 0); the only "
             "way apply raises is the unguarded snapshot write; snapshot attempted iff turn % max(1,n) == 0; on-apply invalidation empties every configured "
             "namespace and reports exactly the number removed; kill-switch turns make no store call, keep version and snapshot, and emit no t4/apply record."),
    "note": ("Round 6: the store double's REPLY is drawn from a shape/fault pool: plain dict, proxy with .get, proxy whose .get raises any of 16 exception "
             "classes (RuntimeError, KeyError, OverflowError, RecursionError, ...) for some or all keys, reply whose `get` lookup raises, non-mappings, counters "
             "that are inf/-inf/nan/huge or whose int() raises each class -- on the batch call and on each single-delta call of the fallback; the "
             "handoff / at-most-once / version / cadence / total monitors are evaluated on all of them (in the model these are Cnt.bad or a 0 default). Round 4: histories are driven both with a fresh Orchestrator()/ctx per turn and with ONE long-lived Orchestrator instance and ONE long-lived "
             "ctx whose config.t4 is edited in place / replaced between turns; every on/off pattern of each per-turn gate (t4.enabled, bust mode, cadence) over "
             "<= 4 (quick) / <= 6 (thorough) turns is enumerated under those drivers; turnSpec now also carries the cache clause (turnInvalidateB), so a gate "
             "latched from an earlier turn yields a failing input. Round 3: the store double now carries the whole surface the apply->snapshot path touches (apply_deltas / export_state / w / import_state, "
             "lookup + call + return value, each scriptable to raise or return garbage); C04_store_faults_never_propagate states that NO store fault propagates "
             "(only the snapshot file write itself may raise); this holds of the code with proposed_fixes/C04_store_faults_never_abort_apply.diff (guards the store "
             "export in write_snapshot and the apply_deltas lookup). Component t4apply feeds the REAL t4_filter output into the REAL apply_changes (directly and "
             "through run_turn histories) and checks with the Lean predicate canonHandoffB that the store receives T4's approved list, canonically sorted. "
             "Model follows the code WITH the proposed fix (count parsing outside the batch try). The pre-fix behaviour is kept as storePhaseLegacy with a "
             "machine-checked double-hand-off witness (C04_legacy_double_on_garbage); the same witness is a corpus case evaluated on the real code each run. "
             "Covered by correspondence only: concrete Python forms of counts/version/turn ids (int(), str()), dict vs attribute state, the ApplyResult/"
             "apply.jsonl field plumbing, the content of the snapshot file (write_snapshot itself belongs to C06/C08), `canonical order' (apply forwards the "
             "approved list unchanged; its order is C03's theorem). Kill-switch turns still let T2 insert into the cache; the statement does not forbid it."),
    "technique": "Lean 4 proofs over all scripts / histories (structural induction) + exact differential execution against the real apply_changes and run_turn",
    "design_ref": "DESIGN.md §4 C04, §5 row 11",
}
DRIVER_MODULES = ['HApply']
MODELLED = {
    "clematis/engine/apply.py": ["apply_changes", "_bump_version_etag", "_should_snapshot", "_safe_get", "_safe_int", "_get_cfg"],
    "clematis/engine/orchestrator/core.py": ["Orchestrator.run_turn"],
    "clematis/engine/cache.py": ["CacheManager.invalidate_namespace"],
    "clematis/engine/snapshot.py": ["_export_store_for_snapshot"],
    "clematis/engine/stages/t4.py": ["t4_filter", "_canonical_key", "_churn_cap"],
}
TRUSTED = ["store surface exercised by the doubles (derived from apply.py + snapshot.py): state.store, store.apply_deltas (lookup, batch call, per-delta "
           "call, return value), store.export_state (lookup, call, return value), store.w (lookup, keys, values), store.import_state (boot loader only, "
           "inside run_turn's own try/except); each scriptable to raise any of 9 Exception types or to return garbage, on cadence and non-cadence turns",
           "modelled, not verified: the store (scripted double), write_snapshot I/O (C06/C08), CPython int()/str() on the concrete forms generated, "
           "CacheManager internals beyond invalidate_namespace/get/set (C15/C05)"]

NS = ["t2:semantic", "t1:propagate", "t2:hybrid", "misc"]
BAD_PLAIN = ["abc", None, [], "1.5", {"x": 1}, ""]
JUNK_VER = ["abc", "1.5", "", [], "v7"]
JUNK_TURN = ["abc", None, "1.5", []]


class _Boom(Exception):
    pass


class _SnapBoom(OSError):
    pass


EXC = [KeyError, RuntimeError, ValueError, _Boom, OSError, ZeroDivisionError, AssertionError, StopIteration, TypeError,
       OverflowError, RecursionError, LookupError, AttributeError, MemoryError, ArithmeticError, NotImplementedError]


# ---- reply-shape fault pool -------------------------------------------------------------------------
# What a store may hand back from a call that itself succeeded.  Reading the reply must never abort the
# turn, skip the version bump or cut the one-by-one fallback short, whatever exception class surfaces
# while the reply is read (`.get`, attribute lookup, `int()`), and whatever the counters look like.

class _BadInt:
    """A counter whose int() raises `exc`."""

    def __init__(self, exc):
        self._exc = exc

    def __int__(self):
        raise self._exc("scripted int() failure")

    def __repr__(self):
        return f"_BadInt({self._exc.__name__})"


class _IntReturnsStr:
    def __int__(self):
        return "3"  # int() -> TypeError


class _Reply:
    """Lazy / proxy reply: `.get` raises `exc` for poisoned keys, answers from `data` otherwise."""

    def __init__(self, data, poison=(), exc=RuntimeError):
        self._data, self._poison, self._exc = dict(data), set(poison), exc

    def get(self, key, default=None):
        if key in self._poison:
            raise self._exc(f"scripted reply.get({key!r}) failure")
        return self._data.get(key, default)


class _ReplyGetLookupRaises:
    """Reply whose `get` attribute lookup itself raises."""

    def __init__(self, exc):
        self._exc = exc

    @property
    def get(self):
        raise self._exc("scripted reply.get lookup failure")


class _ReplyGetItemOnly:
    """Sequence-like reply with [] but no usable .get (get is not callable)."""
    get = None

    def __getitem__(self, k):
        raise KeyError(k)


# counters int() cannot turn into a number, by mechanism: ValueError / TypeError / OverflowError (inf) /
# ValueError (nan) / arbitrary exception classes from __int__
BAD = BAD_PLAIN + [float("inf"), float("-inf"), float("nan"), _IntReturnsStr()] + [_BadInt(x) for x in EXC]
NONMAPPING = [None, 5, [], "reply", 3.5, (1, 2), object(), _ReplyGetItemOnly()]
N_REPLY_SHAPES = 6


def _bad_kind(v: Any) -> str:
    if isinstance(v, float):
        return "float_" + ("nan" if v != v else "inf")
    if isinstance(v, _BadInt):
        return "int_raises_" + v._exc.__name__
    return "plain"


def _ok_val(n: int, form: int) -> Any:
    form %= 4
    if form == 1:
        return str(n)
    if form == 2 and abs(n) < 2 ** 40:
        return float(n)
    if form == 3:
        return f" {n} "
    return n


def _ver_val(ver: dict, form: int) -> Any:
    if ver["k"] == "absent":
        return None
    if ver["k"] == "junk":
        return JUNK_VER[form % len(JUNK_VER)]
    n = ver["n"]
    form %= 4
    if form == 1:
        return n
    if form == 2:
        return f" {n}\n"
    if form == 3 and n == 1:
        return True
    return str(n)


def _turn_val(turn: Optional[int], form: int) -> Any:
    if turn is None:
        return JUNK_TURN[form % len(JUNK_TURN)]
    return str(turn) if form % 2 == 1 else turn


class _Recorder:
    """Store without a usable `apply_deltas`; still carries the recording fields."""

    def __init__(self, script, real, idx_of):
        self.calls: List[List[int]] = []
        self.graphs: List[Any] = []


class _ShapeLog(list):
    """Reply shapes used, also remembered with the index of the call they answered."""

    def __init__(self, owner):
        super().__init__()
        self._owner = owner

    def append(self, x):
        super().append(x)
        self._owner._shape_at.append((self._owner.n - 1, x))


class ScriptedStore:
    def __init__(self, script, real, idx_of):
        self.script = list(script)
        self.real = real
        self.idx_of = idx_of
        self.calls: List[List[int]] = []
        self.graphs: List[Any] = []
        self.n = 0
        self.shapes: List[str] = _ShapeLog(self)
        self._shape_at: List[Tuple[int, str]] = []

    @property
    def shapes_after_first(self) -> List[str]:
        return [x for k, x in self._shape_at if k > 0]

    def apply_deltas(self, graph_id, deltas):
        self.graphs.append(graph_id)
        self.calls.append([self.idx_of(d) for d in deltas])
        k = self.n
        self.n += 1
        o = self.script[k] if k < len(self.script) else ["ret", 0, 0]
        if o[0] == "raise":
            raise EXC[(self.real.get("exc", 0) + k) % len(EXC)]("scripted store failure")
        e, c = o[1], o[2]
        form = self.real.get("okform", 0) + k
        if e == 0 and c == 0 and self.real.get("nonmapping") and k % 2 == 0:
            self.shapes.append("nonmapping")
            return NONMAPPING[(self.real.get("bad", 0) + k) % len(NONMAPPING)]  # _safe_get falls back to the default 0
        ev = BAD[(self.real.get("bad", 0) + k) % len(BAD)] if e is None else _ok_val(e, form)
        cv = BAD[(self.real.get("bad", 0) + 3 * k + 1) % len(BAD)] if c is None else _ok_val(c, form + 1)
        for v, isbad in ((ev, e is None), (cv, c is None)):
            if isbad:
                self.shapes.append("bad:" + _bad_kind(v))
        ckey = "clamped" if (self.real.get("clamped") and k % 2 == 1) else "clamps"
        data = {"edits": ev, ckey: cv}
        shape = (self.real.get("reply", 0) + k) % N_REPLY_SHAPES
        exc = EXC[(self.real.get("exc", 0) + 2 * k + 1) % len(EXC)]
        if shape == 1:
            self.shapes.append("proxy")
            return _Reply(data)
        if shape == 2 and (e == 0 or c == 0):
            # a count of 0 realised as "reading that key raises": the default (0) is what apply must use
            poison = set()
            if e == 0:
                poison.add("edits")
                data.pop("edits")
            if c == 0:
                poison |= {"clamps", "clamped"}
                data.pop(ckey)
            self.shapes.append("get_raises:" + exc.__name__)
            return _Reply(data, poison, exc)
        if shape == 3 and c is not None:
            # `clamps` unreadable, the value sits under the `clamped` alias (the default expression of the outer read)
            self.shapes.append("get_raises_alias:" + exc.__name__)
            return _Reply({"edits": ev, "clamped": cv}, {"clamps"}, exc)
        if shape == 4 and e == 0 and c == 0:
            self.shapes.append("get_lookup_raises:" + exc.__name__)
            return _ReplyGetLookupRaises(exc)
        if shape == 5 and e == 0 and c == 0:
            self.shapes.append("get_raises:" + exc.__name__)
            return _Reply({}, {"edits", "clamps", "clamped"}, exc)
        return data


def _mk_cm(sizes, fault_holder):
    from clematis.engine.cache import CacheManager

    class FaultyCM(CacheManager):
        def invalidate_namespace(self, namespace):
            k = fault_holder["n"]
            fault_holder["n"] += 1
            if fault_holder["fault"] is not None and k == fault_holder["fault"]:
                raise EXC[k % len(EXC)]("scripted cache failure")
            return super().invalidate_namespace(namespace)

    cm = FaultyCM(max_entries=100000, ttl_sec=600, time_fn=lambda: 1000.0)
    for ns, size in sizes:
        for j in range(size):
            cm.set(NS[ns], ("seed", j), j)
    return cm


def _pool(n):
    from clematis.engine.types import ProposedDelta
    return [ProposedDelta(target_kind="node" if i % 2 == 0 else "edge", target_id=f"n:{i}", attr="weight",
                          delta=0.1 * (i + 1), op_idx=i, idx=i) for i in range(n)]


def _t4_cfg(case_like: dict, real: dict, snapdir: str) -> dict:
    t4 = {"snapshot_dir": snapdir}
    every = case_like["every"]
    ef = real.get("every_form", 0) % 3
    if not (ef == 2 and every == 1):
        t4["snapshot_every_n_turns"] = str(every) if ef == 1 else every
    mode = real.get("mode")
    if mode != "__omit__":
        t4["cache_bust_mode"] = mode
    if case_like["namespaces"] is not None:
        t4["cache"] = {"namespaces": [NS[i] for i in case_like["namespaces"]]}
    return t4


MODES = ["on-apply", "on-apply", "on-apply", "none", "__omit__", None, "ON-APPLY", "on_apply", ""]


def _gen_script(rng: random.Random, nd: int) -> list:
    def cnt():
        r = rng.random()
        if r < 0.2:
            return None
        return rng.choice([0, 1, 2, nd, -1, 7])

    def outcome(p_raise):
        if rng.random() < p_raise:
            return ["raise"]
        if rng.random() < 0.25:
            return ["ret", 0, rng.choice([0, 0, 1, None])]
        return ["ret", cnt(), cnt()]
    r = rng.random()
    if r < 0.35:
        first = ["ret", rng.choice([0, 0, 1, nd, 3, 10 ** 30]), rng.choice([0, 0, 1])]
    elif r < 0.65:
        first = ["raise"]
    elif r < 0.9:
        first = ["ret", *rng.choice([[None, 0], [1, None], [None, None], [nd, None]])]
    else:
        return []
    ln = rng.choice([0, nd, nd, nd + 1, rng.randrange(0, nd + 2)])
    p = rng.choice([0.0, 0.2, 0.5, 1.0])
    return [first] + [outcome(p) for _ in range(ln)]


def _gen_common(rng: random.Random) -> Tuple[dict, dict]:
    nd = rng.choice([0, 1, 2, 3, 3, 5])
    ds = [rng.randrange(max(nd, 1)) for _ in range(nd)] if rng.random() < 0.3 else list(range(nd))
    if nd and rng.random() < 0.2:
        rng.shuffle(ds)
    mode = rng.choice(MODES)
    nsl = rng.choice([None, None, [0], [0, 1], [1, 0, 1], [], [2, 3, 0], [3], [0, 0]])
    turn = rng.choice([0, 1, 2, 3, 4, 5, 6, 7, 9, 10, 12, -1, -4, 1000, None])
    every = rng.choice([1, 1, 2, 2, 3, 4, 5, 0, -2, 1000])
    d = {"store": rng.choices(["fn", "none", "noFn", "attrRaises"], [82, 6, 7, 5])[0], "turn": turn, "every": every,
         "exportMode": rng.choices(EXPORT_MODES, [40, 15, 20, 15, 10])[0], "wMode": rng.choices(W_MODES, [35, 20, 15, 20, 10])[0],
         "bust": mode == "on-apply", "namespaces": nsl,
         "cmFault": rng.choice([None, None, None, 0, 1, 2]),
         "deltas": ds, "script": _gen_script(rng, len(ds))}
    real = {"mode": mode, "every_form": rng.randrange(3), "turn_form": rng.randrange(4), "exc": rng.randrange(len(EXC)),
            "okform": rng.randrange(4), "bad": rng.randrange(len(BAD)), "reply": rng.randrange(N_REPLY_SHAPES), "clamped": rng.random() < 0.3,
            "nonmapping": rng.random() < 0.2, "nofn": rng.randrange(2)}
    return d, real


GARBAGE_EXPORT = [lambda: {"x": object()}, lambda: {(1, 2): 3}, lambda: {"s": {1, 2}}, lambda: object()]
BAD_W_VALUES = ["abc", None, [], "1.5x"]
EXPORT_MODES = ["absent", "ok", "raises", "garbage", "attrRaises"]
W_MODES = ["absent", "ok", "badKey", "badValue", "attrRaises"]


def _mk_store(kind: str, script, real, idx_of, export_mode: str = "absent", w_mode: str = "absent"):
    """Store double with the whole surface the apply -> snapshot path touches:
    `apply_deltas` (lookup + call), `export_state` (lookup + call), `w` (lookup + content),
    `import_state` (boot loader; always raises here, it must never matter)."""
    if kind == "none":
        return None
    # (an AttributeError from an attribute lookup *is* "attribute absent" for getattr(..., None): not a fault)
    pool = [x for x in EXC if x is not AttributeError]
    exc = lambda k: pool[(real.get("exc", 0) + k) % len(pool)]
    ns: dict = {}
    if kind == "noFn":
        if real.get("nofn", 0) == 1:
            ns["apply_deltas"] = 5
        base: tuple = (_Recorder,)
    elif kind == "attrRaises":
        def _ad(self):
            raise exc(3)("scripted apply_deltas lookup failure")
        ns["apply_deltas"] = property(_ad)
        base = (_Recorder,)
    else:
        base = (ScriptedStore,)
    if export_mode == "ok":
        ns["export_state"] = lambda self: {"nodes": [{"id": "n:0", "w": 0.5}], "rev": 3}
    elif export_mode == "raises":
        def _es(self):
            raise exc(1)("scripted export_state failure")
        ns["export_state"] = _es
    elif export_mode == "garbage":
        g = GARBAGE_EXPORT[real.get("bad", 0) % len(GARBAGE_EXPORT)]
        ns["export_state"] = lambda self: g()
    elif export_mode == "attrRaises":
        def _esp(self):
            raise exc(2)("scripted export_state lookup failure")
        ns["export_state"] = property(_esp)
    if w_mode == "ok":
        ns["w"] = {("node", "n:0", "weight"): 0.5, ("edge", "e:a|r|b", "weight"): -0.25}
    elif w_mode == "badKey":
        ns["w"] = {"oops": 1.0, ("node", "n:1", "weight"): 0.25, ("too", "short"): 2.0}
    elif w_mode == "badValue":
        ns["w"] = {("node", "n:0", "weight"): 0.5, ("node", "n:1", "weight"): BAD_W_VALUES[real.get("bad", 0) % len(BAD_W_VALUES)]}
    elif w_mode == "attrRaises":
        def _wp(self):
            raise exc(4)("scripted w lookup failure")
        ns["w"] = property(_wp)

    def _imp(self, st):
        raise exc(5)("scripted import_state failure")
    ns["import_state"] = _imp
    cls = type("StoreDouble", base, ns)
    return cls(script, real, idx_of)


def _sizes(cm, ids) -> list:
    """Live entries per namespace id, read without touching recency/stat counters."""
    out = []
    for i in ids:
        nsobj = cm._ns.get(NS[i])
        out.append([i, int(nsobj.size()) if nsobj is not None else 0])
    return out


class ApplyComp(Component):
    name = "apply"
    budget = {"quick": 1500, "thorough": 30000, "search": 30000}
    scratch: Optional[Path] = None
    tier = "quick"

    # -- generation --------------------------------------------------------
    def gen(self, rng: random.Random, i: int) -> dict:
        d, real = _gen_common(rng)
        vk = rng.choice(["absent", "num", "num", "num", "junk"])
        ver = {"k": vk}
        if vk == "num":
            ver["n"] = rng.choice([0, 1, 1, 5, 41, 99, -1, -3, 10 ** 12])
        cm = None if rng.random() < 0.12 else [[k, rng.choice([0, 1, 2, 5])] for k in range(len(NS))]
        real.update({"ver_form": rng.randrange(5), "state": rng.choice(["dict", "attr"])})
        d.update({"ver": ver, "cm": cm, "snapFault": rng.random() < 0.08, "real": real})
        return d

    def corpus(self, ctx: Ctx) -> List[dict]:
        cases = list(ctx.load_corpus(self.name))
        if ctx.tier != "quick":
            cases += self.enumerate_small()
        return cases

    @staticmethod
    def enumerate_small() -> List[dict]:
        """Every script of length ≤ len(ds)+1 over {ok, raise, garbage} for len(ds) ≤ 3."""
        outs = [["ret", 1, 0], ["raise"], ["ret", None, 1]]
        cases = []
        for nd in range(0, 4):
            for ln in range(0, nd + 2):
                for sc in itertools.product(outs, repeat=ln):
                    cases.append({"store": "fn", "turn": nd, "every": 2, "bust": True, "namespaces": [0, 1], "cmFault": None,
                                  "deltas": list(range(nd)), "script": [list(o) for o in sc],
                                  "ver": {"k": "num", "n": 3}, "cm": [[k, 1] for k in range(len(NS))], "snapFault": False,
                                  "real": {"mode": "on-apply", "state": "dict"}})
        return cases

    def request(self, case: dict) -> dict:
        r = {k: v for k, v in case.items() if k != "real"}
        r["c"] = "apply"
        return r

    # -- implementation ----------------------------------------------------
    def impl(self, case: dict) -> Any:
        from clematis.engine import apply as ap
        from clematis.engine.types import T4Result
        real = case.get("real", {})
        snapdir = str(self.scratch)
        snapfile = Path(snapdir) / "state_A.json"
        for p in (snapfile, Path(str(snapfile) + ".meta")):
            if p.exists():
                p.unlink()
        pool = _pool(max(case["deltas"], default=-1) + 1)
        ids = {id(p): k for k, p in enumerate(pool)}
        idx_of = lambda d: ids.get(id(d), 10 ** 6)
        store = _mk_store(case["store"], case["script"], real, idx_of, case.get("exportMode", "absent"), case.get("wMode", "absent"))
        holder = {"n": 0, "fault": case["cmFault"]}
        cm = _mk_cm(case["cm"], holder) if case["cm"] is not None else None
        vval = _ver_val(case["ver"], real.get("ver_form", 0))
        if real.get("state") == "attr":
            state: Any = SimpleNamespace(store=store, version_etag=vval)
            if cm is not None:
                state._cache_mgr = cm
            elif real.get("ver_form", 0) % 2:
                state._cache_mgr = None
        else:
            state = {"store": store}
            if not (vval is None and real.get("ver_form", 0) % 2):
                state["version_etag"] = vval
            if cm is not None:
                state["_cache_mgr"] = cm
        t4cfg = _t4_cfg(case, real, snapdir)
        ctx = SimpleNamespace(agent_id="A", config=SimpleNamespace(t4=t4cfg))
        tv = _turn_val(case["turn"], real.get("turn_form", 0))
        if not (case["turn"] == 0 and real.get("turn_form", 0) == 3):
            ctx.turn_id = tv
        approved = [pool[k] for k in case["deltas"]]
        if not approved and real.get("okform", 0) == 3:
            approved = None  # `t4.approved_deltas or []`
        t4 = T4Result(approved_deltas=approved, rejected_ops=[], reasons=[], metrics={})
        snaps: List[dict] = []
        orig_ws = ap.write_snapshot

        def ws(ctx_, state_, version_etag, applied=0, deltas=None):
            snaps.append({"version": version_etag if isinstance(version_etag, str) else repr(version_etag),
                          "applied": applied, "deltas": [idx_of(d) for d in (deltas or [])]})
            if case["snapFault"]:
                raise _SnapBoom("scripted snapshot failure")
            return orig_ws(ctx_, state_, version_etag, applied, deltas)

        ap.write_snapshot = ws
        out: dict = {}
        res = None
        try:
            try:
                res = ap.apply_changes(ctx, state, t4)
                out["raised"] = False
            except _SnapBoom:
                out["raised"] = True
            except Exception as e:  # anything else is a totality failure, reported by a monitor
                out["raised"] = True
                out["crash"] = f"{type(e).__name__}: {e}"[:200]
        finally:
            ap.write_snapshot = orig_ws
        v_after = state.get("version_etag") if isinstance(state, dict) else getattr(state, "version_etag", None)
        out["version"] = v_after if isinstance(v_after, str) else "!" + repr(v_after)
        out["calls"] = store.calls if store is not None else []
        out["cm"] = _sizes(cm, [k for k, _ in case["cm"]]) if cm is not None else None
        out["snap"] = snaps[0] if snaps else None
        out["snap_calls"] = len(snaps)
        if res is not None:
            out["applied"] = res.applied
            out["clamps"] = res.clamps
            out["invalidated"] = (res.metrics or {}).get("cache_invalidations")
            out["res_version"] = res.version_etag
            out["res_snapshot"] = res.snapshot_path is not None
            fver = None
            if res.snapshot_path is not None:
                try:
                    sj = json.loads(Path(res.snapshot_path).read_text())
                    fver = sj.get("version_etag")
                    sec = sj.get("store")
                    out["snapStore"] = ("empty" if sec == {} else "state" if isinstance(sec, dict) and list(sec) == ["state"]
                                        else "weights" if isinstance(sec, dict) and list(sec) == ["weights"] else f"!{str(sec)[:40]}")
                except Exception as e:
                    fver = f"!unreadable {type(e).__name__}"
            out["file_version"] = fver
        out.setdefault("snapStore", None)
        if isinstance(store, ScriptedStore):
            out["graphs_ok"] = all(g == "g:surface" for g in store.graphs)
            out["reply_shapes"] = sorted(set(store.shapes))
            out["reply_shape_fallback"] = sorted(set(store.shapes_after_first))
        return out

    # -- comparison / monitors ---------------------------------------------
    KEYS = ["calls", "applied", "clamps", "version", "invalidated", "cm", "snap", "raised", "snapStore"]

    def compare(self, case, impl_out, model_out):
        if not isinstance(model_out, dict) or "__model_err__" in model_out:
            return f"model error {model_out}"
        if "__raised__" in impl_out:
            return f"harness adapter raised {impl_out}"
        keys = [k for k in self.KEYS if not (impl_out.get("raised") and k in ("applied", "clamps", "invalidated"))]
        a = {k: impl_out.get(k) for k in keys}
        b = {k: model_out.get(k) for k in keys}
        from harness.core import _canon, first_diff
        a, b = _canon(a), _canon(b)
        return None if a == b else first_diff(a, b)

    def _out_for_lean(self, case, io) -> Optional[dict]:
        if not re.fullmatch(r"-?\d+", io.get("version") or ""):
            return None
        o = {k: io.get(k) for k in self.KEYS}
        if io.get("raised"):
            # the ApplyResult was lost with the exception: counts unobservable
            o["applied"] = (io.get("snap") or {}).get("applied", 0)
            o["clamps"] = 0
            before = sum(s for _, s in case["cm"]) if case["cm"] is not None else 0
            after = sum(s for _, s in io["cm"]) if io.get("cm") is not None else 0
            o["invalidated"] = max(0, before - after)
        if not isinstance(o["invalidated"], int) or o["invalidated"] < 0 or not isinstance(o["applied"], int) \
                or not isinstance(o["clamps"], int):
            return None
        if o["snap"] is not None and not re.fullmatch(r"-?\d+", str(o["snap"].get("version"))):
            return None
        if o.get("snapStore") not in (None, "empty", "state", "weights"):
            return None
        return o

    def monitor_requests(self, case, impl_out):
        o = self._out_for_lean(case, impl_out)
        if o is None:
            return []
        out = []
        for clause in ("handoff", "at_most_once", "version", "cadence", "total", "invalidate"):
            r = self.request(case)
            r.update({"c": "apply.spec", "clause": clause, "out": o})
            out.append((clause, r))
        return out

    def monitors(self, case, io):
        res = []
        res.append(("total", "crash" not in io, f"apply_changes raised {io.get('crash')}"))
        res.append(("wellformed", self._out_for_lean(case, io) is not None,
                    f"version/counters not of the documented types: version={io.get('version')!r} applied={io.get('applied')!r} "
                    f"invalidated={io.get('invalidated')!r}"))
        res.append(("one_snapshot_call", io.get("snap_calls", 0) <= 1, f"write_snapshot called {io.get('snap_calls')} times"))
        if "res_version" in io:
            res.append(("result_version", io["res_version"] == io["version"],
                        f"ApplyResult.version_etag={io['res_version']!r} state.version_etag={io['version']!r}"))
            res.append(("result_snapshot", io["res_snapshot"] == (io["snap"] is not None), "snapshot_path vs write_snapshot call"))
            if io["res_snapshot"]:
                res.append(("snapshot_file", io["file_version"] == io["version"],
                            f"snapshot file version_etag={io['file_version']!r} expected {io['version']!r}"))
        return res

    def tags(self, case, io):
        t = set()
        sc = case["script"]
        first = sc[0] if sc else ["ret", 0, 0]
        if case["store"] != "fn":
            t.add("store_" + case["store"])
        elif first[0] == "raise":
            t.add("batch_raise")
            if any(o[0] == "raise" for o in sc[1:1 + len(case["deltas"])]):
                t.add("fallback_partial")
        elif first[1] is None or first[2] is None:
            t.add("batch_garbage")
        if case["ver"]["k"] != "num":
            t.add("ver_" + case["ver"]["k"])
        if io.get("snap") is not None:
            t.add("snapshot")
        if case["snapFault"] and io.get("raised"):
            t.add("snapshot_raises")
        if case["bust"] and case["store"] == "fn" and case["cm"] is not None:
            t.add("invalidate")
            if case["cmFault"] is not None and case["cmFault"] < len(case["namespaces"] if case["namespaces"] is not None else [0]):
                t.add("cm_fault")
        for sh in io.get("reply_shapes") or []:
            mech, _, cls = sh.partition(":")
            if mech == "bad":
                t.add("reply:bad_count:" + ("float" if cls.startswith("float") else "int_raises" if cls.startswith("int_raises") else "plain"))
                if cls.startswith("float"):
                    t.add("reply:count_" + cls[6:])
                if cls.startswith("int_raises_"):
                    t.add("reply_exc:" + cls[11:])
            else:
                t.add("reply:" + mech)
                if cls:
                    t.add("reply_exc:" + cls)
        for sh in io.get("reply_shape_fallback") or []:
            t.add("fallback_reply:" + sh.split(":")[0])
        if case["turn"] is None:
            t.add("turn_unparsable")
        if case["store"] != "none" and io.get("snap") is not None:
            em, wm = case.get("exportMode", "absent"), case.get("wMode", "absent")
            if em in ("raises", "garbage", "attrRaises"):
                t.add("export_fault_on_cadence:" + em)
            if em in ("absent", "raises") and wm in ("badKey", "badValue", "attrRaises"):
                t.add("w_fault_on_cadence:" + wm)
        if len(set(case["deltas"])) < len(case["deltas"]):
            t.add("dup_deltas")
        return sorted(t) or ["default"]

    def shrink(self, case):
        ds = case["deltas"]
        for i in range(len(ds)):
            yield dict(case, deltas=ds[:i] + ds[i + 1:])
        sc = case["script"]
        if sc:
            yield dict(case, script=sc[:-1])
        if case["cmFault"] is not None:
            yield dict(case, cmFault=None)
        if case["snapFault"]:
            yield dict(case, snapFault=False)
        if case["cm"] is not None:
            yield dict(case, cm=None)


# How a history is driven: a new `Orchestrator()` per turn (what `orch.run_turn` does) or ONE long-lived instance;
# a fresh ctx per turn, or ONE long-lived ctx whose `config.t4` dict is edited in place / whose config (or t4 dict)
# is replaced between turns.  Every per-turn gate (t4.enabled, cadence, bust mode) must be read afresh each turn.
ORCH_MODES = ["fresh", "shared"]
CTX_MODES = ["fresh", "inplace", "replace_cfg", "replace_t4"]


class HistComp(Component):
    name = "hist"
    budget = {"quick": 200, "thorough": 3000, "search": 3000}
    scratch: Optional[Path] = None

    def gen(self, rng: random.Random, i: int) -> dict:
        n = rng.choice([1, 2, 3, 5, 8, 13, 30])
        p_kill = rng.choice([0.0, 0.2, 0.5, 0.8, 1.0])
        every = rng.choice([1, 2, 3, 5, 0])
        mode = rng.choice(MODES)
        turns, reals = [], []
        t0 = rng.choice([0, 1, 7])
        for k in range(n):
            d, real = _gen_common(rng)
            d["enabled"] = rng.random() >= p_kill
            if rng.random() < 0.8:  # mostly a stable configuration, sometimes changing mid-history
                d["every"], real["mode"], d["bust"] = every, mode, mode == "on-apply"
            if rng.random() < 0.85:
                d["turn"] = t0 + k
            real["en_form"] = rng.randrange(3)
            turns.append(d)
            reals.append(real)
        vk = rng.choice(["absent", "num", "num", "junk"])
        ver = {"k": vk}
        if vk == "num":
            ver["n"] = rng.choice([0, 1, 5, 41, -2])
        cm = None if rng.random() < 0.1 else [[k, rng.choice([0, 1, 3])] for k in range(len(NS))]
        return {"init": {"ver": ver, "cm": cm, "snap": None, "calls": [], "t4recs": 0, "applyRecs": []},
                "turns": turns, "real": {"turns": reals, "ver_form": rng.randrange(5), "state": rng.choice(["dict", "attr"]),
                                         "drv": {"orch": rng.choice(ORCH_MODES), "ctx": rng.choice(CTX_MODES)}}}

    def corpus(self, ctx: Ctx) -> List[dict]:
        """Corpus + small-scope enumeration: EVERY on/off pattern of each per-turn gate (kill switch, cache-bust
        mode, snapshot cadence) over <= 4 turns (quick) / <= 6 turns (thorough), each driven with one long-lived
        Orchestrator + ctx edited in place, and (thorough) with every other driver combination."""
        cases = list(ctx.load_corpus(self.name))
        quick = ctx.tier == "quick"
        nmax = 4 if quick else 6
        drivers = [("shared", "inplace"), ("shared", "fresh")] if quick else [(o, c) for o in ORCH_MODES for c in CTX_MODES]
        for gate in ("enabled", "bust", "every"):
            for n in range(1, nmax + 1):
                for pat in itertools.product([True, False], repeat=n):
                    if gate != "enabled" and (n < 2 or len(set(pat)) < 2):
                        continue
                    for (om, cmode) in (drivers if gate == "enabled" else drivers[:1]):
                        turns, reals = [], []
                        for k, bit in enumerate(pat):
                            turns.append({"enabled": bit if gate == "enabled" else True, "store": "fn", "turn": k,
                                          "every": (1 if bit else 1000) if gate == "every" else 2,
                                          "bust": bit if gate == "bust" else True, "namespaces": None, "cmFault": None,
                                          "deltas": [k % 3, (k + 1) % 3],
                                          "script": [["raise"], ["ret", 1, 0]] if k % 2 else [["ret", 2, 0]]})
                            reals.append({"mode": "on-apply" if turns[-1]["bust"] else "none"})
                        cases.append({"init": {"ver": {"k": "num", "n": 10}, "cm": [[k, 1] for k in range(len(NS))], "snap": None,
                                               "calls": [], "t4recs": 0, "applyRecs": []},
                                      "turns": turns, "real": {"turns": reals, "state": "dict", "drv": {"orch": om, "ctx": cmode}}})
        return cases

    def request(self, case: dict) -> dict:
        return {"c": "apply.hist", "init": case["init"], "turns": case["turns"]}

    def impl(self, case: dict) -> Any:
        import clematis.engine.orchestrator as orch
        from clematis.engine.orchestrator import core
        from clematis.engine.types import T4Result
        real = case.get("real", {})
        snapdir = Path(self.scratch) / "hist"
        snapdir.mkdir(exist_ok=True)
        for p in snapdir.iterdir():
            p.unlink()
        snapfile = snapdir / "state_A.json"
        nd = max([max(t["deltas"], default=-1) for t in case["turns"]] + [-1]) + 1
        pool = _pool(nd)
        ids = {id(p): k for k, p in enumerate(pool)}
        idx_of = lambda d: ids.get(id(d), 10 ** 6)
        all_calls: List[List[int]] = []
        cur: dict = {}
        logs: List[Tuple[str, dict]] = []
        holder = {"n": 0, "fault": None}
        init = case["init"]
        cm = _mk_cm(init["cm"], holder) if init["cm"] is not None else None
        vval = _ver_val(init["ver"], real.get("ver_form", 0))
        if real.get("state") == "attr":
            state: Any = SimpleNamespace(store=None, version_etag=vval, _cache_mgr=cm)
        else:
            state = {"store": None, "_cache_mgr": cm}
            if vval is not None:
                state["version_etag"] = vval

        def sset(k, v):
            if isinstance(state, dict):
                state[k] = v
            else:
                setattr(state, k, v)

        def sget(k):
            return state.get(k) if isinstance(state, dict) else getattr(state, k, None)

        saved = {name: getattr(orch, name, None) for name in ("append_jsonl", "t1_propagate", "t2_semantic", "t4_filter")}
        saved_core_t4 = core.t4_filter
        t4_calls = []

        def fake_t4(ctx_, state_, t1, t2, plan, utter):
            t4_calls.append(1)
            return T4Result(approved_deltas=[pool[k] for k in cur["deltas"]], rejected_ops=[], reasons=[], metrics={})

        orch.append_jsonl = lambda name, payload: logs.append((name, payload))
        orch.t1_propagate = lambda ctx_, state_, text: SimpleNamespace(metrics={})
        orch.t2_semantic = lambda ctx_, state_, text, t1: SimpleNamespace(metrics={}, retrieved=[])
        orch.t4_filter = fake_t4
        core.t4_filter = fake_t4
        states = []
        crash = None
        ver_desc = dict(init["ver"])
        prev_v = vval
        drv = real.get("drv") or {}
        shared_orch = core.Orchestrator() if drv.get("orch") == "shared" else None
        live_t4: dict = {}
        live_cfg = SimpleNamespace(t4=live_t4, t3={"enabled": False})
        live_ctx = SimpleNamespace(agent_id="A", config=live_cfg)
        try:
            for k, t in enumerate(case["turns"]):
                rl = (real.get("turns") or [{}] * len(case["turns"]))[k]
                cur["deltas"] = t["deltas"]
                store = _mk_store(t["store"], t["script"], rl, idx_of, t.get("exportMode", "absent"), t.get("wMode", "absent"))
                sset("store", store)
                holder["n"], holder["fault"] = 0, t["cmFault"]
                t4cfg = _t4_cfg(t, rl, str(snapdir))
                # a cache block without `enabled` keeps the orchestrator's default (True); the manager is pre-installed
                ef = rl.get("en_form", 0)
                if t["enabled"]:
                    if ef != 2:
                        t4cfg["enabled"] = True if ef == 0 else 1
                else:
                    t4cfg["enabled"] = False if ef != 1 else 0
                if cm is None:
                    t4cfg.setdefault("cache", {})["enabled"] = False
                cmode = drv.get("ctx", "fresh")
                if cmode == "fresh":
                    ctx = SimpleNamespace(agent_id="A", turn_id=_turn_val(t["turn"], rl.get("turn_form", 0)),
                                          config=SimpleNamespace(t4=t4cfg, t3={"enabled": False}))
                else:
                    ctx = live_ctx
                    ctx.turn_id = _turn_val(t["turn"], rl.get("turn_form", 0))
                    if cmode == "inplace":      # same ctx, same config object, same t4 dict: keys edited in place
                        live_t4.clear()
                        live_t4.update(t4cfg)
                    elif cmode == "replace_t4":  # same ctx and config object, new t4 dict
                        live_cfg.t4 = t4cfg
                    else:                        # same ctx, new config object
                        ctx.config = SimpleNamespace(t4=t4cfg, t3={"enabled": False})
                try:
                    if shared_orch is not None:
                        shared_orch.run_turn(ctx, state, f"input text {k}")
                    else:
                        orch.run_turn(ctx, state, f"input text {k}")
                except Exception as e:
                    crash = f"turn {k}: {type(e).__name__}: {e}"[:300]
                    break
                if isinstance(store, ScriptedStore):
                    all_calls.extend(store.calls)
                v = sget("version_etag")
                if not (v is prev_v or (type(v) is type(prev_v) and v == prev_v)):
                    if isinstance(v, str) and re.fullmatch(r"-?\d+", v):
                        ver_desc = {"k": "num", "n": int(v)}
                    elif v is None:
                        ver_desc = {"k": "absent"}
                    else:
                        ver_desc = {"k": "junk", "repr": repr(v)[:40]}
                    prev_v = v
                snap = None
                if snapfile.exists():
                    try:
                        sj = json.loads(snapfile.read_text())
                        snap = {"version": str(sj.get("version_etag")), "applied": sj.get("applied"),
                                "deltas": [int(d.get("op_idx")) for d in sj.get("deltas", [])]}
                    except Exception as e:
                        snap = {"version": f"!unreadable {type(e).__name__}", "applied": 0, "deltas": []}
                recs = [{"version": str(p.get("version_etag")), "applied": p.get("applied"), "clamps": p.get("clamps"),
                         "invalidated": p.get("cache_invalidations"), "snapshot": p.get("snapshot") is not None}
                        for nme, p in logs if nme == "apply.jsonl"]
                states.append({"ver": dict(ver_desc), "cm": _sizes(cm, range(len(NS))) if cm is not None else None, "snap": snap,
                               "calls": [list(c) for c in all_calls], "t4recs": sum(1 for nme, _ in logs if nme == "t4.jsonl"),
                               "applyRecs": recs, "t4_calls": len(t4_calls)})
        finally:
            for name, val in saved.items():
                if val is not None:
                    setattr(orch, name, val)
            core.t4_filter = saved_core_t4
        return {"states": states, "crash": crash}

    def compare(self, case, impl_out, model_out):
        if not isinstance(model_out, list):
            return f"model error {model_out}"
        if "__raised__" in impl_out:
            return f"harness adapter raised {impl_out}"
        from harness.core import _canon, first_diff
        a = [{k: v for k, v in s.items() if k != "t4_calls"} for s in impl_out["states"]]
        a, b = _canon(a), _canon(model_out[:len(a)] if impl_out.get("crash") else model_out)
        return None if a == b else first_diff(a, b)

    def _lean_ok(self, s: dict) -> bool:
        if s["ver"].get("k") == "junk" and "repr" in s["ver"]:
            return False
        if s["snap"] is not None and not re.fullmatch(r"-?\d+", s["snap"]["version"]):
            return False
        for r in s["applyRecs"]:
            if not re.fullmatch(r"-?\d+", r["version"]) or not all(isinstance(r[k], int) and not isinstance(r[k], bool)
                                                                   for k in ("applied", "clamps", "invalidated")):
                return False
            if r["invalidated"] < 0:
                return False
        return True

    def monitor_requests(self, case, io):
        sts = io["states"]
        if not sts or not all(self._lean_ok(s) for s in sts):
            return []
        clean = [{k: v for k, v in s.items() if k != "t4_calls"} for s in sts]
        return [(name, {"c": "apply.histspec", "clause": clause, "init": case["init"], "turns": case["turns"][:len(sts)],
                        "states": clean})
                for name, clause in (("turn_step", "turns"), ("version_history", "version_history"))]

    def monitors(self, case, io):
        res = [("total", io.get("crash") is None, f"run_turn raised: {io.get('crash')}"),
               ("wellformed", all(self._lean_ok(s) for s in io["states"]), "version/apply records not of the documented types")]
        n_en = 0
        for t, s in zip(case["turns"], io["states"]):
            n_en += 1 if t["enabled"] else 0
            if s["t4_calls"] != n_en:
                res.append(("t4_called_iff_enabled", False, f"t4_filter called {s['t4_calls']} times after {n_en} committed turns"))
                break
        return res

    def tags(self, case, io):
        t = set()
        ens = [x["enabled"] for x in case["turns"]]
        if not all(ens):
            t.add("kill_switch")
        if any(ens) and not all(ens):
            t.add("kill_toggle")
        if any(a != b for a, b in zip(ens, ens[1:])):
            t.add("toggle_mid_history")
        sts = io.get("states") or []
        if any(s["snap"] is not None for s in sts):
            t.add("snapshot")
        if any(r["invalidated"] for s in sts[-1:] for r in s["applyRecs"]):
            t.add("invalidate")
        if any(tt["enabled"] and tt["store"] == "fn" and tt["script"] and tt["script"][0][0] == "raise" for tt in case["turns"]):
            t.add("fallback")
        if len(case["turns"]) >= 8:
            t.add("long")
        drv = (case.get("real") or {}).get("drv") or {}
        if drv.get("orch") == "shared":
            t.add("one_orchestrator_instance")
        if drv.get("ctx", "fresh") != "fresh":
            t.add("long_lived_ctx:" + drv["ctx"])
        return sorted(t) or ["default"]

    def shrink(self, case):
        ts = case["turns"]
        rs = case.get("real", {}).get("turns") or [{}] * len(ts)
        for i in range(len(ts)):
            yield dict(case, turns=ts[:i] + ts[i + 1:], real=dict(case.get("real", {}), turns=rs[:i] + rs[i + 1:]))


class _KeyStore:
    """Recording store for the T4 -> Apply stream: keeps the objects it was handed."""

    def __init__(self, script):
        self.script = list(script)
        self.batches: List[list] = []
        self.n = 0

    def apply_deltas(self, graph_id, deltas):
        self.batches.append(list(deltas))
        k = self.n
        self.n += 1
        o = self.script[k] if k < len(self.script) else ["ret", len(deltas), 0]
        if o[0] == "raise":
            raise EXC[k % len(EXC)]("scripted store failure")
        return {"edits": o[1], "clamps": o[2]}


def _ckey(d) -> str:
    return f"{d.target_kind}:{d.target_id}:{d.attr}"


class T4ApplyComp(Component):
    """Composition stream: REAL `t4_filter` output (churn-cap trimming, more distinct targets than the
    cap, magnitudes not in key order) fed to REAL `apply_changes` — directly and through `run_turn`
    histories — with a recording store.  Monitor (Lean `canonHandoffB`): the batch the store received
    equals T4's approved list and is sorted by the canonical key; re-submissions keep that order."""
    name = "t4apply"
    budget = {"quick": 300, "thorough": 4000, "search": 4000}
    scratch: Optional[Path] = None
    IDS = ["n:a", "n:b", "n:B", "n:a1", "n:a10", "n:a2", "n:z", "n:", "e:a|r|b", "e:a|r|c", "e:b|r|a", "n:ab", "n:a:b", "n:é"]

    def gen(self, rng: random.Random, i: int) -> dict:
        turns = []
        for _ in range(rng.choice([1, 1, 2, 4])):
            nt = rng.choice([2, 3, 4, 6, 8, 12])
            ids = rng.sample(self.IDS, min(nt, len(self.IDS)))
            # magnitudes in micro-units (ints: replay files must not contain raw floats)
            mags = [rng.choice([10000, 50000, 100000, 200000, 250000, 300000, 500000, 900000]) * rng.choice([1, -1]) + rng.randrange(1000)
                    for _ in ids]
            if rng.random() < 0.25:
                mags = [mags[0]] * len(ids)  # all ties: rank order == key order
            ds = [[rng.choice(["node", "edge"]), t, rng.choice(["weight", "weight", "bias"]), m, rng.randrange(3)]
                  for t, m in zip(ids, mags)]
            if rng.random() < 0.3 and ds:
                ds.append(list(rng.choice(ds)))  # duplicate target: combined by T4
            rng.shuffle(ds)
            first = rng.choices([["ret", len(ds), 0], ["raise"], ["ret", None, 0]], [55, 35, 10])[0]
            turns.append({"deltas": ds, "churn": rng.choice([1, 2, 3, 3, 5, 64]), "l2_milli": rng.choice([10 ** 9, 10 ** 9, 1500, 200]),
                          "nov_milli": rng.choice([10 ** 9, 10 ** 9, 300]),
                          "script": [first] + [rng.choice([["ret", 1, 0], ["raise"]]) for _ in range(rng.randrange(0, 4))]})
        return {"mode": rng.choice(["direct", "run_turn"]), "turns": turns, "state": rng.choice(["dict", "attr"]),
                "orch": rng.choice(ORCH_MODES)}

    def request(self, case: dict) -> dict:
        return {"c": "const", "v": True}

    def impl(self, case: dict) -> Any:
        from clematis.engine.types import ProposedDelta
        from clematis.engine.stages import t4 as t4mod
        from clematis.engine import apply as ap
        import clematis.engine.orchestrator as orch
        from clematis.engine.orchestrator import core
        snapdir = Path(self.scratch) / "t4apply"
        snapdir.mkdir(exist_ok=True)
        real_t4 = t4mod.t4_filter
        state: Any = {"store": None} if case.get("state") != "attr" else SimpleNamespace(store=None, version_etag=None)
        out_turns = []
        logs: list = []
        cur: dict = {}
        seen: dict = {}

        def wrapped_t4(ctx_, state_, t1, t2, plan, utter):
            r = real_t4(ctx_, state_, t1, t2, cur["plan"], utter)
            seen["t4"] = r
            return r

        saved = {name: getattr(orch, name, None) for name in ("append_jsonl", "t1_propagate", "t2_semantic", "t4_filter")}
        saved_core = core.t4_filter
        shared_orch = core.Orchestrator() if case.get("orch") == "shared" else None
        try:
            if case["mode"] == "run_turn":
                orch.append_jsonl = lambda name, payload: logs.append(name)
                orch.t1_propagate = lambda ctx_, state_, text: SimpleNamespace(metrics={})
                orch.t2_semantic = lambda ctx_, state_, text, t1: SimpleNamespace(metrics={}, retrieved=[])
                orch.t4_filter = wrapped_t4
                core.t4_filter = wrapped_t4
            for k, t in enumerate(case["turns"]):
                plan = {"ops": [{"kind": "EditGraph"}] * 3,
                        "deltas": [ProposedDelta(target_kind=d[0], target_id=d[1], attr=d[2], delta=d[3] / 1e6, op_idx=d[4], idx=j)
                                   for j, d in enumerate(t["deltas"])]}
                store = _KeyStore(t["script"])
                if isinstance(state, dict):
                    state["store"] = store
                else:
                    state.store = store
                t4cfg = {"enabled": True, "delta_norm_cap_l2": t["l2_milli"] / 1000.0, "novelty_cap_per_node": t["nov_milli"] / 1000.0, "churn_cap_edges": t["churn"],
                         "snapshot_every_n_turns": 2, "snapshot_dir": str(snapdir), "cooldowns": {}, "cache": {"enabled": False}}
                ctx = SimpleNamespace(turn_id=k, agent_id="A", config=SimpleNamespace(t4=t4cfg, t3={"enabled": False}))
                seen.clear()
                cur["plan"] = plan
                crash = None
                try:
                    if case["mode"] == "run_turn":
                        if shared_orch is not None:
                            shared_orch.run_turn(ctx, state, f"text {k}")
                        else:
                            orch.run_turn(ctx, state, f"text {k}")
                        t4res = seen.get("t4")
                    else:
                        t4res = real_t4(ctx, state, None, None, plan, None)
                        ap.apply_changes(ctx, state, t4res)
                except Exception as e:
                    crash = f"{type(e).__name__}: {e}"[:200]
                    t4res = seen.get("t4")
                approved = list(getattr(t4res, "approved_deltas", []) or []) if t4res is not None else []
                same_objs = bool(store.batches) and len(store.batches[0]) == len(approved) and \
                    all(a is b for a, b in zip(store.batches[0], approved))
                out_turns.append({"approved": [_ckey(d) for d in approved], "calls": [[_ckey(d) for d in b] for b in store.batches],
                                  "same_objects": same_objs, "crash": crash,
                                  "reasons": list(getattr(t4res, "reasons", []) or []) if t4res is not None else [],
                                  "mags": [abs(float(d.delta)) for d in approved]})
        finally:
            for name, val in saved.items():
                if val is not None:
                    setattr(orch, name, val)
            core.t4_filter = saved_core
        return {"turns": out_turns}

    def compare(self, case, impl_out, model_out):
        if "__raised__" in impl_out:
            return f"harness adapter raised {impl_out}"
        return None

    def monitor_requests(self, case, io):
        return [("canonical_order", {"c": "apply.canon", "approved": t["approved"], "calls": t["calls"]})
                for t in io["turns"] if t["crash"] is None]

    def monitors(self, case, io):
        res = []
        for k, t in enumerate(io["turns"]):
            res.append(("total", t["crash"] is None, f"turn {k} raised {t['crash']}"))
            if t["crash"] is None:
                res.append(("batch_is_approved", t["same_objects"], f"turn {k}: the batch is not the approved list object-for-object"))
        return res

    def tags(self, case, io):
        t = set()
        for tt in io.get("turns", []):
            if "CHURN_CAP_HIT" in tt["reasons"]:
                t.add("churn_trim")
                m = tt["mags"]
                if len(m) > 1 and any(a < b for a, b in zip(m, m[1:])):
                    t.add("key_order_differs_from_magnitude_rank")
            if len(tt["calls"]) > 1:
                t.add("fallback")
            if "DELTA_NORM_HIGH" in tt["reasons"] or "NOVELTY_SPIKE" in tt["reasons"]:
                t.add("scaled_or_clamped")
        if case["mode"] == "run_turn":
            t.add("via_run_turn")
            if len(case["turns"]) > 1:
                t.add("history")
        return sorted(t) or ["default"]

    def shrink(self, case):
        ts = case["turns"]
        for i in range(len(ts)):
            if len(ts) > 1:
                yield dict(case, turns=ts[:i] + ts[i + 1:])
            ds = ts[i]["deltas"]
            for j in range(len(ds)):
                yield dict(case, turns=ts[:i] + [dict(ts[i], deltas=ds[:j] + ds[j + 1:])] + ts[i + 1:])


COMPONENTS = [ApplyComp(), HistComp(), T4ApplyComp()]


def _prepare(ctx: Ctx) -> None:
    d = ctx.tmpdir("c04")
    for comp in COMPONENTS:
        comp.scratch = d


def run(ctx: Ctx) -> None:
    _prepare(ctx)
    for comp in COMPONENTS:
        run_component(ctx, comp)


def replay(ctx: Ctx, rec: dict) -> int:
    from harness.core import generic_replay
    _prepare(ctx)
    return generic_replay(ctx, rec, {c.name: c for c in COMPONENTS})
