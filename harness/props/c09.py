"""C09 — stage-level parallelism is indistinguishable from sequential execution.

Components
  par        real `run_parallel` with `ThreadPoolExecutor` replaced (inside the real module) by an executor that
             completes futures in a prescribed order π; model `Clem.Par.runParallel`; Lean monitor `par.mon`
             (implementation output == schedule-free `spec`).  Exhaustive small scopes in `run`.
  t1fan      real `t1_propagate` on generated multi-graph worlds, parallel (prescribed π, plus a real pool) vs
             sequential; per-graph results measured on the real code feed the model `Clem.ParT1`.
  shards     real `InMemoryIndex._iter_shards_for_t2` vs `Clem.ParT2.iterShards`; Lean monitor `partitionB`.
  qscore     real `_qscore` vs `Clem.ParT2.qscoreF` (explicit half-even) on boundary floats.
  merge      real `merge_tier_hits_across_shards_dict` vs `Clem.ParT2.mergeTierHits`; Lean monitor `mergeOkB`.
  t2e2e      real `t2_semantic` end to end, parallel vs sequential on generated memories (the deciding
             differential for T2), with a deterministic classifier for the two recorded findings.
"""
from __future__ import annotations

import itertools
import random
import sys
import threading
from concurrent.futures import Future
from types import SimpleNamespace
from typing import Any, Dict, List, Optional, Tuple

from harness.core import Component, Ctx, f2b, run_component, run_driver, _canon, first_diff

RULE = ("task lists (0..8 tasks, duplicate order keys, every subset of failing tasks) x worker counts (-1..9) x completion "
        "orders (all permutations up to 5 tasks in thorough / 4 in quick, sampled beyond); multi-graph T1 worlds and "
        "T2 memories with near-tie scores, duplicate clusters, owner scopes, tier permutations; one seeded PRNG per component; "
        "non-trivial = at least one of: failure, duplicate order key, non-identity completion order, >1 shard, k-cut, dedupe")
ASSUMPTIONS = [
    "task thunks and merge_fn are pure; exceptions are subclasses of Exception (BaseException escapes, not modelled)",
    "every submitted future completes (the completion order covers all task indices)",
    "order keys are totally ordered values (ints / tuples of int and str)",
    "Future.result() returns the value or re-raises the exception set by the worker (ThreadPoolExecutor semantics)",
]
CLAIM = {
    "text": ("Unbounded Lean theorems about the executable model of run_parallel (executor = arbitrary completion order pi): the result "
             "equals a schedule-free reference for every pi, worker count, order key and merge; = merge of all results stably sorted by "
             "order key; = plain loop for <=1 worker (first failure only) and for any worker count when nothing fails; with >1 worker every "
             "failure is reported, sorted, and merge is not called.  T1 fan-out with a pure per-graph function equals the sequential fold "
             "(deltas, all counters, max_delta).  Shards are a contiguous partition; top-k of the union from per-shard top-k's for any one "
             "linear key (unbounded), single-tier merge = sequential ranking under that hypothesis; a machine-checked witness shows the "
             "_qscore-vs-raw-score discrepancy.  Tied to the code by exact differential execution of the same definitions against the real "
             "functions under a prescribed-completion-order executor, and by the seq-vs-par differential on the real T1/T2."),
    "note": ("The per-graph T1 function, cosine scores and the index's tier filters are parameters/oracles (measured on the real code). "
             "T2: Lean covers shards, _qscore, the merge with its key (-_qscore, -raw, id), _rank_by_cosine (sort, one entry per id, cut) and "
             "the full par = seq walk theorem for any tiers / shards / k with repeated ids (C09_T2_par_eq_seq, hypothesis: the quantiser is "
             "monotone); the cluster tier's choice of clusters over the whole index is covered by the real seq-vs-par differential only. "
             "seqWalk / mergeTierHits / rankU are replayed by the driver on what the real index returned. Real thread pools under "
             "switch-interval jitter are supporting stress only. Former findings (cluster tier per shard, _qscore tie at the k cut, "
             "re-added ids cut before de-duplication) are repaired by proposed_fixes/C09_t2_*.diff; their inputs are corpus regressions."),
    "technique": "Lean 4 permutation/induction proofs over an executor-with-oracle model + exact correspondence + real seq-vs-par differential",
    "design_ref": "DESIGN.md §4 C09",
}
DRIVER_MODULES = ["HPar"]
MODELLED = {
    "clematis/engine/util/parallel.py": ["run_parallel"],
    "clematis/engine/stages/t1.py": ["t1_propagate", "_t1_parallel_enabled"],
    "clematis/memory/index.py": ["InMemoryIndex._iter_shards_for_t2", "InMemoryIndex._rank_by_cosine"],
    "clematis/engine/stages/t2/shard.py": ["_qscore", "merge_tier_hits_across_shards_dict"],
    "clematis/engine/stages/t2/parallel.py": ["collect_shard_hits", "t2_parallel_enabled"],
}
TRUSTED = ["modelled, not verified: concurrent.futures Future/executor semantics, real preemption points, CPython sorted() stability; "
           "cosine scores / index tier search / per-graph T1 function enter as oracles measured on the real code"]

K_CLUSTER = "C09:t2:cluster-tier-per-shard"
K_QTIE = "C09:t2:qscore-tie-at-k-cut"
K_T2DIFF = "C09:t2:par-differs-from-seq"
K_DUPID = "C09:t2:duplicate-id-topk-before-dedupe"


# --------------------------------------------------------------------------------------------
# an executor that completes futures in a prescribed order
# --------------------------------------------------------------------------------------------

class _LazyFuture(Future):
    def __init__(self, owner):
        super().__init__()
        self._owner = owner

    def result(self, timeout=None):
        self._owner._complete_all()
        return super().result(timeout)


def prescribed_executor(pi: List[int], log: Optional[list] = None):
    """Class usable in place of ThreadPoolExecutor: thunks run (and futures complete) in order `pi`
    (indices not listed run afterwards in submit order) the first time any result is requested."""

    class _Exec:
        def __init__(self, max_workers=None, thread_name_prefix=""):
            self.max_workers = max_workers
            self._subs: List[Tuple[Any, _LazyFuture]] = []
            self._done = False
            if log is not None:
                log.append(("workers", max_workers))

        def __enter__(self):
            return self

        def __exit__(self, *a):
            self._complete_all()
            return False

        def submit(self, fn, *a, **kw):
            fut = _LazyFuture(self)
            self._subs.append((lambda: fn(*a, **kw), fut))
            return fut

        def _complete_all(self):
            if self._done:
                return
            self._done = True
            self._completion_order = []
            n = len(self._subs)
            order = [i for i in pi if 0 <= i < n]
            order += [i for i in range(n) if i not in order]
            for i in order:
                fn, fut = self._subs[i]
                self._completion_order.append(fut)
                try:
                    fut.set_result(fn())
                except Exception as e:  # noqa: BLE001  (what a worker thread does)
                    fut.set_exception(e)

    return _Exec


class _patched_pool:
    def __init__(self, pi, log=None):
        self.pi, self.log = pi, log

    def __enter__(self):
        import clematis.engine.util.parallel as par
        self.par = par
        self.orig = par.ThreadPoolExecutor
        par.ThreadPoolExecutor = prescribed_executor(self.pi, self.log)
        # code that collects with as_completed()/wait() instead of fut.result() must see the same
        # prescribed completion order (a lazily completed future would otherwise block for ever)
        self.saved = {}

        def _as_completed(fs, timeout=None):
            fs = list(fs)
            for f in fs:
                if isinstance(f, _LazyFuture):
                    f._owner._complete_all()
            owners = [f._owner for f in fs if isinstance(f, _LazyFuture)]
            order = [f for o in dict.fromkeys(owners) for f in getattr(o, "_completion_order", [])]
            rank = {id(f): i for i, f in enumerate(order)}
            return iter(sorted(fs, key=lambda f: rank.get(id(f), len(rank))))

        def _wait(fs, timeout=None, return_when="ALL_COMPLETED"):
            fs = list(fs)
            for f in fs:
                if isinstance(f, _LazyFuture):
                    f._owner._complete_all()
            import collections
            return collections.namedtuple("DoneAndNotDoneFutures", "done not_done")(set(fs), set())

        for name, fake in (("as_completed", _as_completed), ("wait", _wait)):
            if hasattr(par, name):
                self.saved[name] = getattr(par, name)
                setattr(par, name, fake)

    def __exit__(self, *a):
        self.par.ThreadPoolExecutor = self.orig
        for name, orig in self.saved.items():
            setattr(self.par, name, orig)
        return False


class _AD(dict):
    def __getattr__(self, n):
        try:
            return self[n]
        except KeyError as e:
            raise AttributeError(n) from e


def _ad(o):
    if isinstance(o, dict):
        return _AD({k: _ad(v) for k, v in o.items()})
    if isinstance(o, list):
        return [_ad(v) for v in o]
    return o


def _cfg(raw: dict):
    from configs.validate import validate_config
    return _ad(validate_config(raw))


# --------------------------------------------------------------------------------------------
# run_parallel
# --------------------------------------------------------------------------------------------

OKEYS = {"id": lambda k: k, "neg": lambda k: -k, "mod2": lambda k: k % 2, "const": lambda k: 0,
         "div2": lambda k: k // 2,
         # non-integer order keys: strings ("10" < "2") and tuples
         "str": lambda k: str(k), "tup": lambda k: (k % 3, str(k)), "postup": lambda k: (k, str(k))}
EXC = {"ValueError": ValueError, "KeyError": KeyError, "RuntimeError": RuntimeError, "ZeroDivisionError": ZeroDivisionError}


def _exc_msg(tname: str, msg: str) -> str:
    return str(EXC[tname](msg))


class ParComp(Component):
    name = "par.run"
    budget = {"quick": 1500, "thorough": 20000, "search": 40000}

    def gen(self, rng: random.Random, i: int) -> dict:
        n = rng.choice([0, 1, 2, 3, 3, 4, 4, 5, 5, 6, 8, 11, 12, 17, 24, 30])
        keyspace = rng.choice([2, 3, 10, 40])
        tasks = []
        pfail = rng.choice([0.0, 0.0, 0.2, 0.5, 1.0]) if n <= 8 else rng.choice([0.0, 0.0, 0.0, 0.1, 0.3])
        positional = rng.random() < 0.3        # keys = submit index (distinct positional keys)
        for t in range(n):
            k = t if positional else rng.randrange(-keyspace, keyspace)
            if rng.random() < pfail:
                tn = rng.choice(sorted(EXC))
                tasks.append([k, "err", tn, rng.choice(["", "boom", "x"])])
            else:
                tasks.append([k, "ok", rng.randrange(100)])
        pi = list(range(n))
        r = rng.random()
        if r < 0.6:
            rng.shuffle(pi)
        elif r < 0.75:
            pi.reverse()
        return {"okey": rng.choice(sorted(OKEYS)), "w": rng.choice([-1, 0, 1, 2, 2, 3, 4, 5, 8, 9]), "tasks": tasks, "pi": pi}

    def impl(self, case: dict) -> Any:
        from clematis.engine.util.parallel import run_parallel, ParallelError
        calls = []

        def mk(t):
            if t[1] == "ok":
                return lambda: t[2]

            def boom():
                raise EXC[t[2]](t[3])
            return boom

        def merge(pairs):
            calls.append(1)
            return [[k, r] for k, r in pairs]

        tasks = [(t[0], mk(t)) for t in case["tasks"]]
        log: list = []
        with _patched_pool(case["pi"], log):
            try:
                out = {"ok": run_parallel(tasks, max_workers=case["w"], merge_fn=merge, order_key=OKEYS[case["okey"]])}
            except ParallelError as e:
                out = {"err": [[te.key, te.exc_type, te.message] for te in e.errors]}
        out["_merge_calls"] = len(calls)
        return out

    def request(self, case):
        tasks = [t if t[1] == "ok" else [t[0], "err", t[2], _exc_msg(t[2], t[3])] for t in case["tasks"]]
        return {"c": "par.run", "okey": case["okey"], "w": case["w"], "tasks": tasks, "pi": case["pi"]}

    def compare(self, case, impl_out, model_out):
        if isinstance(impl_out, dict):
            impl_out = {k: v for k, v in impl_out.items() if not k.startswith("_")}
        return super().compare(case, impl_out, model_out)

    def monitor_requests(self, case, impl_out):
        rq = self.request(case)
        rq["c"] = "par.mon"
        rq["out"] = {k: v for k, v in impl_out.items() if not k.startswith("_")}
        return [("eq_spec", rq)]

    def monitors(self, case, impl_out):
        res = []
        nfail = sum(1 for t in case["tasks"] if t[1] == "err")
        if "err" in impl_out:
            res.append(("merge_not_called_on_error", impl_out["_merge_calls"] == 0, f"merge calls {impl_out['_merge_calls']}"))
            want = nfail if case["w"] > 1 else 1
            res.append(("all_failures_listed", len(impl_out["err"]) == want, f"{len(impl_out['err'])} of {nfail} listed, w={case['w']}"))
            ks = [OKEYS[case["okey"]](e[0]) for e in impl_out["err"]]
            res.append(("errors_key_sorted", ks == sorted(ks), f"order keys {ks}"))
        else:
            res.append(("no_failure_swallowed", nfail == 0, f"{nfail} failing tasks but a value was returned"))
            ks = [OKEYS[case["okey"]](p[0]) for p in impl_out["ok"]]
            res.append(("merge_input_key_sorted", ks == sorted(ks), f"order keys {ks}"))
            # ordering clause: distinct order keys that increase with the submit position => merge input = submit order
            sub = [OKEYS[case["okey"]](t[0]) for t in case["tasks"]]
            if nfail == 0 and all(a < b for a, b in zip(sub, sub[1:])):
                res.append(("merge_input_is_submit_order", [p[0] for p in impl_out["ok"]] == [t[0] for t in case["tasks"]],
                            f"keys handed to merge {[p[0] for p in impl_out['ok']]}"))
            res.append(("merge_called_once", impl_out["_merge_calls"] == 1, f"merge calls {impl_out['_merge_calls']}"))
            got = sorted((repr(tuple(p)) for p in impl_out["ok"]))
            want = sorted(repr((t[0], t[2])) for t in case["tasks"] if t[1] == "ok")
            res.append(("all_results_merged", got == want, "merged pairs are not the multiset of task results"))
        return res

    def tags(self, case, impl_out):
        t = set()
        if "err" in impl_out:
            t.add("failure")
            if len(impl_out["err"]) > 1:
                t.add("multi_failure")
        ks = [OKEYS[case["okey"]](x[0]) for x in case["tasks"]]
        if len(set(ks)) < len(ks):
            t.add("dup_order_key")
        if case["pi"] != list(range(len(case["tasks"]))) and case["w"] > 1:
            t.add("permuted_completion")
        if case["w"] <= 1 and case["tasks"]:
            t.add("one_worker")
        if len(case["tasks"]) > 10:
            t.add("tasks>10")
        if case["okey"] in ("str", "tup", "postup"):
            t.add("nonint_order_key")
        if len(ks) > 1 and all(a < b for a, b in zip(ks, ks[1:])):
            t.add("positional_keys")
        return sorted(t) or ["default"]

    def shrink(self, case):
        ts = case["tasks"]
        for i in range(len(ts)):
            nt = ts[:i] + ts[i + 1:]
            yield dict(case, tasks=nt, pi=[p for p in range(len(nt))])
        yield dict(case, pi=list(range(len(ts))))


def _exhaustive_par(ctx: Ctx, comp: ParComp) -> None:
    """all permutations x all failure subsets x worker counts for small n (supporting enumeration)."""
    nmax = 5 if ctx.tier in ("thorough", "search") else 4
    workers = list(range(0, 9)) if ctx.tier in ("thorough", "search") else [0, 1, 2, 3, 8]
    rng = ctx.rng_for("par.exh")
    cases = []
    for n in range(0, nmax + 1):
        keys = [rng.randrange(0, 3) for _ in range(n)]
        okey = rng.choice(["id", "mod2", "const", "neg"])
        perms = list(itertools.permutations(range(n)))
        for mask in range(2 ** n):
            tasks = [[keys[i], "err", "ValueError", f"t{i}"] if (mask >> i) & 1 else [keys[i], "ok", 10 + i] for i in range(n)]
            for w in workers:
                ps = perms if w > 1 else perms[:1]
                if n == 5 and ctx.tier == "thorough" and w not in (2, 5, 8):
                    ps = ps[::7]
                for p in ps:
                    cases.append({"okey": okey, "w": w, "tasks": tasks, "pi": list(p)})
    outs = [comp.impl(c) for c in cases]
    resps = run_driver([comp.request(c) for c in cases])
    mons = run_driver([comp.monitor_requests(c, o)[0][1] for c, o in zip(cases, outs)])
    # schedule independence on the implementation: group by (tasks, w)
    groups: Dict[str, Any] = {}
    for c, o, rs, mr in zip(cases, outs, resps, mons):
        ctx.record_case("par.exh", c, comp.tags(c, o))
        mo = rs.get("ok", {"__model_err__": rs.get("err")})
        d = comp.compare(c, o, mo)
        if d is not None:
            ctx.mismatch("par.run", c, d, o, mo)
        if mr.get("ok") is not True:
            ctx.monitor_fail("par.run", "eq_spec", c, f"Lean monitor returned {mr}", o)
        for name, ok, detail in comp.monitors(c, o):
            if not ok:
                ctx.monitor_fail("par.run", name, c, detail, o)
        gk = repr((c["tasks"], c["w"], c["okey"]))
        pub = {k: v for k, v in o.items() if not k.startswith("_")}
        if gk in groups and groups[gk] != pub:
            ctx.monitor_fail("par.run", "schedule_independent", c, f"differs from another completion order: {pub} vs {groups[gk]}", o)
        groups.setdefault(gk, pub)
    ctx.extra.setdefault("exhaustive_scopes", {})["par.run"] = {
        "max_tasks": nmax, "workers": workers, "cases": len(cases),
        "scope": "all completion orders x all failure subsets x worker counts (n=5 thinned for some worker counts in thorough)"}


def _real_pool_stress(ctx: Ctx) -> None:
    """real ThreadPoolExecutor under switch-interval jitter (supporting)."""
    from clematis.engine.util.parallel import run_parallel, ParallelError
    rng = ctx.rng_for("par.real")
    old = sys.getswitchinterval()
    sys.setswitchinterval(1e-6)
    try:
        for it in range(40 if ctx.tier == "quick" else 300):
            n = rng.randrange(1, 9)
            w = rng.randrange(2, 9)
            spin = [rng.randrange(0, 400) for _ in range(n)]
            fail = [rng.random() < 0.25 for _ in range(n)]
            keys = [rng.randrange(0, 3) for _ in range(n)]

            def mk(i):
                def f():
                    x = 0
                    for _ in range(spin[i]):
                        x += 1
                    if fail[i]:
                        raise ValueError(f"t{i}")
                    return i
                return f
            tasks = [(keys[i], mk(i)) for i in range(n)]
            try:
                got = {"ok": run_parallel(tasks, max_workers=w, merge_fn=lambda ps: [list(p) for p in ps], order_key=lambda k: k)}
            except ParallelError as e:
                got = {"err": [[te.key, te.exc_type, te.message] for te in e.errors]}
            if any(fail):
                want = {"err": [[keys[i], "ValueError", f"t{i}"] for i in sorted((i for i in range(n) if fail[i]), key=lambda i: (keys[i], i))]}
            else:
                want = {"ok": [[keys[i], i] for i in sorted(range(n), key=lambda i: (keys[i], i))]}
            case = {"n": n, "w": w, "keys": keys, "fail": fail}
            ctx.record_case("par.realpool", case, ["real_pool"])
            if got != want:
                ctx.monitor_fail("par.run", "real_pool", case, f"got {got} want {want}", got)
    finally:
        sys.setswitchinterval(old)


# --------------------------------------------------------------------------------------------
# T1 fan-out
# --------------------------------------------------------------------------------------------

T1_MAIN = ["pops", "iters", "propagations", "radius_cap_hits", "layer_cap_hits", "node_budget_hits"]
T1_GATED = ["t1_frontier_evicted", "t1_dedup_hits", "t1_visited_evicted", "t1.cache_evictions", "t1.cache_bytes"]
# With the shared T1 cache on and a gid repeated in active_graphs, which occurrence hits the cache depends on the
# schedule (the documented impurity of the per-graph function; C05's exempt diagnostics).  A cache hit reports its
# gated work counters as 0, so those are hit/miss diagnostics as well.
T1_CACHE_DIAG = {"cache_hits", "cache_misses", "cache_used", "t1.cache_evictions", "t1.cache_bytes",
                 "t1_frontier_evicted", "t1_dedup_hits", "t1_visited_evicted"}
T1_PAR_DIAG = {"parallel_workers", "task_count"}


def _reset_t1_cache():
    import clematis.engine.stages.t1 as t1
    t1._T1_CACHE = None
    t1._T1_CACHE_CFG = None
    t1._T1_CACHE_KIND = None


class T1FanComp(Component):
    name = "par.t1"
    budget = {"quick": 700, "thorough": 12000, "search": 20000}
    WORDS = ["alpha", "beta", "gamma", "delta", "eps", "zeta"]

    def gen(self, rng: random.Random, i: int) -> dict:
        big = rng.random() < 0.25
        ng = rng.choice([11, 12, 13, 16, 21, 24]) if big else rng.choice([1, 2, 2, 3, 4, 6])
        # gid naming schemes whose lexicographic order differs from the numeric / positional one
        scheme = rng.choice(["mixed", "num", "gnum", "rev", "width"])
        graphs = []
        for g in range(ng):
            nn = rng.choice([1, 2, 3] if big else [0, 1, 2, 4, 6])
            nodes = [[f"n{g}_{j}" if rng.random() < 0.7 else f"n_{j}", rng.choice(self.WORDS + [""])] for j in range(nn)]
            edges = []
            for _ in range(rng.choice([0, nn, 2 * nn])):
                if nn:
                    a, b = rng.randrange(nn), rng.randrange(nn)
                    edges.append([nodes[a][0], nodes[b][0], rng.choice([1.0, 0.8, 0.5, 0.25, -0.5, 1e-7]),
                                  rng.choice(["supports", "associates", "contradicts", "other"])])
            gid = {"mixed": rng.choice([f"g{g}", f"G{g}", f"z{9 - g}"]) + f"_{g}", "num": str(g), "gnum": f"g{g}",
                   "rev": f"g{ng - g}", "width": f"{g:02d}" if g % 2 else f"g{g}"}[scheme]
            graphs.append({"gid": gid, "nodes": nodes, "edges": edges})
        active = list(range(ng))
        for _ in range(rng.choice([0, 0, 0, 1, 1, 3])):
            active.insert(rng.randrange(len(active) + 1), rng.randrange(ng))      # repeated gids
        r = rng.random()
        if r < 0.25:
            rng.shuffle(active)
        elif r < 0.35:
            active.reverse()
        elif r < 0.45:
            active.sort(key=lambda i: graphs[i]["gid"])          # lexicographic by gid
        elif r < 0.5:
            active = active[len(active) // 2:] + active[:len(active) // 2]   # rotation
        cache = rng.random() < 0.35
        perf = rng.random() < 0.6
        n = len(active)
        pi = list(range(n))
        if rng.random() < 0.75:
            rng.shuffle(pi)
        t1 = {"decay": rng.choice([{"mode": "exp_floor", "rate": 0.6, "floor": 0.05}, {"mode": "attn_quad", "alpha": 0.8}]),
              "cache": {"enabled": cache, "max_entries": rng.choice([1, 2, 512]), "ttl_s": 300},
              "queue_budget": rng.choice([1, 3, 10000]), "radius_cap": rng.choice([1, 2, 4]), "iter_cap": rng.choice([1, 2, 50]),
              "node_budget": rng.choice([0.5, 1.5])}
        caps = {}
        fr, vi, dw = rng.choice([0, 1, 2, 5]), rng.choice([0, 1, 3]), rng.choice([0, 1, 4])
        if fr:
            caps["frontier"] = fr
        if vi:
            caps["visited"] = vi
        pt1: Dict[str, Any] = {"caps": caps} if caps else {}
        if dw:
            pt1["dedupe_window"] = dw
        perfd = {"enabled": perf, "metrics": {"report_memory": rng.random() < 0.7}, "t1": pt1}
        text = " ".join(rng.sample(self.WORDS, rng.choice([0, 1, 2, 4])))
        return {"graphs": graphs, "active": active, "t1": t1, "perf": perfd, "text": text,
                "w": rng.choice([2, 2, 3, 4, 8, 16, 32]), "pi": pi, "real_pool": rng.random() < 0.15}

    # -- real code ---------------------------------------------------------------------------
    def _state(self, case, active):
        from clematis.graph.store import InMemoryGraphStore, Node, Edge
        store = InMemoryGraphStore()
        for g in case["graphs"]:
            store.ensure(g["gid"])
            store.upsert_nodes(g["gid"], [Node(id=n[0], label=n[1]) for n in g["nodes"]])
            store.upsert_edges(g["gid"], [Edge(id=f"e{j}", src=e[0], dst=e[1], weight=e[2], rel=e[3]) for j, e in enumerate(g["edges"])])
        return {"store": store, "active_graphs": [case["graphs"][i]["gid"] for i in active]}

    def _run(self, case, active, par: bool, pi=None, cache_off=False, real_pool=False):
        from clematis.engine.stages.t1 import t1_propagate
        t1 = dict(case["t1"])
        if cache_off:
            t1 = dict(t1, cache=dict(t1["cache"], enabled=False))
        perf = dict(case["perf"])
        perf["parallel"] = {"enabled": par, "t1": par, "max_workers": case["w"] if par else 0}
        cfg = _cfg({"t1": t1, "perf": perf})
        ctx = SimpleNamespace(cfg=cfg, turn_id="t", agent_id="A")
        _reset_t1_cache()
        st = self._state(case, active)
        if par and not real_pool:
            with _patched_pool(pi or []):
                r = t1_propagate(ctx, st, case["text"])
        else:
            r = t1_propagate(ctx, st, case["text"])
        return {"deltas": [d["id"] for d in r.graph_deltas], "ops": sorted({d["op"] for d in r.graph_deltas}), "metrics": dict(r.metrics)}

    def impl(self, case: dict) -> Any:
        seq = self._run(case, case["active"], False)
        par = self._run(case, case["active"], True, case["pi"])
        singles = [self._run(case, [i], False, cache_off=True) for i in range(len(case["graphs"]))]
        out = {"seq": seq, "par": par, "singles": singles}
        if case.get("real_pool"):
            old = sys.getswitchinterval()
            sys.setswitchinterval(1e-6)
            try:
                out["par_real"] = self._run(case, case["active"], True, real_pool=True)
            finally:
                sys.setswitchinterval(old)
        return out

    # -- model -------------------------------------------------------------------------------
    @staticmethod
    def _gate(case):
        return bool(case["perf"]["enabled"] and case["perf"]["metrics"]["report_memory"])

    def _req(self, case, impl_out, par: bool):
        gs = []
        for g, s in zip(case["graphs"], impl_out["singles"]):
            m = s["metrics"]
            gs.append({"name": g["gid"], "deltas": s["deltas"],
                       "m": [m[k] for k in T1_MAIN] + [0, 0] + [int(m.get(k, 0)) for k in T1_GATED[:3]] + [0, 0],
                       "maxd": f2b(m["max_delta"])})
        return {"c": "par.t1", "graphs": gs, "active": case["active"], "gate": self._gate(case), "par": par,
                "w": case["w"], "pi": case["pi"]}

    @staticmethod
    def _proj(run: dict, gate: bool, cache_diag: bool) -> dict:
        m = run["metrics"]
        c = [m[k] for k in T1_MAIN] + ([m["cache_hits"], m["cache_misses"]] if cache_diag else [0, 0])
        c += [int(m.get(k, 0)) if gate else 0 for k in T1_GATED[:3]]
        c += [int(m.get(k, 0)) if (gate and cache_diag) else 0 for k in T1_GATED[3:]]
        return {"deltas": run["deltas"], "c": c, "maxd": f2b(m["max_delta"])}

    def requests2(self, case, impl_out):
        return [self._req(case, impl_out, False), self._req(case, impl_out, True)]

    def request(self, case):  # filled in run(): needs the measured per-graph results
        raise NotImplementedError

    def monitors(self, case, impl_out):
        res = []
        repeated = len(set(case["active"])) < len(case["active"])
        cache_on = bool(case["t1"]["cache"]["enabled"])
        skip = set(T1_PAR_DIAG)
        if cache_on and repeated:
            skip |= T1_CACHE_DIAG          # C05's exempt diagnostics (schedule-dependent by design)
        for tag in ("par", "par_real"):
            if tag not in impl_out:
                continue
            skip2 = set(skip)
            if tag == "par_real" and cache_on:
                skip2 |= T1_CACHE_DIAG
            a, b = impl_out["seq"], impl_out[tag]
            ok = a["deltas"] == b["deltas"] and a["ops"] == b["ops"]
            res.append((f"t1_{tag}_deltas_eq_seq", ok, f"seq {a['deltas']} par {b['deltas']}"))
            # ordering clause: task keys are positional (index first), so the reduce sees the graphs in
            # active_graphs order: deltas = concatenation of the per-graph deltas in that order
            want = [d for i in case["active"] for d in impl_out["singles"][i]["deltas"]]
            res.append((f"t1_{tag}_deltas_in_active_order", b["deltas"] == want,
                        f"fan-out deltas {b['deltas']} != per-graph deltas in active_graphs order {want}"))
            ma = {k: v for k, v in a["metrics"].items() if k not in skip2}
            mb = {k: v for k, v in b["metrics"].items() if k not in skip2}
            d = None if _canon(ma) == _canon(mb) else first_diff(_canon(ma), _canon(mb))
            res.append((f"t1_{tag}_counters_eq_seq", d is None, f"metrics differ (impl=seq, model=par): {d}"))
        return res

    def tags(self, case, impl_out):
        t = set()
        if len(case["active"]) > 1:
            t.add("multi_graph")
        if len(set(case["active"])) < len(case["active"]):
            t.add("repeated_gid")
        if len(case["active"]) > 10:
            t.add("graphs>10")
        gids = [case["graphs"][i]["gid"] for i in case["active"]]
        if gids != sorted(gids):
            t.add("active_not_lex_sorted")
        idxs = [f"{i}:{g}" for i, g in enumerate(gids)]
        if idxs != sorted(idxs):
            t.add("str_index_order_differs")
        if impl_out["seq"]["deltas"]:
            t.add("deltas")
        if sum(1 for s in impl_out["singles"] if s["deltas"]) > 1:
            t.add("multi_contrib")
        if case["pi"] != sorted(case["pi"]):
            t.add("permuted_completion")
        if case["t1"]["cache"]["enabled"]:
            t.add("cache_on")
        if self._gate(case):
            t.add("gated_counters")
        if "par_real" in impl_out:
            t.add("real_pool")
        return sorted(t) or ["default"]


def _t1_shrink(comp: T1FanComp, case: dict, names: set) -> dict:
    """greedy: drop entries of active_graphs while one of the failing monitors still fails."""
    def fails(c):
        try:
            io = comp.impl(c)
        except Exception:
            return False
        return any((not ok) and name in names for name, ok, _ in comp.monitors(c, io))
    cur, steps, progress = case, 0, True
    while progress and steps < 80:
        progress = False
        for i in range(len(cur["active"])):
            steps += 1
            if steps >= 80:
                break
            act = cur["active"][:i] + cur["active"][i + 1:]
            cand = dict(cur, active=act, pi=list(range(len(act))), real_pool=False)
            if act and fails(cand):
                cur, progress = cand, True
                break
    return cur


def _run_t1(ctx: Ctx, comp: T1FanComp) -> None:
    n = int(comp.budget.get(ctx.tier, comp.budget["quick"]) * ctx.budget_scale)
    rng = ctx.rng_for(comp.name)
    cases = list(comp.corpus(ctx)) + [comp.gen(rng, i) for i in range(n)]
    reqs, metas = [], []
    shrunk_for: set = set()
    for c in cases:
        try:
            io = comp.impl(c)
        except Exception as e:  # the stage itself raising is not this property's concern unless seq/par disagree
            ctx.record_case(comp.name, c, ["raised:" + type(e).__name__])
            try:
                comp._run(c, c["active"], False)
                seq_ok = True
            except Exception:
                seq_ok = False
            if seq_ok:
                ctx.monitor_fail(comp.name, "t1_par_raises_seq_does_not", c, f"{type(e).__name__}: {e}")
            continue
        ctx.record_case(comp.name, c, comp.tags(c, io))
        bad = {name for name, ok, _ in comp.monitors(c, io) if not ok}
        if bad and not (bad <= shrunk_for):
            shrunk_for |= bad
            c2 = _t1_shrink(comp, c, bad)
            if c2 is not c:
                c, io = c2, comp.impl(c2)
        for name, ok, detail in comp.monitors(c, io):
            if not ok:
                ctx.monitor_fail(comp.name, name, c, detail, {"seq": io["seq"], "par": io["par"]})
        rs = comp.requests2(c, io)
        reqs += rs
        metas.append((c, io))
    resps = run_driver(reqs)
    for j, (c, io) in enumerate(metas):
        gate = comp._gate(c)
        cache_diag = False   # per-graph oracle is measured with the cache off
        for which, rs in (("seq", resps[2 * j]), ("par", resps[2 * j + 1])):
            mo = rs.get("ok", {"__model_err__": rs.get("err")})
            want = comp._proj(io[which], gate, cache_diag)
            cache_on = bool(c["t1"]["cache"]["enabled"])
            if cache_on and isinstance(mo, dict) and "c" in mo:
                # a cache hit reports zero gated eviction counters: compare main counters only
                mo = dict(mo, c=mo["c"][:8] + [0] * 5)
                want = dict(want, c=want["c"][:8] + [0] * 5)
            if _canon(want) != _canon(mo):
                ctx.mismatch(comp.name, c, f"{which}: " + first_diff(_canon(want), _canon(mo)), want, mo)


# --------------------------------------------------------------------------------------------
# T2: shards, qscore, merge
# --------------------------------------------------------------------------------------------

class ShardsComp(Component):
    name = "par.shards"
    budget = {"quick": 300, "thorough": 4000, "search": 8000}

    def gen(self, rng, i):
        n = rng.choice([0, 1, 2, 3, 4, 5, 7, 8, 9, 16, 17, 33])
        s = rng.choice([None, -1, 0, 1, 2, 2, 3, 4, 5, 8, n - 1, n, n + 1, 2 * n])
        return {"n": n, "suggested": s}

    def impl(self, case):
        from clematis.memory.index import InMemoryIndex
        idx = InMemoryIndex()
        for i in range(case["n"]):
            idx.add({"id": i})
        out = []
        for sh in idx._iter_shards_for_t2("exact_semantic", suggested=case["suggested"]):
            eps = sh._eps if sh is idx else sh._episodes
            out.append([e["id"] for e in eps])
        return out

    def request(self, case):
        r = {"c": "par.shards", "n": case["n"]}
        if case["suggested"] is not None:
            r["suggested"] = case["suggested"]
        return r

    def monitor_requests(self, case, impl_out):
        r = self.request(case)
        r["c"] = "par.shards.mon"
        r["shards"] = impl_out
        return [("partition", r)]

    def tags(self, case, impl_out):
        t = set()
        if len(impl_out) > 1:
            t.add("sharded")
            if len({len(s) for s in impl_out}) > 1:
                t.add("uneven")
        if case["suggested"] is not None and case["suggested"] > case["n"] > 1:
            t.add("more_workers_than_eps")
        return sorted(t) or ["default"]


QS_BOUNDARY = [0.0, -0.0, 0.5, 1.0, -1.0, 5e-10, 1.5e-9, 2.5e-9, 3.5e-9, -5e-10, -1.5e-9, -2.5e-9, 4.999999999e-10, 5.000000001e-10,
               1e-320, 1e300, -1e300, float("inf"), float("-inf"), float("nan"), 0.1, 0.2, 0.3, 123456789.123456789, 1 / 3, 2 / 3,
               0.9999999995, 0.9999999985, 4503599627370497.0 / 1e9]


class QscoreComp(Component):
    name = "par.qscore"
    budget = {"quick": 2000, "thorough": 40000, "search": 40000}

    def gen(self, rng, i):
        if i < len(QS_BOUNDARY):
            return {"s": f2b(QS_BOUNDARY[i])}
        r = rng.random()
        if r < 0.4:
            x = (rng.randrange(-3000, 3000) + 0.5) / 1e9            # decimal halves (inexact in binary)
        elif r < 0.6:
            x = rng.randrange(-2 ** 20, 2 ** 20) / 2.0 ** rng.randrange(20, 40)   # dyadic: exact halves occur
        elif r < 0.9:
            x = rng.uniform(-1, 1)
        else:
            x = rng.uniform(-1, 1) * 10 ** rng.randrange(-12, 12)
        return {"s": f2b(x)}

    def impl(self, case):
        from clematis.engine.stages.t2.shard import _qscore
        from harness.core import b2f
        return _qscore(b2f(case["s"]))

    def tags(self, case, impl_out):
        from harness.core import b2f
        x = b2f(case["s"]) * 1e9
        t = set()
        if x == x and abs(x) < 1e15 and abs(x - int(x)) == 0.5:
            t.add("exact_half")
        if impl_out != 0:
            t.add("nonzero")
        if x != x or x in (float("inf"), float("-inf")):
            t.add("nonfinite")
        return sorted(t) or ["default"]


class RankComp(Component):
    """real `InMemoryIndex._rank_by_cosine` (threshold, sort by (-score, id), one entry per id, cut to k) vs
    `Clem.ParT2.rankU`; the cosine of every candidate is measured on the real `_cosine` (oracle)."""
    name = "par.rank"
    budget = {"quick": 600, "thorough": 8000, "search": 16000}

    def gen(self, rng, i):
        n = rng.choice([0, 1, 2, 3, 5, 8, 12])
        vals = [0.0, 1.0, 1.0, -1.0, 0.5, 2.0, 1e-10, 1.4e-10]
        eps = []
        for j in range(n):
            eid = rng.choice("abE") + str(rng.randrange(0, max(1, n // 2)) if rng.random() < 0.6 else j)
            eps.append([eid, [rng.choice(vals) for _ in range(3)], rng.random() < 0.05])
        return {"eps": eps, "k": rng.choice([0, 1, 2, 3, n, n + 2]), "thr": rng.choice([-2.0, 0.0, 0.3, 0.9]),
                "q": [rng.choice([1.0, 0.5, -1.0]), rng.choice([0.0, 1.0]), 0.0]}

    def _cands(self, case):
        import numpy as np
        from clematis.memory.index import _cosine
        q = np.asarray(case["q"], dtype=np.float32)
        return [[e[0], f2b(_cosine(q, np.asarray(e[1], dtype=np.float32)))] for e in case["eps"] if not e[2]]

    def impl(self, case):
        import numpy as np
        from clematis.memory.index import InMemoryIndex
        idx = InMemoryIndex()
        eps = [{"id": e[0], "vec_full": None if e[2] else np.asarray(e[1], dtype=np.float32)} for e in case["eps"]]
        res = idx._rank_by_cosine(eps, np.asarray(case["q"], dtype=np.float32), case["k"], case["thr"])
        return [[str(e["id"]), f2b(float(s))] for e, s in res]

    def request(self, case):
        return {"c": "par.rank", "hits": self._cands(case), "k": case["k"], "thr": f2b(case["thr"])}

    def monitors(self, case, impl_out):
        ids = [h[0] for h in impl_out]
        return [("rank_ids_unique", len(set(ids)) == len(ids), f"ids {ids}"),
                ("rank_at_most_k", len(ids) <= max(0, case["k"]), f"{len(ids)} > k={case['k']}")]

    def tags(self, case, impl_out):
        t = set()
        ids = [e[0] for e in case["eps"] if not e[2]]
        if len(set(ids)) < len(ids):
            t.add("duplicate_ids")
        if len(impl_out) == case["k"] and len(set(ids)) > case["k"]:
            t.add("k_cut")
        if impl_out:
            t.add("hits")
        return sorted(t) or ["default"]


TIERS = ["exact_semantic", "cluster_semantic", "archive"]


def _hits_to_wire(hs):
    return [[h["id"], f2b(h.get("score", h.get("_score", 0.0)))] for h in hs]


class MergeComp(Component):
    name = "par.merge"
    budget = {"quick": 1500, "thorough": 20000, "search": 40000}

    def gen(self, rng, i):
        ns = rng.choice([1, 2, 2, 3, 4, 11, 13, 20])
        ids = [rng.choice("abcXYZ") + str(rng.randrange(0, 4 if ns < 10 else 12)) for _ in range(rng.choice([3, 6, 10]))]
        base = [rng.choice([0.5, 0.5, 0.25, 0.9, 0.1, 1e-10, 1.4e-10, 5e-10, 1.5e-9, 2.5e-9, -0.3]) for _ in ids]
        tiers = rng.choice([TIERS, TIERS[:1], ["archive", "exact_semantic"], ["cluster_semantic", "bogus", "archive"], []])
        shards = []
        for s in range(ns):
            d = []
            for t in rng.sample(TIERS + ["bogus"], rng.choice([0, 1, 2, 3])):
                hs = []
                for _ in range(rng.choice([0, 1, 2, 4])):
                    j = rng.randrange(len(ids))
                    sc = base[j] + rng.choice([0.0, 0.0, 0.0, 1e-10, -3e-10])
                    hs.append([ids[j], f2b(sc), rng.random() < 0.1])
                d.append([t, hs])
            shards.append(d)
        return {"k": rng.choice([1, 1, 2, 3, 5, 64]), "tiers": list(tiers), "shards": shards}

    @staticmethod
    def _pyshards(case):
        from harness.core import b2f
        out = []
        for d in case["shards"]:
            dd = {}
            for t, hs in d:
                dd[t] = [({"id": h[0], "_score": b2f(h[1])} if h[2] else {"id": h[0], "score": b2f(h[1])}) for h in hs]
            out.append(dd)
        return out

    def impl(self, case):
        from clematis.engine.stages.t2.shard import merge_tier_hits_across_shards_dict
        merged, used = merge_tier_hits_across_shards_dict(self._pyshards(case), list(case["tiers"]), case["k"])
        return {"hits": _hits_to_wire(merged), "used": list(used)}

    def request(self, case):
        # later duplicates of a tier key inside one shard dict overwrite earlier ones (dict semantics)
        shards = []
        for d in case["shards"]:
            dd: Dict[str, Any] = {}
            for t, hs in d:
                dd[t] = [[h[0], h[1]] for h in hs]
            shards.append([[t, hs] for t, hs in dd.items()])
        return {"c": "par.merge", "k": case["k"], "tiers": case["tiers"], "shards": shards}

    def monitor_requests(self, case, impl_out):
        r = self.request(case)
        r["c"] = "par.merge.mon"
        r["hits"] = impl_out["hits"]
        r["used"] = impl_out["used"]
        return [("merge_ok", r)]

    def tags(self, case, impl_out):
        t = set()
        total = sum(len(hs) for d in case["shards"] for tt, hs in d if tt in case["tiers"])
        if len(impl_out["hits"]) >= case["k"] and total > case["k"]:
            t.add("k_cut")
        if len(case["shards"]) > 1:
            t.add("multi_shard")
        if len(impl_out["used"]) < len(case["tiers"]):
            t.add("early_return")
        idsall = [h[0] for d in case["shards"] for tt, hs in d for h in hs if tt in case["tiers"]]
        if len(set(idsall)) < len(idsall):
            t.add("dedupe")
        return sorted(t) or ["default"]

    def shrink(self, case):
        for si, d in enumerate(case["shards"]):
            yield dict(case, shards=case["shards"][:si] + case["shards"][si + 1:])
            for ti, (t, hs) in enumerate(d):
                for hi in range(len(hs)):
                    nd = d[:ti] + [[t, hs[:hi] + hs[hi + 1:]]] + d[ti + 1:]
                    yield dict(case, shards=case["shards"][:si] + [nd] + case["shards"][si + 1:])


# --------------------------------------------------------------------------------------------
# T2 end to end: the deciding seq-vs-par differential on the real code
# --------------------------------------------------------------------------------------------

T2_PAR_DIAG = {"t2.task_count", "t2.parallel_workers", "t2.partition_count"}


class _Enc:
    def __init__(self, q):
        self.q = q

    def encode(self, texts):
        import numpy as np
        return [np.asarray(self.q, dtype=np.float32) for _ in texts]


class T2E2EComp(Component):
    name = "par.t2e2e"
    budget = {"quick": 2000, "thorough": 24000, "search": 40000}
    VALS = [0.0, 1.0, 1.0, -1.0, 0.5, 2.0, 0.25, 3.0]
    TINY = [1e-10, 1.4e-10, 2e-10, 4.9e-10]

    def gen(self, rng, i):
        n = rng.choice([2, 3, 4, 5, 6, 8, 12, 12, 23, 30])
        stream = rng.random()
        tiny = stream < 0.06           # near-tie scores (the _qscore finding)
        with_cluster = 0.06 <= stream < 0.30
        eps = []
        for j in range(n):
            if tiny:
                v = [rng.choice(self.TINY + [0.0, 1e-9]), 1.0, 0.0]
            else:
                v = [rng.choice(self.VALS) for _ in range(3)]
            ts = rng.choice(["2025-01-09T00:00:00Z", "2025-01-10T00:00:00Z", "2024-12-25T12:00:00Z", "2024-06-01T00:00:00Z", "2023-01-01T00:00:00Z"])
            ep = {"id": rng.choice(["e", "E", "x"]) + str(j), "owner": rng.choice(["A", "A", "B", "world"]),
                  "ts": ts, "text": rng.choice(["alpha note", "beta", "gamma ray", ""]), "vec": v,
                  "imp": rng.choice([None, 0.0, 0.5, 1.0])}
            if rng.random() < 0.7:
                ep["cluster"] = "c" + str(rng.randrange(3))
            eps.append(ep)
        if with_cluster:
            tiers = rng.choice([TIERS, ["cluster_semantic"], ["cluster_semantic", "archive"], ["archive", "cluster_semantic", "exact_semantic"]])
        else:
            tiers = rng.choice([["exact_semantic", "archive"], ["archive"], ["exact_semantic"], ["archive", "exact_semantic"],
                                ["exact_semantic", "bogus", "archive"]])
        t2 = {"cache": {"enabled": False}, "tiers": list(tiers), "k_retrieval": rng.choice([1, 1, 2, 3, n - 1 or 1, n, n + 3]),
              "exact_recent_days": rng.choice([0, 1, 7, 30, 400]), "sim_threshold": rng.choice([-1.0, 0.0, 0.0, 0.3, 0.9]),
              "clusters_top_m": rng.choice([1, 2, 3]), "owner_scope": rng.choice(["any", "any", "agent", "world"]),
              "ranking": rng.choice([{"alpha_sim": 1.0, "beta_recency": 0.0, "gamma_importance": 0.0},
                                     {"alpha_sim": 0.75, "beta_recency": 0.2, "gamma_importance": 0.05}])}
        perf = {"enabled": rng.random() < 0.7, "metrics": {"report_memory": rng.random() < 0.5}}
        w = rng.choice([2, 2, 3, 4, 8]) if n < 12 else rng.choice([3, 8, 11, 12, 16, 30])
        pi = list(range(w))
        rng.shuffle(pi)
        q = [1.0, 0.0, 0.0] if tiny else [rng.choice([1.0, 0.5, -1.0]), rng.choice([0.0, 1.0]), rng.choice([0.0, 0.0, 1.0])]
        case = {"eps": eps, "t2": t2, "perf": perf, "w": w, "pi": pi, "q": q,
                "t2_k": rng.choice([None, None, 0, 1, 2]), "real_pool": rng.random() < 0.1}
        d = rng.random()
        if d < 0.10:
            self._add_duplicates(rng, case)
        elif d < 0.18:
            case = self._readd_layout(rng, case)
        return case

    @staticmethod
    def _add_duplicates(rng, case):
        """re-added episode ids (`InMemoryIndex.add` never dedupes): 1-2 ids get a 2nd (sometimes 3rd) copy with the
        same or a different text / ts / vector, right after the original (same shard) or anywhere (across shards)."""
        eps = case["eps"]
        for _ in range(rng.choice([1, 1, 2])):
            j = rng.randrange(len(eps))
            for _c in range(rng.choice([1, 1, 1, 2])):
                cp = dict(eps[j])
                if rng.random() < 0.5:
                    cp["text"] = cp["text"] + " v2"
                    cp["ts"] = rng.choice(["2025-01-09T00:00:00Z", "2025-01-10T00:00:00Z", "2024-06-01T00:00:00Z"])
                if rng.random() < 0.5:
                    cp["vec"] = [rng.choice(T2E2EComp.VALS) for _ in range(3)]
                pos = j + 1 if rng.random() < 0.5 else rng.randrange(len(eps) + 1)
                eps.insert(pos, cp)

    @staticmethod
    def _readd_layout(rng, case):
        """structured re-add worlds: per contiguous shard block, `copies` recent copies of one id next to one old but
        very similar episode; the other blocks hold weaker fillers; K around the number of copies."""
        shards = rng.choice([2, 2, 3, 4, 8])
        copies = rng.choice([2, 2, 2, 3])
        per = copies + rng.choice([1, 1, 2])
        block = rng.randrange(shards)            # the block that holds the re-added id
        recent = ["2025-01-09T00:00:00Z", "2025-01-10T00:00:00Z", "2025-01-08T00:00:00Z"]
        old = ["2024-06-01T00:00:00Z", "2023-01-01T00:00:00Z"]
        eps = []
        for b in range(shards):
            for j in range(per):
                if b == block and j < copies:
                    eps.append({"id": "x", "owner": "A", "ts": recent[j % 3], "text": rng.choice(["orchard note", f"orchard note v{j}"]),
                                "vec": [1.0, rng.choice([0.25, 0.5, 1.0]) * (j + 1), 0.0], "imp": 0.5})
                elif b == block and j == copies:
                    eps.append({"id": "oldbest", "owner": "A", "ts": rng.choice(old), "text": "old survey", "vec": [1.0, 0.0, 0.0], "imp": 0.5})
                else:
                    eps.append({"id": f"f{b}_{j}", "owner": "A", "ts": rng.choice(old + recent[:1]), "text": "filler",
                                "vec": [rng.choice([0.25, 0.5, 1.0]), rng.choice([2.0, 3.0]), rng.choice([0.0, 1.0])], "imp": rng.choice([None, 0.5])})
        if rng.random() < 0.3:
            rng.shuffle(eps[block * per:(block + 1) * per])
        t2 = dict(case["t2"], tiers=rng.choice([["exact_semantic", "archive"], ["exact_semantic", "archive"], ["archive", "exact_semantic"],
                                                ["exact_semantic", "bogus", "archive"]]),
                  k_retrieval=rng.choice([copies, copies, copies, copies + 1, 1]), exact_recent_days=rng.choice([7, 7, 30]),
                  sim_threshold=rng.choice([-1.0, 0.0]), owner_scope="any")
        pi = list(range(shards))
        rng.shuffle(pi)
        return dict(case, eps=eps, t2=t2, w=shards, pi=pi, q=[1.0, 0.0, 0.0], t2_k=rng.choice([None, None, 2]))

    @staticmethod
    def _build_index(case):
        import numpy as np
        from clematis.memory.index import InMemoryIndex
        idx = InMemoryIndex()
        for e in case["eps"]:
            ep = {"id": e["id"], "owner": e["owner"], "ts": e["ts"], "text": e["text"], "vec_full": np.asarray(e["vec"], dtype=np.float32)}
            aux = {}
            if e.get("cluster"):
                aux["cluster_id"] = e["cluster"]
            if e.get("imp") is not None:
                aux["importance"] = e["imp"]
            if aux:
                ep["aux"] = aux
            idx.add(ep)
        return idx

    def reference_merge(self, case):
        """What the fan-out returns when every shard reports every tier completely: the real shard views'
        `search_tiered` for every (shard, tier) with the hints of the sequential walk, through the real cross-shard merge.
        (id, score bits, text) set + tier sequence.  Used only by the classifier."""
        import numpy as np
        from clematis.engine.stages.t2.shard import merge_tier_hits_across_shards_dict
        t2 = case["t2"]
        idx = self._build_index(case)
        q = np.asarray(case["q"], dtype=np.float32)
        owner = {"agent": "A", "world": "world"}.get(str(t2["owner_scope"]).lower())
        dicts = []
        for sh in idx._iter_shards_for_t2("exact_semantic", suggested=case["w"]):
            d = {}
            for tier in t2["tiers"]:
                hints = {"sim_threshold": float(t2["sim_threshold"]), "now": "2025-01-10T00:00:00Z"}
                if tier == "exact_semantic":
                    hints["recent_days"] = int(t2["exact_recent_days"])
                elif tier == "cluster_semantic":
                    hints["clusters_top_m"] = int(t2["clusters_top_m"])
                elif tier != "archive":
                    continue
                hs = sh.search_tiered(owner=owner, q_vec=q, k=int(t2["k_retrieval"]), tier=tier, hints=hints)
                d[tier] = [{"id": str(h.id), "score": float(h.score), "text": h.text} for h in hs]
            dicts.append(d)
        merged, used = merge_tier_hits_across_shards_dict(dicts, list(t2["tiers"]), int(t2["k_retrieval"]))
        return {"items": sorted([h["id"], f2b(h["score"]), str(h["text"] or "")] for h in merged), "used": list(used)}

    def _run(self, case, par: bool, tiers=None, real_pool=False, calls=None, cap=None):
        import numpy as np
        from clematis.memory.index import InMemoryIndex
        from clematis.engine.stages.t2.core import t2_semantic
        import clematis.engine.stages.t2.core as core
        t2 = dict(case["t2"])
        if tiers is not None:
            t2["tiers"] = tiers
        perf = dict(case["perf"])
        perf["parallel"] = {"enabled": par, "t2": par, "max_workers": case["w"] if par else 0}
        cfg = _cfg({"t2": t2, "perf": perf})
        idx = self._build_index(case)
        state = {"mem_index": idx, "mem_backend": "inmemory"}
        ctx = SimpleNamespace(cfg=cfg, now="2025-01-10T00:00:00Z", enc=_Enc(case["q"]), agent_id="A")
        if case.get("t2_k") is not None:
            ctx.slice_budgets = {"t2_k": case["t2_k"]}
        t1 = SimpleNamespace(graph_deltas=[])
        orig = core.run_parallel
        orig_collect = core._collect_shard_hits
        if cap is not None:
            # what the real index returns per tier (sequential walk) / per shard (fan-out): inputs of the Lean walk/merge
            cap["k"] = int(cfg["t2"]["k_retrieval"])
            cap["tiers"] = list(cfg["t2"]["tiers"])
            cap["seq_hits"] = []
            cap["shard_hits"] = []
            real_search = idx.search_tiered

            def search(owner, q_vec, k, tier, hints):
                hs = real_search(owner=owner, q_vec=q_vec, k=k, tier=tier, hints=hints)
                cap["seq_hits"].append([tier, [[str(h.id), f2b(float(h.score))] for h in hs]])
                return hs
            idx.search_tiered = search

            def collect(*a, **kw):
                d = orig_collect(*a, **kw)
                sh = a[0] if a else kw.get("shard")
                eps = getattr(sh, "_episodes", None)
                start = 0
                if eps:
                    start = next((i for i, e in enumerate(idx._eps) if e is eps[0]), 0)
                cap["shard_hits"].append([start, [[t, [[str(h["id"]), f2b(float(h["score"]))] for h in hs]] for t, hs in d.items()]])
                return d
            core._collect_shard_hits = collect
        if calls is not None:
            def wrapped(tasks, **kw):
                calls.append(len(tasks))
                return orig(tasks, **kw)
            core.run_parallel = wrapped
        try:
            if par and not real_pool:
                with _patched_pool(case["pi"]):
                    r = t2_semantic(ctx, state, "hello", t1)
            else:
                r = t2_semantic(ctx, state, "hello", t1)
        finally:
            core.run_parallel = orig
            core._collect_shard_hits = orig_collect
        return {"retrieved": [[str(x.id), f2b(float(x.score)), str(getattr(x, "text", "") or ""),
                               str(getattr(x, "owner", "<absent>"))] for x in r.retrieved],
                "residual": list(r.graph_deltas_residual),
                "metrics": {k: v for k, v in r.metrics.items() if k not in T2_PAR_DIAG},
                "snips": list(getattr(ctx, "turn_artifacts", {}).get("t2_snippets", []))}

    @staticmethod
    def _wrap(f):
        try:
            return f()
        except Exception as e:  # noqa: BLE001
            return {"__raised__": type(e).__name__, "msg": str(e)[:160]}

    def impl(self, case):
        calls: list = []
        cs: dict = {}
        cp: dict = {}
        out = {"seq": self._wrap(lambda: self._run(case, False, cap=cs)),
               "par": self._wrap(lambda: self._run(case, True, calls=calls, cap=cp)), "fanout": list(calls)}
        out["cap"] = {"seq": cs, "par": cp}
        if case.get("real_pool"):
            old = sys.getswitchinterval()
            sys.setswitchinterval(1e-6)
            try:
                out["par_real"] = self._wrap(lambda: self._run(case, True, real_pool=True))
            finally:
                sys.setswitchinterval(old)
        return out

    def model_requests(self, case, io):
        """(label, request, expected ids sorted, expected tier sequence): the Lean sequential walk on the hits the real
        index returned per tier, and the Lean merge on the real per-shard dicts (prescribed-order run only)."""
        out = []
        cs, cp = io["cap"]["seq"], io["cap"]["par"]
        if isinstance(io["seq"], dict) and "retrieved" in io["seq"] and cs.get("tiers") is not None:
            out.append(("seq_walk", {"c": "par.walk", "k": cs["k"], "tiers": cs["tiers"], "hits": cs["seq_hits"]}, io["seq"]))
        if isinstance(io["par"], dict) and "retrieved" in io["par"] and io.get("fanout") and cp.get("shard_hits") \
                and not cp.get("seq_hits"):
            # the thunks ran in completion order pi; the merge sees them in shard (= submit) order
            ordered = [d for _, d in sorted(cp["shard_hits"], key=lambda x: x[0])]
            out.append(("par_merge", {"c": "par.merge", "k": cp["k"], "tiers": cp["tiers"], "shards": ordered}, io["par"]))
        return out

    # classifier for a seq/par difference.  The three former classes (cluster tier chosen per shard, _qscore tie at
    # the k cut, re-added ids cut before de-duplication) are repaired (proposed_fixes/C09_*.diff); their old failing
    # inputs are corpus regression cases and any divergence is a violation again.
    def classify(self, case) -> str:
        return K_T2DIFF

    @staticmethod
    def has_dup_ids(case) -> bool:
        ids = [e["id"] for e in case["eps"]]
        return len(set(ids)) < len(ids)

    def seq_is_reference(self, case, io) -> bool:
        """the sequential result equals the cross-shard merge of complete per-shard tier results."""
        seq = io["seq"]
        ref = self._wrap(lambda: self.reference_merge(case))
        return isinstance(seq, dict) and "retrieved" in seq and "items" in ref \
            and sorted([r[0], r[1], r[2]] for r in seq["retrieved"]) == ref["items"] \
            and list(seq["metrics"].get("tier_sequence", [])) == (ref["used"] or list(case["t2"]["tiers"]))

    def fail_all(self, ctx: Ctx, case, io) -> None:
        for tag in ("par", "par_real"):
            if tag in io and _canon(io["seq"]) != _canon(io[tag]):
                key = self.classify(case)
                ctx.monitor_fail(self.name, f"t2_{tag}_eq_seq", case,
                                 "parallel differs from sequential: " + first_diff(_canon(io["seq"]), _canon(io[tag])),
                                 {"seq": io["seq"], tag: io[tag]}, key=key)

    def tags(self, case, io):
        t = set()
        if io.get("fanout"):
            t.add("fanout")
            if io["fanout"][0] > 2:
                t.add("shards>2")
            if io["fanout"][0] > 10:
                t.add("shards>10")
        s = io["seq"]
        if isinstance(s, dict) and "retrieved" in s:
            if s["retrieved"]:
                t.add("hits")
            if len(s["retrieved"]) >= case["t2"]["k_retrieval"]:
                t.add("k_cut")
            if len(s["metrics"].get("tier_sequence", [])) < len(case["t2"]["tiers"]):
                t.add("early_tier_stop")
        if "cluster_semantic" in case["t2"]["tiers"]:
            t.add("cluster_tier")
        ids = [e["id"] for e in case["eps"]]
        if len(set(ids)) < len(ids):
            t.add("duplicate_ids")
            if max(ids.count(x) for x in set(ids)) > 2:
                t.add("dup>=3_copies")
        if "par_real" in io:
            t.add("real_pool")
        return sorted(t) or ["default"]

    def shrink(self, case):
        eps = case["eps"]
        for i in range(len(eps)):
            if len(eps) > 2:
                yield dict(case, eps=eps[:i] + eps[i + 1:])
        if case.get("t2_k") is not None:
            yield dict(case, t2_k=None)
        if case["t2"]["owner_scope"] != "any":
            yield dict(case, t2=dict(case["t2"], owner_scope="any"))
        if len(case["t2"]["tiers"]) > 1:
            for i in range(len(case["t2"]["tiers"])):
                yield dict(case, t2=dict(case["t2"], tiers=case["t2"]["tiers"][:i] + case["t2"]["tiers"][i + 1:]))


def _run_t2e2e(ctx: Ctx, comp: T2E2EComp) -> None:
    n = int(comp.budget.get(ctx.tier, comp.budget["quick"]) * ctx.budget_scale)
    rng = ctx.rng_for(comp.name)
    cases = list(comp.corpus(ctx)) + [comp.gen(rng, i) for i in range(n)]
    seen_keys = set()
    mreqs = []
    nraised = 0
    for c in cases:
        io = comp.impl(c)
        if isinstance(io["seq"], dict) and "__raised__" in io["seq"]:
            nraised += 1
            if nraised > max(20, len(cases) // 4):
                from harness.core import Infra
                raise Infra(f"t2e2e: the sequential path raises on most generated cases ({io['seq']}): harness or generator broken")
        ctx.record_case(comp.name, c, comp.tags(c, io))
        for label, rq, real in comp.model_requests(c, io):
            mreqs.append((c, label, rq, real))
        differs = any(t in io and _canon(io["seq"]) != _canon(io[t]) for t in ("par", "par_real"))
        if differs:
            key = comp.classify(c)
            if key not in seen_keys:
                seen_keys.add(key)
                from harness.core import shrink_case

                def still(cc, key=key):
                    o = comp.impl(cc)
                    return _canon(o["seq"]) != _canon(o["par"]) and comp.classify(cc) == key
                try:
                    if _canon(io["seq"]) != _canon(io["par"]):
                        c2 = shrink_case(comp, c, still, limit=30)
                        c, io = c2, comp.impl(c2)
                except Exception:
                    pass
            comp.fail_all(ctx, c, io)
    # the Lean sequential walk / merge on the real per-tier / per-shard hits reproduce ids and tier sequence
    ctx.extra["t2_model_replays"] = {"seq_walk": sum(1 for m in mreqs if m[1] == "seq_walk"),
                                     "par_merge": sum(1 for m in mreqs if m[1] == "par_merge")}
    for (c, label, rq, real), rs in zip(mreqs, run_driver([m[2] for m in mreqs])):
        mo = rs.get("ok", {"__model_err__": rs.get("err")})
        want = {"ids": sorted(r[0] for r in real["retrieved"]), "used": list(real["metrics"].get("tier_sequence", []))}
        got = {"ids": sorted(h[0] for h in mo.get("hits", [])), "used": mo.get("used")} if isinstance(mo, dict) and "hits" in mo else mo
        if not c["t2"]["tiers"]:
            continue
        if _canon(want) != _canon(got):
            ctx.mismatch(comp.name, c, f"{label}: " + first_diff(_canon(want), _canon(got)), want, got)


# --------------------------------------------------------------------------------------------

PAR, T1F, SHARDS, QS, MERGE, T2E, RANK = ParComp(), T1FanComp(), ShardsComp(), QscoreComp(), MergeComp(), T2E2EComp(), RankComp()
COMPONENTS = [PAR, T1F, SHARDS, QS, MERGE, T2E, RANK]


def run(ctx: Ctx) -> None:
    run_component(ctx, PAR)
    _exhaustive_par(ctx, PAR)
    _real_pool_stress(ctx)
    _run_t1(ctx, T1F)
    run_component(ctx, SHARDS)
    run_component(ctx, QS)
    run_component(ctx, MERGE)
    run_component(ctx, RANK)
    _run_t2e2e(ctx, T2E)


def _decanon(x):
    """replay files store floats as {"f": "<ieee bits>"} (core._canon); turn them back into floats."""
    from harness.core import b2f
    if isinstance(x, dict):
        if set(x) == {"f"} and isinstance(x["f"], str):
            return b2f(x["f"])
        return {k: _decanon(v) for k, v in x.items()}
    if isinstance(x, list):
        return [_decanon(v) for v in x]
    return x


def replay(ctx: Ctx, rec: dict) -> int:
    from harness.core import generic_replay
    rec = _decanon(rec)
    recs = [rec] if "case" in rec else rec.get("broken_correspondence", [])
    rc = 0
    generic = {c.name: c for c in (PAR, SHARDS, QS, MERGE, RANK)}
    for r in recs:
        cname = r.get("component")
        case = r["case"]
        if cname in generic:
            rc |= generic_replay(ctx, r, generic)
        elif cname == T1F.name:
            io = T1F.impl(case)
            for name, ok, detail in T1F.monitors(case, io):
                print(f"REPLAY monitor {name} {'holds' if ok else 'FAILS: ' + detail}")
                rc |= 0 if ok else 1
            resps = run_driver(T1F.requests2(case, io))
            for which, rs in zip(("seq", "par"), resps):
                mo = rs.get("ok", {"__model_err__": rs.get("err")})
                want = T1F._proj(io[which], T1F._gate(case), False)
                if case["t1"]["cache"]["enabled"] and isinstance(mo, dict) and "c" in mo:
                    mo = dict(mo, c=mo["c"][:8] + [0] * 5)
                    want = dict(want, c=want["c"][:8] + [0] * 5)
                same = _canon(want) == _canon(mo)
                print(f"REPLAY component={T1F.name} {which} correspondence={'agrees' if same else 'DIFFERS ' + first_diff(_canon(want), _canon(mo))}")
                rc |= 0 if same else 1
        elif cname == T2E.name:
            io = T2E.impl(case)
            bad = False
            for tag in ("par", "par_real"):
                if tag in io and _canon(io["seq"]) != _canon(io[tag]):
                    bad = True
                    print(f"REPLAY monitor t2_{tag}_eq_seq FAILS [{T2E.classify(case)}]: " + first_diff(_canon(io["seq"]), _canon(io[tag])))
            if not bad:
                print("REPLAY monitor t2_par_eq_seq holds")
            rc |= 1 if bad else 0
        else:
            print(f"REPLAY unknown component {cname}")
    if rec.get("broken_proof_obligations"):
        print("REPLAY broken proof obligations recorded:")
        for b in rec["broken_proof_obligations"]:
            print("  " + b[:500])
        rc = 1
    return rc
