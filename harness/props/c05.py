"""C05 — caches are transparent: a hit equals a fresh computation.

Deciding tie (DESIGN §2.2: the property IS an equality between two executions): identical histories over the
REAL `run_turn` (rig `harness/lib/turnrig.py`) with every cache of a configuration switched on vs. all caches
off; stage results must be equal except for the cache diagnostics.  Components:

  sweep   2-step histories: turn, change ONE input dimension of the read-set, turn — per cache configuration
          (the "dimension sweep"; produces the finding keys `C05:<cache>:<dimension>`); includes EVERY configuration
          leaf the validator allows under t2.quality.*, t2.hybrid.*, t2.ranking.*, t1.*, perf.t1.* (derived at run
          time from the ALLOWED_* sets of configs/validate.py) with the gate on and a corpus where it matters
          (near-duplicate episodes for MMR/fusion, GEL edges for hybrid), read-modify-write graph edits, applies
          through the real apply_changes, re-adds of existing episode ids
  hist    generated histories over {turn, set agent/now/text/kill switch/slice budgets/one config value, upsert
          node/edge (same and different counts), add episode, clock tick} on 1–3 states in one process, cache
          capacities {0,1,2,512}, TTLs {0,5,300,-1}; a divergence is shrunk and classified
  keys    exact correspondence of the key functions: the real `ckey` of every cached stage call (logged by a
          transparent spy around the cache object) = the Lean model key computed by `clemdrv` from the call's
          read-set (`t1Eff` incl. the slice-effective budgets, `t2QText`, `turnKey`; pass-through components are
          compared field by field)
  suff    Lean-evaluated monitors on the UNCACHED runs: two real calls whose MODEL keys (T1) / effective inputs
          (T2: key + index + label map + rest) are equal returned equal fresh results
  etag    the store's etag is a faithful function of the graph content on everything observed
  (sweep/hist: multi-graph T1 histories (two contributing active graphs), store outages during apply, and a LATER
          cache-hit turn after every kind of turn, so that repo code editing a cached / served object during an ordinary
          turn shows up as hit != fresh on the next hit.  `mutate_returned` is a NON-DECIDING diagnostic: the harness,
          acting as a caller, edits the containers of the results a turn handed out; a divergence that needs that edit is
          outside the property's operation alphabet and only produces a note in the evidence)
  runops  `runOps` (the function of `C05_runOps_transparent`) on the TTL LRU / LRUBytes / off instances vs. the
          real containers driven through the code's `hit → return; miss → compute, put` pattern
"""
from __future__ import annotations

import copy
import json
import random
from pathlib import Path
from typing import Any, Dict, List, Optional, Tuple

from harness import core
from harness.core import Ctx, run_driver
from harness.lib import c05_hist as H
from harness.lib import c05_dims as D

DRIVER_MODULES = ["HCacheKeys"]
TABLES: List[str] = []

MODELLED = {
    "clematis/engine/stages/t1.py": ["_get_cache", "t1_propagate"],
    "clematis/engine/stages/t2/core.py": ["t2_semantic"],
    "clematis/engine/stages/t2/cache.py": ["get_cache"],
    "clematis/engine/stages/t2/helpers.py": ["owner_for_query", "quality_digest"],
    "clematis/engine/stages/t2/state.py": ["gather_changed_labels", "build_label_map"],
    "clematis/graph/store.py": ["InMemoryGraphStore._bump_etag", "InMemoryGraphStore.version_etag"],
    "clematis/memory/index.py": ["InMemoryIndex.add", "InMemoryIndex.index_version"],
    "clematis/engine/cache.py": ["stable_key", "CacheManager.get", "CacheManager.set"],
    "clematis/engine/apply.py": ["_bump_version_etag"],
}

RULE = ("sweep: the full enumeration of (cache configuration x dimension x value) 2-step histories; hist: histories drawn from "
        "one seeded PRNG over the dimension vocabulary of harness/lib/c05_dims.py (sticky settings, graph edits with equal and "
        "different counts, episode adds, clock ticks, 1-3 states in one process, boundary capacities/TTLs); a case is non-trivial "
        "when a cache was actually hit, an entry expired/was evicted, several states were involved, or the changed dimension "
        "changed the uncached result; distinct by canonical JSON of the whole history")
ASSUMPTIONS = [
    "graphs are edited through the store API (upsert_nodes / upsert_edges / apply_deltas); in-place mutation of a Node/Edge object "
    "bypasses every version counter and is outside the property",
    "sha1 (store etag, quality digest) and json.dumps(sort_keys) (`stable_key`) are treated as injective on the values they are given",
    "ctx.enc (a custom embedding adapter object) is constant within a history; the contents of an aliasing map file are not varied",
    "one or two active graphs (`g:surface`, `g:aux`); the parallel T1/T2 paths are C09's subject",
    "callers do not edit the T1Result / T2Result objects they are handed (not an operation of the property's history alphabet; the caches "
    "store the served object by reference: Lean C05_reference_semantics_transparent); the harness reports value sharing as a note only",
]
TRUSTED = [
    "harness/lib/turnrig.py (drives the real run_turn), harness/lib/c05_hist.py (cache switches, spies, read-set extraction), "
    "harness/lib/c05_dims.py (history vocabulary, shrinking, finding-key classifier)",
]
CLAIM = {
    "text": ("Unbounded Lean theorems: for ANY cache semantics (get returns only what was put under the same key; nothing else adds "
             "retrievable entries — proved for LRUBytes, for the TTL LRU with an arbitrary clock and invalidation schedule, and for the "
             "switched-off cache), ANY stage and ANY history of requests interleaved with other cache operations, a sufficient key makes "
             "the cached run equal the uncached run, and an insufficient key with a retained entry answers wrongly. Sufficiency of the "
             "concrete keys over the explicit read-set of each stage: full strength for the T1 stage key (EtagFaithful) and for the repaired "
             "turn-level key (graph-etag and index-version faithfulness as named hypotheses); for the repaired T2 stage key (label map, "
             "hybrid settings + GEL digest, index identity, whole quality digest keyed) sufficiency under IndexVersionFaithful and equal `rest` "
             "(custom encoder object / alias-file contents), with negation witnesses for an in-place upsert, a digest dropping a leaf and `rest`; "
             "the pre-repair keys keep their machine-checked witnesses as history. The owner filter is keyed: a hit was computed "
             "for the same owner. Tie: cache-on/off differential over real run_turn histories, exact correspondence of the key functions, "
             "and Lean-evaluated sufficiency monitors on the real stages."),
    "note": ("`diag_only` (only cache diagnostics may differ) is covered by the differential alone: the exempt list is fixed in "
             "harness/lib/c05_hist.py and re-derived from the AST at run time (drift is reported as a NOTE). That the real stages factor "
             "through the modelled effective inputs (T1Eff/T2Eff) is an assumption of the sufficiency theorems that is checked by the "
             "`suff` monitors, not proved (the T1/T2 stage models of C12/C11 are not re-proved here). The T3-internal RAG call of the T2 "
             "stage is observed and compared as well. ctx.turn_artifacts['t2_snippets'] (set only on a T2 miss, read by reflection) is "
             "outside T1Result/T2Result and not compared."),
    "technique": "Lean 4 proof over executable models + cache-on/off differential on the real engine + key-function correspondence",
    "design_ref": "DESIGN.md §4 C05, §5 rows 6-8",
}

BUDGET = {"quick": 90, "thorough": 2600, "search": 2500}
MAX_FAILURES = 30      # a verdict exists: stop generating (bounds the run time under a grossly broken cache)
RUNOPS_BUDGET = {"quick": 150, "thorough": 6000, "search": 6000}
T2_PAYLOAD_BASE = {"q", "exact_recent_days", "sim_threshold", "clusters_top_m", "owner_scope", "owner", "k_retrieval", "now",
                   "ranking", "residual_cap", "k_surface", "label_map"}


# ------------------------------------------------------------------------------------------------
# one history: differential + bookkeeping for the batched driver requests
# ------------------------------------------------------------------------------------------------
class Batch:
    def __init__(self):
        self.reqs: List[dict] = []
        self.meta: List[dict] = []

    def add(self, req: dict, **meta) -> None:
        self.reqs.append(req)
        self.meta.append(meta)


def _pub(raw: dict) -> dict:
    return {k: v for k, v in raw.items() if not k.startswith("_")}


LAST_TRACE: list = [[]]     # version components / content codes after every op of the last `run_pair`


def version_violation(trace: List[dict]) -> Optional[Tuple[str, str]]:
    """After EVERY op of a history (both runs): (a) one graph etag never stands for two different T1-visible contents
    (ordered nodes/edges, exact float weights) — across all states of the process, the T1 cache being process-global;
    (b) within one index object, one index_version never stands for two different T2-visible memory contents."""
    by_etag: Dict[str, set] = {}
    by_ver: Dict[Tuple[int, int], set] = {}
    for r in trace:
        if "etag" in r:
            by_etag.setdefault(r["etag"], set()).add(r["graph"])
        if "ver" in r:
            by_ver.setdefault((r["w"], r["ver"]), set()).add(r["index"])
    for et, gs in sorted(by_etag.items()):
        if len(gs) > 1:
            return ("etag", f"store etag {et} stands for {len(gs)} different graph contents (ordered nodes/edges, exact "
                            f"weights) within one history")
    for (w, v), cs in sorted(by_ver.items()):
        if len(cs) > 1:
            return ("index", f"index_version {v} of state {w}'s memory index stands for {len(cs)} different memory contents "
                             f"within one history")
    return None


def run_pair(ctx: Ctx, case: dict) -> Tuple[List[dict], List[dict], Optional[dict]]:
    hc = D.to_hist_case(case)
    tr_on: list = []
    tr_off: list = []
    on = H.run_history(ctx.tmpdir("c05on"), hc, True, trace=tr_on)
    off = H.run_history(ctx.tmpdir("c05off"), hc, False, trace=tr_off)
    LAST_TRACE[:] = [tr_on + tr_off]
    return on, off, H.first_divergence(on, off)


def diverges(ctx: Ctx, case: dict) -> Optional[dict]:
    try:
        _on, _off, div = run_pair(ctx, case)
    except Exception:
        return None
    return div


def _tags(case: dict, on: List[dict], off: List[dict]) -> List[str]:
    t = ["mode:" + case["mode"]]
    if any((o.get("x1") or {}).get("hit") for o in on):
        t.append("t1_hit")
    if any(x.get("hit") for o in on for x in (o.get("x2") or [])):
        t.append("t2_hit")
    if any(o.get("t2_src") == "turn-cache" for o in on):
        t.append("turn_hit")
    if case.get("nworlds", 1) > 1 and len({o.get("w", 0) for o in case["ops"] if o["op"] == "turn"}) > 1:
        t.append("multi_state")
    ttl = case.get("ttl", 300)
    if ttl and any(o["op"] == "clock" and o["dt"] > ttl for o in case["ops"]):
        t.append("expiry")
    if case.get("cap", 512) <= 2:
        t.append("tight_cap")
    core_off = H.strip_src(off)
    if any(a != b for a, b in zip(core_off, core_off[1:])):
        t.append("result_changes")
    for o in case["ops"]:
        if o["op"] != "turn":
            t.append("dim:" + o["dim"])
    return sorted(set(t))


def check_keys(case: dict, on: List[dict], batch: Batch, ti_offset: int = 0) -> List[str]:
    """Python-side part of the key correspondence (shape + pass-through components); the computed components go
    to the driver through `batch`.  Returns the list of differences found here."""
    diffs: List[str] = []
    turn_ctx_seen: Dict[str, str] = {}
    turn_dig_seen: Dict[str, str] = {}
    for ti, o in enumerate(on):
        x1 = o.get("x1")
        if x1 and "__err__" not in x1["raw"]:
            raw = x1["raw"]
            t1_cached = case["mode"].startswith("t1") or case["mode"].startswith("all")
            if raw["_seeds"] and t1_cached:
                if len(x1["real"]) != 1 and raw.get("_ngraphs", 1) == 1:
                    diffs.append(f"turn {ti}: T1 asked the cache {len(x1['real'])} times for one graph with seeds")
                for k in x1["real"]:
                    if isinstance(k, list) and len(k) > 1 and k[1] != raw["_gid"] and raw.get("_ngraphs", 1) > 1:
                        continue      # the key of a further active graph (its budgets depend on what the first one used)
                    if not (isinstance(k, list) and len(k) >= 7 and k[0] == "t1"):
                        diffs.append(f"turn {ti}: T1 ckey shape {json.dumps(k)[:200]}")
                        continue
                    if k[1] != raw["_gid"] or k[2] != raw["_etag"] or k[3] != raw["_decay"] or list(k[6]) != raw["_seeds"]:
                        diffs.append(f"turn {ti}: T1 ckey gid/etag/decay/seeds {json.dumps(k)[:300]} vs read-set "
                                     f"{[raw['_gid'], raw['_etag'], raw['_decay'], raw['_seeds']]}")
                    if H.code(k[4]) != raw["mult"]:
                        diffs.append(f"turn {ti}: T1 ckey edge_mult {k[4]}")
                    batch.add(dict(_pub(raw), c="c05.t1eff"), kind="t1", ti=ti, real=json.loads(k[5]), case=case)
            elif x1["real"] and not raw["_seeds"] and raw.get("_ngraphs", 1) == 1:
                diffs.append(f"turn {ti}: T1 consulted the cache without seeds")
        for ci, x2 in enumerate(o.get("x2") or []):
            raw = x2["raw"]
            if "__err__" in raw:
                continue
            for k in x2["real"]:
                if not (isinstance(k, list) and len(k) >= 4 and k[0] == "t2"):
                    diffs.append(f"turn {ti}: T2 ckey shape {json.dumps(k)[:200]}")
                    continue
                pl = json.loads(k[2])
                want = set(T2_PAYLOAD_BASE) | ({"slice_t2_k"} if raw["_sliceK"] is not None else set()) | \
                    ({"q_digest"} if raw["quality"] is not None else set()) | \
                    ({"hybrid", "gel"} if raw.get("_hybrid_on") else set())
                if len(k) < 5:
                    diffs.append(f"turn {ti}: T2 ckey has no index-identity component: {json.dumps(k)[:200]}")
                if not want <= set(pl):        # a FINER key (extra fields) stays sufficient: tolerated
                    diffs.append(f"turn {ti}: T2 ckey payload fields {sorted(pl)} lack {sorted(want - set(pl))}")
                    continue
                passthru = {"exact_recent_days": raw["days"], "clusters_top_m": raw["topM"], "owner_scope": raw["_scope"],
                            "owner": raw["_owner"], "k_retrieval": raw["k"], "now": raw["_now"], "residual_cap": raw["rcap"],
                            "k_surface": raw["ksurf"]}
                for f, v in passthru.items():
                    if pl.get(f) != v:
                        diffs.append(f"turn {ti}: T2 ckey {f}={pl.get(f)!r} vs read-set {v!r}")
                if int(core.f2b(float(pl["sim_threshold"]))) != raw["thr"]:
                    diffs.append(f"turn {ti}: T2 ckey sim_threshold {pl['sim_threshold']!r}")
                if [int(core.f2b(float(x))) for x in pl["ranking"]] != raw["rank"]:
                    diffs.append(f"turn {ti}: T2 ckey ranking {pl['ranking']!r}")
                if raw["_sliceK"] is not None and pl.get("slice_t2_k") != raw["_sliceK"]:
                    diffs.append(f"turn {ti}: T2 ckey slice_t2_k {pl.get('slice_t2_k')!r} vs {raw['_sliceK']!r}")
                if list(k[1]) != raw["_tiers"] or k[3] != raw["ver"]:
                    diffs.append(f"turn {ti}: T2 ckey tiers/index_version {k[1]}/{k[3]} vs {raw['_tiers']}/{raw['ver']}")
                if ci == 0:   # the RAG call's query text is T3's own; its labels are the same T1 labels
                    pass
                batch.add({"c": "c05.t2q", "text": raw["text"], "labels": raw["labels"]}, kind="t2q", ti=ti,
                          real=H.cps(pl["q"]), case=case)
        for xt in o.get("xturn") or []:
            k = list(xt["real"])
            raw = xt.get("raw")
            if raw is None or xt.get("ns") != "t2:semantic":
                continue
            if not (k and isinstance(k[-1], str) and k[-1].startswith("ctx:")):
                diffs.append(f"turn {ti}: turn-level key carries no context digest: {json.dumps(k)[:200]}")
                continue
            digest = k.pop()
            tup = json.dumps(xt.get("ctx"), sort_keys=True)
            seen_ctx = turn_ctx_seen.setdefault(digest, tup)
            seen_dig = turn_dig_seen.setdefault(tup, digest)
            if seen_ctx != tup:
                diffs.append(f"turn {ti}: one context digest {digest} for two different T2 read-sets {seen_ctx[:150]} / {tup[:150]}")
            if seen_dig != digest:
                diffs.append(f"turn {ti}: two context digests for one T2 read-set {tup[:200]}")
            real = {"ver": H.cps(str(k[0])), "text": H.cps(str(k[1])),
                    "sliceK": (H.code(k[2]) if len(k) > 2 else None)}
            if len(k) not in (2, 3):
                diffs.append(f"turn {ti}: turn-level key shape {json.dumps(k)[:200]}")
                continue
            batch.add({"c": "c05.turnkey", "version": raw["version"], "text": raw["text"], "sliceK": raw["sliceK"]},
                      kind="turn", ti=ti, real=real, case=case)
    return diffs


def add_suff(case: dict, off: List[dict], batch: Batch) -> None:
    c1 = []
    c2 = []
    for o in off:
        x1 = o.get("x1")
        if x1 and "__err__" not in x1["raw"] and not o.get("raised"):
            c1.append(dict(_pub(x1["raw"]), res=x1["res"]))
        for x2 in o.get("x2") or []:
            if "__err__" not in x2["raw"]:
                c2.append(dict(_pub(x2["raw"]), res=x2["res"]))
    if len(c1) > 1:
        batch.add({"c": "c05.mon.t1", "calls": c1}, kind="mon.t1", case=case)
    if len(c2) > 1:
        batch.add({"c": "c05.mon.t2", "calls": c2}, kind="mon.t2", case=case)


def etag_pairs(obs: List[dict], acc: Dict[str, set], acc2: Dict[int, set]) -> None:
    for o in obs:
        x1 = o.get("x1")
        if x1 and "__err__" not in x1["raw"]:
            g0 = x1["raw"].get("_graph0", x1["raw"]["graph"])
            acc.setdefault(x1["raw"]["_etag"], set()).add(g0)
            acc2.setdefault(g0, set()).add(x1["raw"]["_etag"])


def _turn_positions(case: dict) -> List[int]:
    return [i for i, o in enumerate(case["ops"]) if o["op"] == "turn"]


def etag_violation(on: List[dict], off: List[dict]) -> Optional[str]:
    """Within one history: one etag, one graph content (the etag is what keys the T1 cache)."""
    by_etag: Dict[str, set] = {}
    by_graph: Dict[int, set] = {}
    etag_pairs(on, by_etag, by_graph)
    etag_pairs(off, by_etag, by_graph)
    for et, gs in sorted(by_etag.items()):
        if len(gs) > 1:
            return f"store etag {et} was observed for {len(gs)} different graph contents within one history"
    return None


def uncanon(x: Any) -> Any:
    """replay files store floats as {"f": bits} (core._canon)"""
    if isinstance(x, dict):
        if set(x) == {"f"} and isinstance(x["f"], str) and x["f"].isdigit():
            return core.b2f(x["f"])
        return {k: uncanon(v) for k, v in x.items()}
    if isinstance(x, list):
        return [uncanon(v) for v in x]
    return x


def shrink(ctx: Ctx, case: dict, div: dict, limit: int = 60) -> dict:
    """Greedy minimisation: cut after the diverging turn, keep only ONE earlier turn (the one that filled the
    cache), then drop single ops."""
    cur = case
    tp = _turn_positions(cur)
    j = min(div.get("turn", len(tp) - 1), len(tp) - 1)
    cand = dict(cur, ops=cur["ops"][: tp[j] + 1])
    if len(cand["ops"]) < len(cur["ops"]) and diverges(ctx, cand):
        cur = cand
    tp = _turn_positions(cur)
    if len(tp) > 2:
        for i in reversed(tp[:-1]):
            cand = dict(cur, ops=[o for k, o in enumerate(cur["ops"]) if o["op"] != "turn" or k == i or k == tp[-1]])
            if diverges(ctx, cand):
                cur = cand
                break
    steps = 0
    progress = True
    while progress and steps < limit:
        progress = False
        for cand in D.shrink_candidates(cur):
            steps += 1
            if steps >= limit:
                break
            if not any(o["op"] == "turn" for o in cand["ops"]):
                continue
            if diverges(ctx, cand):
                cur = cand
                progress = True
                break
    return cur


def process(ctx: Ctx, comp: str, case: dict, batch: Batch, etags: Tuple[dict, dict], do_shrink: bool = True) -> None:
    try:
        on, off, div = run_pair(ctx, case)
        trace = list(LAST_TRACE[0])
    except H.TR.RigError as e:
        raise core.Infra(f"rig error: {e}")
    ctx.record_case(comp, case, _tags(case, on, off))
    if div:
        # attribution by read-set difference (fill request vs served request); a divergence whose differing
        # dimensions are all recorded findings needs no minimisation
        if case.get("mutate_returned"):
            # NON-DECIDING diagnostic.  A caller editing the containers of a result it was handed is not an operation of
            # the property's history alphabet (turns, graph edits, memory adds, applies, agent switches, config changes)
            # and nothing in the repo edits a T1/T2 result after the stage returned it.  Only a divergence that is there
            # WITHOUT the caller's edit counts; one that needs it is recorded as a note.
            plain = {k: v for k, v in case.items() if k != "mutate_returned"}
            try:
                on_p, off_p, div_p = run_pair(ctx, plain)
            except Exception:
                on_p, off_p, div_p = on, off, None
            if not div_p:
                n = ctx.extra.setdefault("value_sharing_diagnostic", {"histories": 0, "caches": []})
                n["histories"] += 1
                cache = D.cache_of(case["mode"], div)
                if cache not in n["caches"]:
                    n["caches"].append(cache)
                    ctx.note(f"diagnostic (non-deciding): the value stored in the {cache} cache is shared with callers; it would "
                             f"matter only if a caller edited the results it was handed (outside the property's alphabet)")
                div = None
            else:
                case, on, off, div = plain, on_p, off_p, div_p
    if div:
        key, keys = D.classify2(case, on, off, div)
        small, d2 = case, div
        recorded = any(k.get("key") == key and k.get("status", "open") == "open" for k in ctx.known)
        if do_shrink and not recorded:
            small = shrink(ctx, case, div)
            try:
                on2, off2, d2n = run_pair(ctx, small)
            except Exception:
                on2, off2, d2n = on, off, None
            if d2n:
                d2 = d2n
                key, keys = D.classify2(small, on2, off2, d2)
            else:
                small = case
        ctx.monitor_fail(comp, key.split(":", 1)[1], small,
                         f"caches on ({small['mode']}) vs off diverge at turn {d2['turn']} stage {d2['stage']} "
                         f"(served from {d2.get('src')}; differing read-set dimensions: {keys}): {d2['diff'][:300]}",
                         None, key=key)
    for d in check_keys(case, on, batch):
        ctx.mismatch("keys", case, d, None, None)
    add_suff(case, off, batch)
    bad = etag_violation(on, off)
    etags[0]["n"] = etags[0].get("n", 0) + 1
    vv = version_violation(trace)
    if bad or (vv and vv[0] == "etag"):
        ctx.monitor_fail("etag", "etag_faithful", case, bad or vv[1], None, key="C05:etag:faithful")
    if vv and vv[0] == "index":
        ctx.monitor_fail("index", "index_version_faithful", case, vv[1], None, key="C05:index:version_faithful")


def finish_batch(ctx: Ctx, batch: Batch) -> None:
    if not batch.reqs:
        return
    resps = run_driver(batch.reqs)
    nk = 0
    for rq, meta, rs in zip(batch.reqs, batch.meta, resps):
        kind = meta["kind"]
        if kind.startswith("mon."):
            ctx.record_case("suff", {"k": kind, "n": len(rq["calls"])}, [kind], validated=True)
            if rs.get("ok") is not True:
                ctx.monitor_fail("suff", kind[4:] + "_key_determines_result", meta["case"],
                                 f"two uncached real calls with equal model {'keys' if kind == 'mon.t1' else 'effective inputs'} "
                                 f"returned different results (driver: {json.dumps(rs)[:200]})", rq,
                                 key=f"C05:suff:{kind[4:]}")
            continue
        nk += 1
        if "err" in rs:
            ctx.mismatch("keys", meta["case"], f"model error {rs['err']}", meta["real"], None)
            continue
        mo = rs["ok"]
        if kind == "t1":
            real = dict(meta["real"])
            want = {k: v for k, v in mo.items() if k not in ("decay", "mult", "node_budget")}
            nb_ok = int(core.f2b(float(real.pop("node_budget", float("nan"))))) == mo["node_budget"]
            if any(real.get(k) != v for k, v in want.items()) or not nb_ok:     # extra fields in policy_caps are tolerated
                ctx.mismatch("keys", meta["case"], f"turn {meta['ti']}: T1 policy_caps real={json.dumps(meta['real'], sort_keys=True)} "
                             f"model={json.dumps(mo, sort_keys=True)}", meta["real"], mo)
        elif kind == "t2q":
            if meta["real"] != mo:
                ctx.mismatch("keys", meta["case"], f"turn {meta['ti']}: T2 ckey q={''.join(map(chr, meta['real']))!r} "
                             f"model q_text={''.join(map(chr, mo))!r}", meta["real"], mo)
        elif kind == "turn":
            if meta["real"] != mo:
                ctx.mismatch("keys", meta["case"], f"turn {meta['ti']}: turn-level key real={json.dumps(meta['real'])[:200]} "
                             f"model={json.dumps(mo)[:200]}", meta["real"], mo)
    ctx.per_component.setdefault("keys", {"cases": 0, "nontrivial": 0})
    ctx.per_component["keys"]["cases"] += nk
    ctx.per_component["keys"]["nontrivial"] += nk
    ctx.evaluations += nk
    ctx.traces += nk


# ------------------------------------------------------------------------------------------------
# runOps on the real containers
# ------------------------------------------------------------------------------------------------
def gen_runops(rng: random.Random, i: int) -> dict:
    kind = ["ttl", "bytes", "off"][i % 3] if rng.random() < 0.9 else rng.choice(["ttl", "bytes", "off"])
    nx = rng.choice([2, 3, 4, 6])
    nk = rng.choice([1, 2, nx])
    key = [rng.randrange(nk) for _ in range(nx)]
    if rng.random() < 0.6:      # sufficient: f is a function of the key
        fk = [rng.randrange(1, 5) for _ in range(nk)]
        f = [fk[k] for k in key]
    else:
        f = [rng.randrange(1, 5) for _ in range(nx)]
    evs = []
    for _ in range(rng.choice([2, 4, 6, 9])):
        if rng.random() < 0.7:
            evs.append(["req", rng.randrange(nx)])
        else:
            evs.append(["other", rng.choice([0, 1, 4, 7, 16, 19, 5, 3 * rng.randrange(0, 4)])])
    c = {"kind": kind, "key": key, "f": f, "events": evs}
    if kind == "ttl":
        c.update(max=rng.choice([0, 1, 2, 3, 100, -1]), ttl=rng.choice([0, 1, 2, 5, 300, -1]), now=rng.choice([0, 10]))
    elif kind == "bytes":
        c.update(maxE=rng.choice([0, 1, 2, 100]), maxB=rng.choice([0, 1, 3, 8, 1000]), cost=[rng.randrange(0, 5) for _ in range(6)])
    return c


def impl_runops(c: dict) -> dict:
    """The code's pattern (`hit → return; miss → compute, put, return`) on the REAL containers."""
    key, f = c["key"], c["f"]
    out: List[Optional[int]] = []
    if c["kind"] == "ttl":
        from clematis.engine.cache import LRUCache
        clock = {"t": c["now"]}
        cache = LRUCache(max_entries=c["max"], ttl_s=c["ttl"], time_fn=lambda: clock["t"])
        for e in c["events"]:
            if e[0] == "req":
                hit = cache.get(key[e[1]])
                if hit is not None:
                    out.append(hit)
                else:
                    cache.put(key[e[1]], f[e[1]])
                    out.append(f[e[1]])
            else:
                t = e[1]
                if t % 3 == 0:
                    cache.clear()
                elif t % 3 == 1:
                    clock["t"] += t // 3
                else:
                    clock["t"] -= t // 3
                out.append(None)
    elif c["kind"] == "bytes":
        from clematis.engine.util.lru_bytes import LRUBytes
        cache = LRUBytes(max_entries=c["maxE"], max_bytes=c["maxB"])
        cost = c["cost"]
        for e in c["events"]:
            if e[0] == "req":
                hit = cache.get(key[e[1]])
                if hit is not None:
                    out.append(hit)
                else:
                    v = f[e[1]]
                    cache.put(key[e[1]], v, cost[v] if v < len(cost) else 1)
                    out.append(v)
            else:
                cache.clear()
                out.append(None)
    else:
        for e in c["events"]:
            out.append(f[e[1]] if e[0] == "req" else None)
    return {"cached": out, "uncached": [f[e[1]] if e[0] == "req" else None for e in c["events"]]}


def run_runops(ctx: Ctx) -> None:
    n = int(RUNOPS_BUDGET.get(ctx.tier, 300) * ctx.budget_scale)
    rng = ctx.rng_for("runops")
    cases = ctx.load_corpus("runops") + [gen_runops(rng, i) for i in range(n)]
    outs = []
    for c in cases:
        try:
            outs.append(impl_runops(c))
        except Exception as e:   # negative cap: LRUCache.put raises KeyError from an empty OrderedDict (C15's subject)
            outs.append({"__raised__": type(e).__name__})
    resps = run_driver([dict(c, c="c05.run", kind=c["kind"]) for c in cases])
    for c, io, rs in zip(cases, outs, resps):
        tags = ["kind:" + c["kind"]]
        if "__raised__" in io:
            ctx.record_case("runops", c, tags + ["raised"])
            continue
        mo = rs.get("ok") or {}
        if mo.get("sufficient"):
            tags.append("sufficient")
        if io["cached"] != io["uncached"]:
            tags.append("stale_answer")
        ctx.record_case("runops", c, tags)
        if "err" in rs or mo.get("cached") != io["cached"] or mo.get("uncached") != io["uncached"]:
            # exact container behaviour is C15's subject: for C05 a drift of the container model is a NOTE; the
            # deciding check on the real containers is the monitor below
            ctx.mismatch("runops", c, f"real containers {io} vs runOps {json.dumps(rs)[:300]}", io, mo, deciding=False)
        # the theorem's statement evaluated on the REAL containers
        if mo.get("sufficient") and io["cached"] != io["uncached"]:
            ctx.monitor_fail("runops", "sufficient_key_transparent", c,
                             f"sufficient key but the real container answered {io['cached']} instead of {io['uncached']}", io)


# ------------------------------------------------------------------------------------------------
# entry points
# ------------------------------------------------------------------------------------------------
COMPONENTS = ["sweep", "hist", "keys", "suff", "etag", "index", "runops"]


def _malformed(rng: random.Random, case: dict) -> dict:
    """boundary / malformed stream: odd texts, capacity 0, negative TTL"""
    case = copy.deepcopy(case)
    r = rng.random()
    if r < 0.4:
        case["ops"].insert(0, {"op": "set", "dim": "text", "val": rng.choice(["", "   ", " apple ", " pear\tfig ", "APPLE"])})
    elif r < 0.7:
        case["cap"] = 0
    else:
        case["ttl"] = -1
    return case


def run(ctx: Ctx) -> None:
    src = H.diag_keys_from_source()
    if set(src["t1"]) != H.DIAG_T1 or set(src["t2"]) != H.DIAG_T2:
        ctx.note(f"cache-diagnostic fields in the stage sources {src} differ from the exempt list "
                 f"{sorted(H.DIAG_T1)} / {sorted(H.DIAG_T2)} (the fixed list is what is exempted)")
    batch = Batch()
    etags: Tuple[dict, dict] = ({}, {})
    if ctx.tier != "search":
        for case in ctx.load_corpus("hist"):
            process(ctx, "hist", case, batch, etags)
        for case in D.sweep_cases(full=(ctx.tier != "quick")):
            process(ctx, "sweep", case, batch, etags, do_shrink=False)     # already minimal
    n = int(BUDGET.get(ctx.tier, 260) * ctx.budget_scale)
    rng = ctx.rng_for("hist" if ctx.tier != "search" else "hist-search")
    for i in range(n):
        case = D.gen_history(rng, i)
        if rng.random() < 0.12:
            case = _malformed(rng, case)
        process(ctx, "hist", case, batch, etags)
        if len(ctx.failures) >= MAX_FAILURES:
            ctx.note(f"hist: stopped after {i + 1} histories ({len(ctx.failures)} failing inputs recorded)")
            break
        if len(batch.reqs) > 4000:
            finish_batch(ctx, batch)
            batch = Batch()
    finish_batch(ctx, batch)
    ctx.record_case("etag", {"histories": etags[0].get("n", 0)}, ["observed"] if etags[0].get("n") else ["default"])
    run_runops(ctx)


def replay(ctx: Ctx, rec: dict) -> int:
    recs = [rec] if "case" in rec else rec.get("broken_correspondence", [])
    rc = 0
    for r in recs:
        comp, case = r.get("component"), uncanon(r.get("case"))
        if comp == "runops":
            io = impl_runops(case)
            rs = run_driver([dict(case, c="c05.run", kind=case["kind"])])[0]
            mo = rs.get("ok") or {}
            agree = mo.get("cached") == io["cached"] and mo.get("uncached") == io["uncached"]
            print(f"REPLAY component=runops correspondence={'agrees' if agree else 'DIFFERS'} real={io} model={json.dumps(rs)[:300]}")
            if not agree or (mo.get("sufficient") and io["cached"] != io["uncached"]):
                rc = 1
            continue
        if not isinstance(case, dict) or "ops" not in case:
            print(f"REPLAY component={comp}: aggregate observation, re-run the check to reproduce: {json.dumps(case)[:300]}")
            rc = 1
            continue
        on, off, div = run_pair(ctx, case)
        if div:
            print(f"REPLAY component={comp} key={D.classify2(case, on, off, div)[0]} caches on ({case['mode']}) vs off DIVERGE at turn {div['turn']} "
                  f"stage {div['stage']} (served from {div.get('src')}): {div['diff'][:400]}")
            rc = 1
        else:
            print(f"REPLAY component={comp} differential agrees ({len(on)} turns)")
        bad = etag_violation(on, off)
        vv = version_violation(LAST_TRACE[0])
        if bad or (vv and vv[0] == "etag"):
            print(f"REPLAY monitor etag_faithful FAILS: {bad or vv[1]}")
            rc = 1
        if vv and vv[0] == "index":
            print(f"REPLAY monitor index_version_faithful FAILS: {vv[1]}")
            rc = 1
        batch = Batch()
        for d in check_keys(case, on, batch):
            print(f"REPLAY keys DIFFER: {d}")
            rc = 1
        add_suff(case, off, batch)
        sub = Ctx(ctx.prop, ctx.tier, ctx.seed)
        try:
            finish_batch(sub, batch)
            for m in sub.mismatches:
                print(f"REPLAY keys DIFFER: {m['diff'][:400]}")
                rc = 1
            for f in sub.failures:
                print(f"REPLAY monitor {f['monitor']} FAILS: {f['detail'][:300]}")
                rc = 1
            for k, v in sub.known_seen.items():
                print(f"REPLAY known finding {k} reproduced")
        finally:
            sub.cleanup()
    if rec.get("broken_proof_obligations"):
        print("REPLAY broken proof obligations recorded:")
        for b in rec["broken_proof_obligations"]:
            print("  " + b[:500])
        rc = 1
    return rc
