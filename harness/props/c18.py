"""C18 — GEL edge weights stay bounded, decay monotonically, keys canonical.

Correspondence: whole histories over {observe, tick, merge, split, promote_clusters,
apply_promotion, gate on/off} are run on the real `clematis.engine.gel` functions and on the Lean
model (`Clem/Model/Gel.lean` at `Float`, through `clemdrv`); the full graph store after every
operation and the returned metrics are compared exactly (floats by bit pattern).
Monitors: the Lean `Bool` predicates the theorems are about (`boundedB`, `boundedCoactB`, `canonB`,
`tickSpecB`, `obsSpecB`) are evaluated by the driver on the *implementation's* states; permutation
invariance, promotion idempotence, maintenance-only-meta and gate-off identity are differential
checks on the real code.
"""
from __future__ import annotations

import copy
import json
import math
import random
from typing import Any, Dict, List, Optional, Tuple

from harness.core import Component, Ctx, b2f, f2b, run_component

RULE = ("operation histories (2..40 ops) over {observe, tick, merge, split, promote_clusters, apply_promotion, gate} "
        "with ids from a small alphabet (incl. duplicates, '', ids containing the key separator, concept-id look-alikes), "
        "scores biased to the threshold +-1ulp / ties / NaN / +-inf / +-0, settings drawn from boundary tables and classified "
        "by the real validator (accepted / rejected), one seeded PRNG; non-trivial = at least one branch tag other than "
        "'default' (clamp hit, pair cap hit, top-k cut, drop at floor, tie, ...); distinct by canonical JSON of the case")
ASSUMPTIONS = [
    "settings reach gel.py as finite floats / ints: enforced by the validator (graph.update.alpha / clamp_min / clamp_max must be finite, "
    "decay.floor >= 0 and <= clamp_max, half_life_turns an int >= 1) and re-checked on every run - a stream of non-finite settings "
    "(alpha=inf, clamp=+-inf, floor=NaN/inf) goes through the REAL validator and, should any be accepted, all monitors of that history "
    "report under key C18:gel:nonfinite_cfg",
    "ids are strings of BMP code points; Python str comparison = lexicographic on code points",
    "theorems are over a linearly ordered field; the Float instance is tied by bit-exact differential execution "
    "(+ - * / abs pow probed bit-identical to CPython) and the monitors are evaluated at Float on the implementation's states",
    "merge_candidates / split_candidates (component search) are not modelled: the REAL functions are called on the store inside the "
    "histories (ops mc/sc/mca/sca/mcp) and their results are handed to the model as oracles; they are monitored for purity (store deep-equal "
    "before/after, every weight bit and attr) and for their spec-level output contract (sorted sets of existing endpoint ids, consistent "
    "size/signature, documented order, deterministic)",
]
CLAIM = {
    "text": ("Lean theorems, generic in a linearly ordered field and unbounded in the history, about the executable model of gel.py: "
             "every record an observation writes has its weight in [clamp_min, clamp_max]; a tick multiplies by a factor in [0,1] "
             "(hypothesis on pow, discharged for the real power function), never increases a magnitude and keeps exactly the edges not "
             "below the floor, counters included; with clamp_min <= 0 <= clamp_max (what the validator enforces after the proposed fix) "
             "all weights stay in bounds over every observe/tick history from the empty store, and over every history with "
             "merge/split/promotion too for co-activation edges (for all edges when promotions attach in-bounds); for clamp_min > 0 a "
             "machine-checked counter-witness shows the bound is lost after one observe + one tick (DESIGN §5 row 12); stored keys are "
             "canonical over every history (key = src+'→'+dst, src <= dst, one record per key), edge_key is symmetric, and injective on "
             "unordered pairs for ids without the separator (collision witness otherwise); pairs_updated = min(pair_cap, C(k_used,2)), "
             "k_used <= top_k, used items are listed items with score >= threshold; observe is invariant under permutation of the items; "
             "merge/split only append to meta, promotion appends at most its concept node and only (re)writes its own concept edges, and "
             "is idempotent; with the gate off every entry point (and every history) returns the state unchanged. The relational "
             "specifications of one tick / one observation (tickSpecB / obsSpecB) are proved of the model and evaluated by Lean on the "
             "implementation's before/after states."),
    "note": ("Tied to gel.py by exact differential execution of the same definitions at Float (whole histories, full store + metrics, "
             "floats by bit pattern). Only covered by correspondence (no theorem): _graph_cfg defaulting and _as_id_score adapters "
             "(harness passes resolved values; defaults exercised by dropping keys; tuple/dict/object item shapes), attrs bookkeeping "
             "(coact counter, last_seen_turn), decayed_edges counter value, promote_clusters label/ordering, and the Float instance of "
             "every arithmetic statement (the monitors are evaluated at Float on implementation states, incl. a float-gap stream at the "
             "edges of the double range). merge_candidates/split_candidates (component search) are not modelled. pow enters the theorems as "
             "the hypothesis 0 <= pow(1/2, x) <= 1 for x >= 0 (proved for Real.rpow); Lean Float.pow was probed bit-identical to CPython's "
             "** on 2000 exponents of the form dt/half_life and is what the driver executes. Partial: key injectivity needs ids without "
             "'→' (C18_edge_key_injective_partial + C18_edge_key_collision); promotion attach weight is clamped to [-1,1], not to the "
             "update clamp, hence the co-activation reading of boundedness for histories with promotions. "
             "Round 3: (a) settings-HISTORY cases - every history runs on ONE ctx/settings object that `gate`/`set` ops edit in place "
             "(graph.enabled, clamp, mode, alpha, floor, half-life, threshold, top-k, pair cap, promotion settings); each call is compared with "
             "the model under the CURRENT values and, differentially, with the same call on a fresh deep copy of the settings "
             "(monitor settings_current_values); while a history runs NOTHING but its one long-lived ctx (plain dict ctx, .cfg holder or "
             ".config holder, per case) is handed to gel.py - the fresh-settings differential and a replay of the whole history on a long-lived "
             "ctx of another shape (monitor ctx_shape_invariant) run afterwards - so a resolved-settings memo of any shape (single slot, keyed "
             "by identity) stays warm exactly as on a live context. Round 5: the real merge_candidates/split_candidates run inside the histories (candidate -> apply -> tick -> candidate, promotions "
             "with negative attach weight, stores seeded as a loaded snapshot would install them with mixed-sign weights, asymmetric clamps); "
             "monitors candidates_pure / candidates_contract. (b) component gel_turn drives the REAL Orchestrator.run_turn (harness/lib/turnrig.py) "
             "with graph.enabled on worlds with 4-7 episodes / scripted T2 hits, observe_top_k below the number of hits and t2.ranking "
             "weights that list hits away from score order; after every turn state.graph must equal the model's observe on ALL hits T2 "
             "returned (with their scores) followed by tick(1), and the Lean monitor obsTopB (theorem C18_observe_topk_by_score) is "
             "evaluated on the stores captured around the real gel_observe call. Fixed finding C18:gel:nonfinite_cfg: "
             "non-finite settings (alpha=inf, clamp=+-inf) used to pass the validator and produce NaN/inf weights; the validator now rejects them "
             "and the stream stays in the generator as a regression guard."),
    "technique": "Lean 4 invariant proofs (induction over op histories, ordered-field carrier, permutation lemma via canonical sort) + exact whole-history correspondence with gel.py + Lean monitors on implementation states",
    "design_ref": "DESIGN.md §4 C18, §5 row 12",
}
DRIVER_MODULES = ['HGel']
MODELLED = {
    "clematis/engine/gel.py": ["_graph_cfg", "_edge_key", "_clamp", "_ensure_graph_store", "observe_retrieval", "tick",
                               "apply_merge", "apply_split", "promote_clusters", "apply_promotion"],
}
TRUSTED = ["modelled, not verified: CPython dict insertion order, list.sort stability, str comparison by code point; "
           "IEEE-754 arithmetic and libm pow (probed bit-identical between Lean Float and CPython)"]

ARROW = "→"
IDS = ["a", "b", "c", "d", "e", "ab", "A", "", "b" + ARROW + "c", "a" + ARROW + "b", "c::a", "c::b", "é", "n10", "n2"]
GEL_DEFAULTS = {"coactivation_threshold": 0.20, "observe_top_k": 64, "pair_cap_per_obs": 2048,
                "mode": "additive", "alpha": 0.02, "clamp_min": -1.0, "clamp_max": 1.0,
                "half_life_turns": 200, "floor": 0.0,
                "label_mode": "lexmin", "topk_label_ids": 3, "attach_weight": 0.5}


def _ulp_up(x: float) -> float:
    return math.nextafter(x, math.inf)


def _ulp_dn(x: float) -> float:
    return math.nextafter(x, -math.inf)


def R(x: float) -> str:
    """floats are stored in cases as repr strings (exact round trip, JSON-safe incl. nan/inf)."""
    return repr(float(x))


def F(s: Any) -> float:
    return float(s)


def _num(v: Any) -> Any:
    """case value -> python value handed to the real code ('f:<repr>' marks a float)."""
    if isinstance(v, str) and v.startswith("f:"):
        return float(v[2:])
    return v


def _fv(x: float) -> str:
    return "f:" + repr(float(x))


# --------------------------------------------------------------------------------------------
# settings
# --------------------------------------------------------------------------------------------

def graph_dict(cfgc: dict) -> dict:
    """The `graph` config dict handed to the real code, built from the case."""
    g: Dict[str, Any] = {}
    for k in ("enabled", "coactivation_threshold", "observe_top_k", "pair_cap_per_obs"):
        if k in cfgc:
            g[k] = _num(cfgc[k])
    for sub in ("update", "decay", "promotion", "merge", "split"):
        if sub in cfgc:
            g[sub] = {k: _num(v) for k, v in cfgc[sub].items()}
    return g


def resolve(cfgc: dict) -> Tuple[dict, bool, dict]:
    """(graph dict for the ctx, accepted by the real validator?, resolved settings for the model).
    Accepted configs reach gel.py normalised by the validator, as in the engine."""
    g = graph_dict(cfgc)
    accepted = False
    try:
        from configs.validate import validate_config_api
        ok, _errs, norm = validate_config_api({"graph": copy.deepcopy(g)})
        if ok:
            accepted = True
            g = norm["graph"]
    except Exception:
        accepted = False
    return g, accepted, model_of(g)


def model_of(g: dict) -> dict:
    """Resolved settings (what `_graph_cfg` + the float()/int()/str() reads produce) of a `graph` dict."""
    upd = g.get("update") or {}
    dec = g.get("decay") or {}
    pr = g.get("promotion") or {}
    D = GEL_DEFAULTS
    m = {
        "enabled": bool(g.get("enabled", False)),
        "threshold": float(g.get("coactivation_threshold", D["coactivation_threshold"])),
        "topK": int(g.get("observe_top_k", D["observe_top_k"])),
        "pairCap": int(g.get("pair_cap_per_obs", D["pair_cap_per_obs"])),
        "proportional": str(upd.get("mode", D["mode"])) == "proportional",
        "alpha": float(upd.get("alpha", D["alpha"])),
        "cmin": float(upd.get("clamp_min", D["clamp_min"])),
        "cmax": float(upd.get("clamp_max", D["clamp_max"])),
        "hl": float(dec.get("half_life_turns", D["half_life_turns"])),
        "floor": float(dec.get("floor", D["floor"])),
        "concatK": str(pr.get("label_mode", D["label_mode"])) == "concat_k",
        "topkLabel": int(pr.get("topk_label_ids", D["topk_label_ids"])),
        "attachW": float(pr.get("attach_weight", D["attach_weight"])),
    }
    return m


def apply_set(g: dict, path: list, value: Any) -> None:
    """In-place edit of the ONE settings object (nested section dicts are edited in place too)."""
    d = g
    for p_ in path[:-1]:
        if not isinstance(d.get(p_), dict):
            d[p_] = {}
        d = d[p_]
    d[path[-1]] = _num(value)


def m_repr(m: dict) -> dict:
    return {k: (R(v) if isinstance(v, float) else v) for k, v in m.items()}


def m_parse(mr: dict) -> dict:
    return {k: (F(v) if isinstance(v, str) else v) for k, v in mr.items()}


FLOAT_KEYS = ("threshold", "alpha", "cmin", "cmax", "hl", "floor", "attachW")


def cfg_class(accepted: bool, m: dict) -> str:
    if not all(math.isfinite(m[k]) for k in FLOAT_KEYS):
        # accepted non-finite settings: the class of the (fixed) finding C18:gel:nonfinite_cfg - every monitor of such a
        # history reports under that key, so the violation comes back if the validator lets them through again;
        # rejected ones are outside the property's quantifier (arithmetic on inf/NaN): exact correspondence only
        return "nonfinite_cfg" if accepted else "rejected_nonfinite"
    if not accepted:
        return "rejected"
    if not (m["cmin"] <= 0.0 <= m["cmax"]):
        return "clamp_excludes_zero"
    return "valid"


def model_cfg_json(m: dict, enabled: Optional[bool] = None) -> dict:
    j = dict(m)
    for k in FLOAT_KEYS:
        j[k] = f2b(m[k])
    if enabled is not None:
        j["enabled"] = enabled
    return j


class _Obj:
    pass


def make_ctx(style: str, g: dict) -> Any:
    if style == "dict":
        return {"graph": g}
    o = _Obj()
    if style == "cfg":
        o.cfg = {"graph": g}
    else:
        o.config = {"graph": g}
    return o


# --------------------------------------------------------------------------------------------
# state snapshots
# --------------------------------------------------------------------------------------------

def wbits(w: Any) -> str:
    try:
        w = float(w)
    except Exception:
        return "bad:" + repr(w)[:40]
    return "nan" if w != w else f2b(w)


def get_store(state: Any) -> Any:
    if isinstance(state, dict):
        return state.get("graph")
    return getattr(state, "graph", None)


def snap(state: Any) -> Any:
    g = get_store(state)
    if g is None:
        return None
    nodes = []
    for nid, n in (g.get("nodes") or {}).items():
        row = [nid, n.get("label")]
        if n.get("id") != nid or n.get("attrs") != {"kind": "concept"}:
            row.append({"unexpected": repr(n)[:120]})
        nodes.append(row)
    edges = []
    for key, r in (g.get("edges") or {}).items():
        attrs = r.get("attrs")
        e = {"k": key, "src": r.get("src"), "dst": r.get("dst"), "w": wbits(r.get("weight")),
             "concept": r.get("rel") == "concept",
             "coact": (attrs or {}).get("coact"),
             "lst": "absent" if not isinstance(attrs, dict) or "last_seen_turn" not in attrs else attrs["last_seen_turn"]}
        if r.get("id") != key or r.get("rel") not in ("coact", "concept") or r.get("updated_at") is not None \
                or not isinstance(attrs, dict) or set(r.keys()) != {"id", "src", "dst", "weight", "rel", "updated_at", "attrs"}:
            e["unexpected"] = repr(r)[:160]
        edges.append(e)
    meta = g.get("meta") or {}
    merges = [{"nodes": list(r["nodes"]), "size": r["size"], "avg_w": wbits(r["avg_w"]), "diameter": r["diameter"],
               "sig": r["signature"]} for r in meta.get("merges", [])]
    splits = [{"original": list(r["original"]), "parts": [list(p) for p in r["parts"]], "removed": r["removed_edges"],
               "orig": r["orig_edges"], "sig": r["signature"]} for r in meta.get("splits", [])]
    out = {"nodes": nodes, "edges": edges, "merges": merges, "splits": splits,
           "cc": meta.get("concept_nodes_count"), "ec": meta.get("edges_count")}
    if meta.get("promotions") not in ([], None) or meta.get("schema") != "v1":
        out["unexpected_meta"] = repr(meta)[:160]
    return out


def canon_state(s: Any) -> Any:
    """order-insensitive view (dict order is not an observable the property talks about)."""
    if s is None:
        return None
    s = dict(s)
    s["edges"] = sorted(s["edges"], key=lambda e: e["k"])
    s["nodes"] = sorted(s["nodes"], key=lambda n: n[0])
    return s


def _canon_w(e: dict) -> dict:
    e = dict(e)
    w = e.get("w")
    if isinstance(w, str) and w.isdigit() and b2f(w) != b2f(w):
        e["w"] = "nan"
    return e


def _nan_norm(x: Any) -> Any:
    if isinstance(x, dict):
        return {k: ("nan" if k in ("w", "avg_w") and isinstance(v, str) and v.isdigit() and b2f(v) != b2f(v) else _nan_norm(v))
                for k, v in x.items()}
    if isinstance(x, list):
        return [_nan_norm(v) for v in x]
    return x


# --------------------------------------------------------------------------------------------
# the component
# --------------------------------------------------------------------------------------------

def merge_rec(cl: dict) -> dict:
    nodes = list(cl.get("nodes", []))
    return {"nodes": nodes, "size": int(cl.get("size", len(nodes))), "avg_w": float(_num(cl.get("avg_w", 0.0))),
            "diameter": int(cl.get("diameter", 0)), "sig": str(cl.get("signature", ""))}


def split_rec(sp: dict) -> dict:
    return {"original": list(sp.get("original", [])), "parts": [list(p) for p in sp.get("parts", [])],
            "removed": int(sp.get("removed_edges", 0)), "orig": int(sp.get("orig_edges", 0)),
            "sig": str(sp.get("signature", ""))}


def promo_rec(p: dict) -> dict:
    cid = str(p.get("concept_id"))
    return {"cid": cid, "label": str(p.get("label", cid)), "members": [str(x) for x in p.get("members", [])],
            "w": float(_num(p.get("attach_weight", 0.5)))}


def _py(d: dict) -> dict:
    return {k: _num(v) for k, v in d.items()}


def perm_of(items: list, salt: int) -> list:
    """a deterministic non-trivial permutation of the item list."""
    n = len(items)
    if n < 2:
        return list(items)
    k = (salt % (n - 1)) + 1
    rot = items[k:] + items[:k]
    return rot[::-1] if salt % 2 else rot


def seed_edges(spec: list) -> List[dict]:
    """canonical edge rows (snapshot form) of a `seed` op: [a, b, 'f:w', concept, coact, lst]."""
    # the store keeps edges in a dict keyed by the key STRING: two different pairs whose strings coincide (ids that
    # contain the arrow, e.g. ('b→c','a') and ('c','a→b')) are one record there — first position, last value
    rows: Dict[str, dict] = {}
    for a, b, w, concept, coact, lst in spec:
        src, dst = (a, b) if a <= b else (b, a)
        rows[src + ARROW + dst] = {"k": src + ARROW + dst, "src": src, "dst": dst, "w": F(_num(w)), "concept": bool(concept),
                                   "coact": coact, "lst": lst}
    return list(rows.values())


def install_seed(state: Any, spec: list) -> None:
    edges: Dict[str, Any] = {}
    for e in seed_edges(spec):
        attrs: Dict[str, Any] = {}
        if e["coact"] is not None:
            attrs["coact"] = e["coact"]
        if e["lst"] != "absent":
            attrs["last_seen_turn"] = e["lst"]
        edges[e["k"]] = {"id": e["k"], "src": e["src"], "dst": e["dst"], "weight": e["w"],
                         "rel": "concept" if e["concept"] else "coact", "updated_at": None, "attrs": attrs}
    store = {"nodes": {}, "edges": edges,
             "meta": {"schema": "v1", "merges": [], "splits": [], "promotions": [], "concept_nodes_count": 0}}
    if isinstance(state, dict):
        state["graph"] = store
    else:
        state.graph = store


def merge_contract(cands: Any, again: Any, store_snap: Any) -> Optional[str]:
    """spec-level output contract of merge_candidates: deterministic; clusters are sorted lists of distinct existing
    endpoint ids with consistent size/signature; ordered by (-avg_w, -size, nodes)."""
    if repr(cands) != repr(again):
        return "two consecutive calls returned different candidates"
    ends = set()
    for e in (store_snap or {"edges": []})["edges"]:
        ends.add(e["src"]); ends.add(e["dst"])
    keys = []
    for c in cands:
        n = c.get("nodes")
        if not isinstance(n, list) or n != sorted(set(n)) or not set(n) <= ends:
            return f"cluster nodes {n!r} are not a sorted set of existing endpoint ids"
        if c.get("size") != len(n) or c.get("signature") != "|".join(n) or not (c.get("avg_w", 0.0) >= 0.0):
            return f"inconsistent candidate {c!r}"
        keys.append((-float(c["avg_w"]), -int(c["size"]), tuple(n)))
    if keys != sorted(keys):
        return "candidates not in (-avg_w, -size, nodes) order"
    return None


def split_contract(cands: Any, again: Any, store_snap: Any) -> Optional[str]:
    if repr(cands) != repr(again):
        return "two consecutive calls returned different candidates"
    ends = set()
    for e in (store_snap or {"edges": []})["edges"]:
        ends.add(e["src"]); ends.add(e["dst"])
    keys = []
    for c in cands:
        o = c.get("original")
        if not isinstance(o, list) or o != sorted(set(o)) or not set(o) <= ends:
            return f"original {o!r} is not a sorted set of existing endpoint ids"
        flat = [x for p_ in c.get("parts", []) for x in p_]
        if len(flat) != len(set(flat)) or not set(flat) <= set(o) or len(c.get("parts", [])) < 2:
            return f"parts {c.get('parts')!r} are not >= 2 disjoint subsets of the original"
        if not (0 <= c.get("removed_edges", -1) <= c.get("orig_edges", -1)):
            return f"edge counts inconsistent in {c!r}"
        keys.append((-int(c["removed_edges"]), tuple(o)))
    if keys != sorted(keys):
        return "candidates not in (-removed_edges, original) order"
    return None


CAND_OPS = ("mc", "sc", "mca", "sca", "mcp")


class GelComp(Component):
    name = "gel"
    #: oracle results (candidate lists actually returned by the real code) per case, handed to the model by `request`
    _oracle: Dict[str, Dict[int, Any]] = {}
    budget = {"quick": 900, "thorough": 40000, "search": 6000}

    # ---- generator --------------------------------------------------------------------------
    def gen_cfg(self, rng: random.Random, stream: str) -> dict:
        alpha = rng.choice([0.02, 0.3, 0.5, 1.0, 2.5, 1e-9, 0.25, round(rng.random(), 3) + 0.001])
        clamps = rng.choice([(-1.0, 1.0), (-1.0, 1.0), (-0.9, 0.9), (-0.1, 0.1), (0.0, 1.0), (-1.0, 0.0), (0.0, 0.05),
                             (-0.5, 0.25), (-2.0, 3.0), (-0.3, 0.3), (0.0, 0.3), (-1.0, 0.3), (-1.0, 0.3), (-0.2, 1.0)])
        hl: Any = rng.choice([1, 1, 2, 3, 10, 200])
        thr = rng.choice([0.0, 0.2, 0.2, 0.5, 1.0, round(rng.random(), 2)])
        topk = rng.choice([1, 2, 3, 3, 4, 5, 64])
        cap = rng.choice([0, 1, 2, 3, 5, 2048, 2048])
        mode = rng.choice(["additive", "proportional"])
        floor = rng.choice([0.0, 0.0, 0.01, 0.05, 0.1, alpha * 0.5, alpha * 0.25, alpha, clamps[1], clamps[1] * 0.5])
        if floor > clamps[1] or floor < 0:
            floor = max(0.0, clamps[1])
        attach = rng.choice([0.5, -0.5, 1.0, -1.0, 0.0, 0.3, 0.05])
        enabled = True
        if stream == "extreme":
            # float-gap probe: finite settings at the edges of the double range (all accepted by the validator)
            alpha = rng.choice([1e308, 1.7976931348623157e308, 5e-324, 1e-300, 0.5, 1.0])
            clamps = rng.choice([(-1e308, 1e308), (-1.7976931348623157e308, 1.7976931348623157e308), (-5e-324, 5e-324),
                                 (-1.0, 5e-324), (0.0, 1e-320), (-1.0, 1.0), (-0.0, 1.0), (-1.0, 0.0)])
            floor = rng.choice([0.0, 5e-324, 1e-310, 0.0])
            if floor > clamps[1]:
                floor = 0.0
            hl = rng.choice([1, 1, 3, 10 ** 6, 2 ** 31])
            thr = rng.choice([0.0, 5e-324, 1.0, math.nextafter(1.0, 0.0), 0.2])
        elif stream == "excl":
            clamps = rng.choice([(0.5, 1.0), (0.1, 0.2), (0.02, 1.0), (1e-3, 0.5)])
            floor = rng.choice([0.0, 0.0, 0.01])
        elif stream == "rejected":
            what = rng.choice(["clamps", "clamps_neg", "alpha", "hl", "topk", "cap", "mode", "thr", "attach", "floor"])
            if what == "clamps":
                # (inverted bounds are left out: what `_clamp` does with lo > hi is incidental)
                clamps = rng.choice([(0.5, 0.5), (0.0, 0.0), (-0.25, -0.25)])
            elif what == "clamps_neg":
                clamps = rng.choice([(-1.0, -0.5), (-0.2, -0.1)])
                floor = 0.0
            elif what == "alpha":
                alpha = rng.choice([0.0, -0.1, -1.0])
            elif what == "hl":
                hl = rng.choice([0, -1, -5])
            elif what == "topk":
                topk = rng.choice([0, -1, -2])
            elif what == "cap":
                cap = rng.choice([-1, -3])
            elif what == "mode":
                mode = rng.choice(["other", "Proportional", ""])
            elif what == "thr":
                thr = rng.choice([-0.5, 1.5])
            elif what == "attach":
                attach = rng.choice([1.5, -2.0])
            else:
                floor = clamps[1] + 0.5
        elif stream == "nonfinite":
            what = rng.choice(["alpha", "alpha", "clamps", "floor"])
            if what == "alpha":
                alpha = math.inf
                mode = "proportional" if rng.random() < 0.7 else mode
            elif what == "clamps":
                clamps = rng.choice([(-math.inf, math.inf), (-1.0, math.inf), (-math.inf, 1.0)])
                alpha = rng.choice([1e308, 0.5, alpha])
            else:
                floor = math.nan
        cfgc: Dict[str, Any] = {
            "enabled": enabled,
            "coactivation_threshold": _fv(thr),
            "observe_top_k": topk,
            "pair_cap_per_obs": cap,
            "update": {"mode": mode, "alpha": _fv(alpha), "clamp_min": _fv(clamps[0]), "clamp_max": _fv(clamps[1])},
            "decay": {"half_life_turns": hl, "floor": _fv(floor)},
            "promotion": {"enabled": True, "label_mode": rng.choice(["lexmin", "concat_k"]),
                          "topk_label_ids": rng.choice([1, 2, 3]), "attach_weight": _fv(attach)},
        }
        # merge / split pass settings (read by the REAL merge_candidates / split_candidates, which are oracles here)
        mavg = rng.choice([0.05, 0.1, 0.2, 0.2])
        cfgc["merge"] = {"enabled": True, "min_size": rng.choice([2, 2, 3]), "min_avg_w": _fv(mavg), "max_diameter": rng.choice([1, 2, 3])}
        cfgc["split"] = {"enabled": True, "weak_edge_thresh": _fv(rng.choice([0.0, 0.05, mavg])), "min_component_size": 2}
        # exercise the defaults by dropping keys now and then
        if rng.random() < 0.12:
            for path in rng.sample([("coactivation_threshold",), ("observe_top_k",), ("pair_cap_per_obs",), ("update", "mode"),
                                    ("update", "alpha"), ("update", "clamp_min"), ("update", "clamp_max"),
                                    ("decay", "half_life_turns"), ("decay", "floor"), ("promotion",), ("update",), ("decay",)],
                                   rng.choice([1, 2, 4])):
                d = cfgc
                for p in path[:-1]:
                    d = d.get(p, {})
                d.pop(path[-1], None)
        return cfgc

    SET_TABLE = [
        (["update", "clamp_max"], [_fv(1.0), _fv(0.5), _fv(0.3), _fv(0.1), _fv(0.05)]),
        (["update", "clamp_min"], [_fv(-1.0), _fv(-0.5), _fv(-0.1), _fv(0.0)]),
        (["update", "mode"], ["additive", "proportional"]),
        (["update", "alpha"], [_fv(0.02), _fv(0.3), _fv(0.6), _fv(1.0)]),
        (["decay", "floor"], [_fv(0.0), _fv(0.01), _fv(0.05), _fv(0.1)]),
        (["decay", "half_life_turns"], [1, 2, 10, 200]),
        (["coactivation_threshold"], [_fv(0.0), _fv(0.2), _fv(0.5), _fv(0.9)]),
        (["observe_top_k"], [1, 2, 3, 64]),
        (["pair_cap_per_obs"], [0, 1, 2, 2048]),
        (["promotion", "attach_weight"], [_fv(0.5), _fv(-0.5), _fv(0.05)]),
        (["promotion", "label_mode"], ["lexmin", "concat_k"]),
        (["promotion", "topk_label_ids"], [1, 2, 3]),
        (["enabled"], [False, True, True]),
    ]

    def gen_set(self, rng: random.Random) -> list:
        path, vals = rng.choice(self.SET_TABLE)
        return ["set", list(path), rng.choice(vals)]

    def gen_items(self, rng: random.Random, ids: List[str], thr: float) -> list:
        n = rng.choice([0, 1, 2, 2, 3, 3, 4, 5, 6, 8])
        pool = [thr, thr, _ulp_up(thr), _ulp_dn(thr), 0.0, -0.0, 1.0, 0.5, 0.9, 0.9, 0.8, 0.7, math.nan, math.inf,
                -math.inf, 5e-324, 1.7976931348623157e308, round(rng.random(), 2), round(rng.random(), 2)]
        items = []
        for _ in range(n):
            items.append([rng.choice(ids), R(rng.choice(pool))])
        if items and rng.random() < 0.25:   # exact duplicates / ties
            items.append(list(rng.choice(items)))
        style = rng.choice(["tuple", "tuple", "dict", "obj", "mixed"])
        return [items, style]

    def gen(self, rng: random.Random, i: int) -> dict:
        r = rng.random()
        stream = "valid" if r < 0.64 else "extreme" if r < 0.71 else "excl" if r < 0.80 else "rejected" if r < 0.93 else "nonfinite"
        cfgc = self.gen_cfg(rng, stream)
        ids = rng.sample(IDS, rng.choice([2, 3, 3, 4, 6, 9]))
        thr = F(_num(cfgc.get("coactivation_threshold", _fv(0.2))))
        hl = cfgc.get("decay", {}).get("half_life_turns", 200)
        ops: List[list] = []
        cl_lo = F(_num(cfgc.get("update", {}).get("clamp_min", _fv(-1.0))))
        cl_hi = F(_num(cfgc.get("update", {}).get("clamp_max", _fv(1.0))))
        if stream in ("valid", "extreme") and cl_lo <= cl_hi and rng.random() < 0.18:
            # a store as a loaded snapshot would install it: mixed-sign weights inside the clamp, coact and concept records
            seed, seen = [], set()
            for _ in range(rng.choice([1, 2, 3, 5])):
                a, b = rng.choice(ids), rng.choice(ids)
                if (min(a, b), max(a, b)) in seen:
                    continue
                seen.add((min(a, b), max(a, b)))
                w = rng.choice([cl_lo, cl_hi, cl_lo * 0.5, cl_hi * 0.5, -0.25, 0.25, -0.04, 0.0, -0.0])
                w = min(max(w, cl_lo), cl_hi)
                concept = rng.random() < 0.3
                seed.append([a, b, _fv(w), concept, None if concept else rng.choice([1, 2, 7]),
                             "absent" if concept else rng.choice([None, 0, 3])])
            ops.append(["seed", seed])
        if rng.random() < 0.08:
            ops.append(["gate", False])
        if stream == "valid" and rng.random() < 0.15:
            # the maintenance cycle of consecutive turns: observe.. -> merge pass (+promotion) -> tick -> next merge / split pass
            its = [[i_, R(s_)] for i_, s_ in zip(rng.sample(ids, min(len(ids), 3)), (0.9, 0.8, 0.7))]
            for k_ in range(rng.choice([2, 4])):
                ops.append(["obs", its, k_, "tuple"])
            ops += [rng.choice([["mcp"], ["mcp"], ["promote", [{"nodes": [i_ for i_, _ in its]}]]]), ["tick", 1, 5],
                    rng.choice([["mc"], ["mca", 4]]), rng.choice([["sc"], ["sca", 4]]), ["tick", 1, 6], ["mc"], ["sc"]]
        nops = rng.choice([2, 4, 6, 12, 25, 40])
        turn = rng.choice([None, 0, 1, 7])
        # settings-HISTORY cases: the one settings object is edited in place between calls
        hist = stream == "valid" and rng.random() < 0.4
        for _ in range(nops):
            if hist and rng.random() < 0.2:
                ops.append(self.gen_set(rng))
                continue
            x = rng.random()
            t = turn if (turn is None or rng.random() < 0.8) else None
            if turn is not None:
                turn += rng.choice([0, 1, 1])
            if x < 0.36:
                its, style = self.gen_items(rng, ids, thr)
                ops.append(["obs", its, t, style])
            elif x < 0.60:
                dt = rng.choice([1, 1, 1, 0, 2, 3, -1, 1000, 100000, hl if isinstance(hl, int) else 1,
                                 3 * hl if isinstance(hl, int) else 3])
                if stream == "extreme":
                    dt = rng.choice([dt, 1, 1022, 1074, 1075, 1100, 10 ** 7, 2 ** 31])
                ops.append(["tick", dt, t])
            elif x < 0.64:
                nodes = rng.sample(ids, min(len(ids), rng.choice([0, 2, 3])))
                cl: Dict[str, Any] = {"nodes": sorted(nodes), "size": len(nodes), "avg_w": _fv(round(rng.random(), 3)),
                                      "diameter": rng.choice([1, 2]), "signature": "|".join(sorted(nodes))}
                if rng.random() < 0.3:
                    for k in rng.sample(["size", "avg_w", "diameter", "signature"], 2):
                        cl.pop(k)
                ops.append(["merge", cl])
            elif x < 0.67:
                nodes = sorted(rng.sample(ids, min(len(ids), rng.choice([2, 3, 4]))))
                h = len(nodes) // 2
                sp: Dict[str, Any] = {"original": nodes, "parts": [nodes[:h], nodes[h:]], "removed_edges": rng.choice([0, 1, 2]),
                                      "orig_edges": rng.choice([1, 2, 3]), "signature": "|".join(nodes)}
                if rng.random() < 0.3:
                    sp.pop(rng.choice(["removed_edges", "orig_edges", "signature"]))
                ops.append(["split", sp])
            elif x < 0.74:
                cls = [{"nodes": [rng.choice(ids) for _ in range(rng.choice([0, 1, 2, 3, 3]))]} for _ in range(rng.choice([0, 1, 2, 3]))]
                ops.append(["promote", cls])
            elif x < 0.76:
                cls = [{"nodes": [rng.choice(ids) for _ in range(rng.choice([0, 1, 2, 4]))]} for _ in range(rng.choice([1, 2, 3]))]
                ops.append(["pc", cls])
            elif x < 0.81:
                p: Dict[str, Any] = {"concept_id": rng.choice(["c::" + rng.choice(ids), rng.choice(ids), "c::a"]),
                                     "label": rng.choice(ids), "members": [rng.choice(ids) for _ in range(rng.choice([0, 1, 2, 3]))],
                                     "attach_weight": _fv(rng.choice([0.5, -0.5, 0.05, 1.0, -1.0, 0.0, 2.0]))}
                if rng.random() < 0.3:
                    p.pop(rng.choice(["label", "attach_weight"]))
                ops.append(["ap", p])
            elif x < 0.85:
                ops.append(["mc"])
            elif x < 0.88:
                ops.append(["sc"])
            elif x < 0.91:
                ops.append(["mca", rng.choice([1, 4])])
            elif x < 0.93:
                ops.append(["sca", rng.choice([1, 4])])
            elif x < 0.96:
                ops.append(["mcp"])
            else:
                ops.append(["gate", rng.random() < 0.5])
        return {"cfg": cfgc, "ctx_style": rng.choice(["dict", "cfg", "config"]),
                "state_style": rng.choice(["obj", "obj", "dict"]), "ops": ops}

    # ---- implementation adapter -----------------------------------------------------------------
    @staticmethod
    def _mk_items(its: list, style: str) -> list:
        out = []
        for n, (i, s) in enumerate(its):
            sc = F(s)
            st = style if style != "mixed" else ["tuple", "dict", "obj", "dict2"][n % 4]
            if st == "tuple":
                out.append((i, sc))
            elif st == "dict":
                out.append({"id": i, "score": sc})
            elif st == "dict2":
                out.append({"episode_id": i, "similarity": sc})
            else:
                o = _Obj()
                o.id = i
                o.score = sc
                out.append(o)
        return out

    def impl(self, case: dict) -> Any:
        from clematis.engine import gel
        g, accepted, m = resolve(case["cfg"])
        g = copy.deepcopy(g)
        state: Any = {} if case.get("state_style") == "dict" else _Obj()
        # ONE ctx / settings object for the whole history; `gate` and `set` edit it in place
        ctx = make_ctx(case.get("ctx_style", "dict"), g)
        out: List[dict] = []
        pending: List[tuple] = []
        oracle: Dict[int, Any] = {}
        for idx, op in enumerate(case["ops"]):
            enabled = bool(g.get("enabled", False))
            pre = snap(state)
            rec: Dict[str, Any] = {"pre": pre, "enabled": enabled, "m": m_repr(model_of(g))}
            tag = op[0]
            # kept for the differential passes below (run AFTER the whole history: nothing but the one long-lived
            # ctx is handed to gel.py while the history runs, so a memo of any shape - single slot, keyed by id - stays warm)
            if tag not in ("gate", "set", "seed"):
                pending.append((len(out), op, copy.deepcopy(state), copy.deepcopy(g)))
            if tag == "gate":
                g["enabled"] = bool(op[1])
                r: Any = None
            elif tag == "set":
                apply_set(g, op[1], op[2])
                r = None
            elif tag == "seed":
                install_seed(state, op[1])
                r = None
            elif tag in CAND_OPS:
                # the REAL candidate pass (an oracle for the model): it must not touch the store
                fn = gel.split_candidates if tag in ("sc", "sca") else gel.merge_candidates
                before = snap(state)
                cands = fn(ctx, state)
                mid = snap(state)
                again = fn(ctx, state)
                rec["pure"] = (before == mid == snap(state)) or (before is None and enabled and mid == snap(state) and
                                                                 mid == {"nodes": [], "edges": [], "merges": [], "splits": [], "cc": 0, "ec": None})
                rec["pure_detail"] = None if rec["pure"] else {"before": before, "after": snap(state)}
                rec["contract"] = (split_contract if tag in ("sc", "sca") else merge_contract)(cands, again, mid)
                rec["ncand"] = len(cands)
                r = None
                if tag == "mca":
                    app = cands[: int(op[1])]
                    for c_ in app:
                        gel.apply_merge(ctx, state, c_)
                    oracle[idx] = [dict(merge_rec(c_), avg_w=R(merge_rec(c_)["avg_w"])) for c_ in app]
                elif tag == "sca":
                    app = cands[: int(op[1])]
                    for c_ in app:
                        gel.apply_split(ctx, state, c_)
                    oracle[idx] = [split_rec(c_) for c_ in app]
                elif tag == "mcp":
                    oracle[idx] = [list(c_["nodes"]) for c_ in cands]
                    ps = gel.promote_clusters(ctx, state, cands)
                    r = [{"cid": p["concept_id"], "label": p["label"], "members": list(p["members"]), "w": wbits(p["attach_weight"])} for p in ps]
                    idem = True
                    for p in ps:
                        gel.apply_promotion(ctx, state, p)
                        st2 = copy.deepcopy(state)
                        gel.apply_promotion(ctx, st2, p)
                        idem = idem and snap(st2) == snap(state)
                    rec["idem"] = idem
                if idx in oracle:
                    rec["oracle"] = oracle[idx]
            elif tag == "obs":
                items = self._mk_items(op[1], op[3] if len(op) > 3 else "tuple")
                # differential: the same observation with the items listed in another order
                st2 = copy.deepcopy(state)
                mt = gel.observe_retrieval(ctx, state, items, turn=op[2], agent="A")
                r = {"k_in": mt["k_in"], "k_used": mt["k_used"], "pairs_updated": mt["pairs_updated"]}
                mt2 = gel.observe_retrieval(ctx, st2, perm_of(items, idx + len(items)), turn=op[2], agent="A")
                rec["perm_same"] = (canon_state(snap(st2)) == canon_state(snap(state))
                                    and [mt2[k] for k in ("k_in", "k_used", "pairs_updated")] == [r[k] for k in ("k_in", "k_used", "pairs_updated")])
                rec["echo_ok"] = (mt.get("event") == "observe_retrieval" and mt.get("agent") == "A")
            elif tag == "tick":
                mt = gel.tick(ctx, state, decay_dt=op[1], turn=op[2], agent="A")
                r = {"decayed": mt["decayed_edges"], "dropped": mt["dropped_edges"]}
            elif tag == "merge":
                mt = gel.apply_merge(ctx, state, _py(op[1]))
                r = None
                rec["ret"] = [mt.get("size"), wbits(mt.get("avg_w")), mt.get("diameter")]
            elif tag == "split":
                mt = gel.apply_split(ctx, state, _py(op[1]))
                r = None
                rec["ret"] = [mt.get("removed_edges"), mt.get("parts")]
            elif tag == "pc":
                ps = gel.promote_clusters(ctx, state, copy.deepcopy(op[1]))
                r = [{"cid": p["concept_id"], "label": p["label"], "members": list(p["members"]), "w": wbits(p["attach_weight"])} for p in ps]
            elif tag == "ap":
                mt = gel.apply_promotion(ctx, state, _py(op[1]))
                r = None
                rec["ret"] = [mt.get("concept"), mt.get("members")]
                st2 = copy.deepcopy(state)
                gel.apply_promotion(ctx, st2, _py(op[1]))
                rec["idem"] = snap(st2) == snap(state)
            elif tag == "promote":
                ps = gel.promote_clusters(ctx, state, copy.deepcopy(op[1]))
                r = [{"cid": p["concept_id"], "label": p["label"], "members": list(p["members"]), "w": wbits(p["attach_weight"])} for p in ps]
                idem = True
                for p in ps:
                    gel.apply_promotion(ctx, state, p)
                    st2 = copy.deepcopy(state)
                    gel.apply_promotion(ctx, st2, p)
                    idem = idem and snap(st2) == snap(state)
                rec["idem"] = idem
            else:
                raise ValueError(f"bad op {tag}")
            rec["r"] = r
            rec["s"] = snap(state)
            out.append(rec)
        # differential pass 1: every call again on a copy of its pre-state with a FRESH deep copy of the settings then in force
        style = case.get("ctx_style", "dict")
        for i, op, st_f, g_f in pending:
            rec = out[i]
            try:
                rf = self._plain_call(gel, make_ctx(style, g_f), st_f, op)
                rec["fresh_same"] = (canon_state(snap(st_f)) == canon_state(rec["s"]) and rf == rec["r"])
            except Exception as e:  # the fresh-settings run must behave like the in-use one
                rec["fresh_same"] = False
                rec["fresh_exc"] = type(e).__name__
        # differential pass 2: the whole history again on ONE long-lived ctx of another accepted shape (plain dict ctx /
        # ctx.cfg holder / ctx.config holder), its own settings dicts edited in place the same way
        other = {"dict": "cfg", "cfg": "config", "config": "dict"}[style if style in ("dict", "cfg", "config") else "dict"]
        g2 = copy.deepcopy(resolve(case["cfg"])[0])
        ctx2 = make_ctx(other, g2)
        state2: Any = {} if case.get("state_style") == "dict" else _Obj()
        for i, op in enumerate(case["ops"]):
            rec = out[i]
            try:
                if op[0] == "gate":
                    g2["enabled"] = bool(op[1])
                    r2: Any = None
                elif op[0] == "set":
                    apply_set(g2, op[1], op[2])
                    r2 = None
                elif op[0] == "seed":
                    install_seed(state2, op[1])
                    r2 = None
                else:
                    r2 = self._plain_call(gel, ctx2, state2, op)
                rec["shape_same"] = (canon_state(snap(state2)) == canon_state(rec["s"]) and r2 == rec["r"])
            except Exception as e:
                rec["shape_same"] = False
                rec["shape_exc"] = type(e).__name__
        if oracle:
            GelComp._oracle[json.dumps(case, sort_keys=True)] = oracle
        return {"trace": out, "accepted": accepted, "m": m_repr(m)}

    def _oracle_for(self, case: dict) -> Dict[int, Any]:
        if not any(op[0] in ("mca", "sca", "mcp") for op in case["ops"]):
            return {}
        key = json.dumps(case, sort_keys=True)
        if key not in GelComp._oracle:
            self.impl(case)
        return GelComp._oracle.get(key, {})

    def _plain_call(self, gel: Any, ctx: Any, state: Any, op: list) -> Any:
        """One API call, no differentials; returns what the trace records under `r`."""
        tag = op[0]
        if tag == "obs":
            mf = gel.observe_retrieval(ctx, state, self._mk_items(op[1], op[3] if len(op) > 3 else "tuple"), turn=op[2], agent="A")
            return {"k_in": mf["k_in"], "k_used": mf["k_used"], "pairs_updated": mf["pairs_updated"]}
        if tag == "tick":
            mf = gel.tick(ctx, state, decay_dt=op[1], turn=op[2], agent="A")
            return {"decayed": mf["decayed_edges"], "dropped": mf["dropped_edges"]}
        if tag == "merge":
            gel.apply_merge(ctx, state, _py(op[1]))
            return None
        if tag == "split":
            gel.apply_split(ctx, state, _py(op[1]))
            return None
        if tag == "ap":
            gel.apply_promotion(ctx, state, _py(op[1]))
            return None
        if tag in CAND_OPS:
            fn = gel.split_candidates if tag in ("sc", "sca") else gel.merge_candidates
            cands = fn(ctx, state)
            if tag == "mca":
                for c_ in cands[: int(op[1])]:
                    gel.apply_merge(ctx, state, c_)
            elif tag == "sca":
                for c_ in cands[: int(op[1])]:
                    gel.apply_split(ctx, state, c_)
            elif tag == "mcp":
                ps = gel.promote_clusters(ctx, state, cands)
                for p in ps:
                    gel.apply_promotion(ctx, state, p)
                return [{"cid": p["concept_id"], "label": p["label"], "members": list(p["members"]), "w": wbits(p["attach_weight"])} for p in ps]
            return None
        if tag in ("pc", "promote"):
            ps = gel.promote_clusters(ctx, state, copy.deepcopy(op[1]))
            r = [{"cid": p["concept_id"], "label": p["label"], "members": list(p["members"]), "w": wbits(p["attach_weight"])} for p in ps]
            if tag == "promote":
                for p in ps:
                    gel.apply_promotion(ctx, state, p)
            return r
        raise ValueError(f"bad op {tag}")

    # ---- model request / comparison -------------------------------------------------------------
    def request(self, case: dict) -> dict:
        _g, _acc, m = resolve(case["cfg"])
        gcur = copy.deepcopy(_g)
        ops = []
        orc = self._oracle_for(case)
        for oi, op in enumerate(case["ops"]):
            tag = op[0]
            if tag == "seed":
                ops.append(["seed", [dict(e, w=f2b(e["w"])) for e in seed_edges(op[1])]])
            elif tag in ("mc", "sc"):
                ops.append(["cand"])
            elif tag == "mca":
                ops.append(["merges", [dict(mr_, avg_w=f2b(F(mr_["avg_w"]))) for mr_ in orc.get(oi, [])]])
            elif tag == "sca":
                ops.append(["splits", list(orc.get(oi, []))])
            elif tag == "mcp":
                ops.append(["candpromote", [list(n_) for n_ in orc.get(oi, [])]])
            elif tag == "gate":
                gcur["enabled"] = bool(op[1])
                ops.append(["gate", bool(op[1])])
            elif tag == "set":
                apply_set(gcur, op[1], op[2])
                ops.append(["cfg", model_cfg_json(model_of(gcur))])
            elif tag == "obs":
                ops.append(["obs", [[i, f2b(F(s))] for i, s in op[1]], op[2]])
            elif tag == "tick":
                ops.append(["tick", op[1], op[2]])
            elif tag == "merge":
                mr = merge_rec(op[1])
                mr["avg_w"] = f2b(mr["avg_w"])
                ops.append(["merge", mr])
            elif tag == "split":
                ops.append(["split", split_rec(op[1])])
            elif tag in ("pc", "promote"):
                ops.append([tag, [list(c.get("nodes", [])) for c in op[1]]])
            elif tag == "ap":
                pr = promo_rec(op[1])
                pr["w"] = f2b(pr["w"])
                ops.append(["ap", pr])
            else:
                ops.append(list(op))
        return {"c": "gel", "cfg": model_cfg_json(m), "ops": ops}

    def compare(self, case, impl_out, model_out):
        if isinstance(impl_out, dict) and "trace" in impl_out:
            a = [{"r": t["r"], "s": canon_state(t["s"])} for t in impl_out["trace"]]
        else:
            a = impl_out
        if isinstance(model_out, list):
            b = [{"r": _nan_norm(o.get("r")), "s": canon_state(_nan_norm(o.get("s")))} for o in model_out]
        else:
            b = model_out
        return super().compare(case, a, b)

    # ---- monitors -----------------------------------------------------------------------------
    @staticmethod
    def _edges_for_lean(s: Any) -> list:
        if s is None:
            return []
        out = []
        for e in sorted(s["edges"], key=lambda e: e["k"]):
            w = e["w"]
            out.append({"k": e["k"], "src": e["src"], "dst": e["dst"], "w": f2b(math.nan) if w == "nan" else w,
                        "concept": bool(e["concept"]), "coact": e["coact"], "lst": e["lst"]})
        return out

    def _well_formed(self, impl_out) -> bool:
        for t in impl_out["trace"]:
            s = t["s"]
            if s is None:
                continue
            if "unexpected_meta" in s:
                return False
            for e in s["edges"]:
                if "unexpected" in e or not isinstance(e["src"], str) or not isinstance(e["dst"], str) \
                        or not (e["coact"] is None or (isinstance(e["coact"], int) and e["coact"] >= 0)) \
                        or not (e["lst"] in ("absent", None) or isinstance(e["lst"], int)) or not str(e["w"]).isdigit() and e["w"] != "nan":
                    return False
        return True

    def monitor_requests(self, case, impl_out) -> List[Tuple[str, dict]]:
        accepted = impl_out["accepted"]
        m = {k: (F(v) if isinstance(v, str) else v) for k, v in impl_out["m"].items()}
        cls = cfg_class(accepted, m)
        if not self._well_formed(impl_out):
            return [("store_shape", {"c": "const", "v": False})]
        # one classifier key per finding class: every Lean monitor of a history run under non-finite
        # settings is reported as `nonfinite_cfg`
        nonfin = cls == "nonfinite_cfg"
        cj = model_cfg_json(m)
        trace = impl_out["trace"]
        ops = case["ops"]
        rq: List[Tuple[str, dict]] = []
        states = [self._edges_for_lean(t["s"]) for t in trace]
        rq.append(("nonfinite_cfg" if nonfin else "canon", {"c": "gel.mon", "kind": "canon", "cfg": cj, "states": states}))
        if cls == "rejected_nonfinite":
            return rq
        if cls != "rejected":
            # all edges: up to (excluding) the first promotion that attaches outside the update clamp
            n_all = len(trace)
            n_set = len(trace)
            for i, op in enumerate(ops):
                if op[0] == "set" and list(op[1]) in (["update", "clamp_min"], ["update", "clamp_max"], ["update"]):
                    n_set = i      # the clamp itself was edited: boundedness is about one fixed pair of bounds
                    break
            n_all = n_set
            for i, op in enumerate(ops[:n_set]):
                if op[0] in ("ap", "promote", "mcp") and trace[i]["enabled"]:
                    if op[0] == "ap":
                        w = promo_rec(op[1])["w"]
                    else:
                        aw = m_parse(trace[i]["m"])["attachW"] if "m" in trace[i] else m["attachW"]
                        w = max(-1.0, min(1.0, aw)) if aw == aw else aw
                    if not (m["cmin"] <= w <= m["cmax"]):
                        n_all = i
                        break
            name = {"valid": "bounded", "clamp_excludes_zero": "bounded.clamp_excludes_zero",
                    "nonfinite_cfg": "nonfinite_cfg"}[cls]
            rq.append((name, {"c": "gel.mon", "kind": "bounded", "cfg": cj, "states": states[:n_all]}))
            n_co = n_set
            rq.append((name if cls != "valid" else "bounded_coact",
                       {"c": "gel.mon", "kind": "bounded_coact", "cfg": cj, "states": states[:n_co]}))
        # step monitors, grouped by the settings in force at that step (the settings object may be edited in place)
        groups: Dict[str, dict] = {}
        for op, t in zip(ops, trace):
            if not t["enabled"] or op[0] not in ("tick", "obs"):
                continue
            cjs = model_cfg_json(m_parse(t["m"])) if "m" in t else cj
            grp = groups.setdefault(json.dumps(cjs, sort_keys=True), {"cfg": cjs, "tick": [], "obs": []})
            if op[0] == "tick":
                grp["tick"].append({"pre": self._edges_for_lean(t["pre"]), "post": self._edges_for_lean(t["s"]),
                                    "dt": op[1], "decayed": t["r"]["decayed"], "dropped": t["r"]["dropped"]})
            else:
                grp["obs"].append({"pre": self._edges_for_lean(t["pre"]), "post": self._edges_for_lean(t["s"]),
                                   "items": [[i, f2b(F(s))] for i, s in op[1]],
                                   "k_in": t["r"]["k_in"], "k_used": t["r"]["k_used"], "pairs_updated": t["r"]["pairs_updated"]})
        for grp in groups.values():
            if grp["tick"]:
                rq.append(("nonfinite_cfg" if nonfin else "tick_spec", {"c": "gel.mon", "kind": "tick", "cfg": grp["cfg"], "steps": grp["tick"]}))
            if grp["obs"]:
                rq.append(("nonfinite_cfg" if nonfin else "observe_spec", {"c": "gel.mon", "kind": "obs", "cfg": grp["cfg"], "steps": grp["obs"]}))
                rq.append(("nonfinite_cfg" if nonfin else "observe_topk_by_score", {"c": "gel.mon", "kind": "obstop", "cfg": grp["cfg"], "steps": grp["obs"]}))
        return rq

    def monitors(self, case, impl_out):
        res: List[Tuple[str, bool, str]] = []
        for i, (op, t) in enumerate(zip(case["ops"], impl_out["trace"])):
            tag = op[0]
            pre, post = t["pre"], t["s"]
            if tag in CAND_OPS:
                res.append(("candidates_pure", bool(t.get("pure")),
                            f"op {i} {tag}: the candidate pass changed the store: {t.get('pure_detail')}"))
                if cfg_class(impl_out["accepted"], m_parse(impl_out["m"])) not in ("nonfinite_cfg", "rejected_nonfinite"):   # (NaN weights)
                    res.append(("candidates_contract", t.get("contract") is None, f"op {i} {tag}: {t.get('contract')}"))
            if tag == "seed":
                continue
            if not t["enabled"] and tag not in ("gate", "set"):
                ok = pre == post and t["r"] in (None, [], {"k_in": 0, "k_used": 0, "pairs_updated": 0}, {"decayed": 0, "dropped": 0}) \
                    and t.get("ret") in (None, [0, wbits(0.0), 0], [0, 0], ["", 0])
                res.append(("gate_off_identity", ok, f"op {i} {tag} with graph.enabled=false: state {pre} -> {post}, returned {t['r']} {t.get('ret')}"))
                continue
            if tag not in ("gate", "set") and "fresh_same" in t:
                res.append(("settings_current_values", bool(t["fresh_same"]),
                            f"op {i} {tag}: the call on the in-use settings object (edited in place earlier in the history) differs from "
                            f"the same call with a fresh deep copy of the current settings {t['m']}"))
            if "shape_same" in t:
                res.append(("ctx_shape_invariant", bool(t["shape_same"]),
                            f"op {i} {tag}: the same history on a long-lived ctx of another accepted shape (dict / .cfg / .config) gave a different store or result"))
            if tag in ("gate", "set"):
                res.append(("gate_off_identity", pre == post, f"op {i} {tag}: editing the settings changed the store"))
            elif tag == "obs":
                res.append(("observe_perm_invariant", bool(t.get("perm_same")), f"op {i}: observing a permutation of {op[1]} gave a different store/metrics"))
            elif tag in ("merge", "split"):
                p0 = pre or {"nodes": [], "edges": [], "merges": [], "splits": [], "cc": 0, "ec": None}
                key = "merges" if tag == "merge" else "splits"
                other = "splits" if tag == "merge" else "merges"
                exp = merge_rec(op[1]) if tag == "merge" else split_rec(op[1])
                if tag == "merge":
                    exp["avg_w"] = wbits(exp["avg_w"])
                ok = (post is not None and post["nodes"] == p0["nodes"] and post["edges"] == p0["edges"] and post[other] == p0[other]
                      and post["cc"] == p0["cc"] and post["ec"] == p0["ec"] and post[key] == p0[key] + [exp])
                res.append(("maintenance_only_meta", ok, f"op {i} {tag}: store before {p0} after {post}"))
            elif tag in ("mc", "sc"):
                p0 = pre or {"nodes": [], "edges": [], "merges": [], "splits": [], "cc": 0, "ec": None}
                res.append(("maintenance_only_meta", post == p0, f"op {i} {tag}: store before {p0} after {post}"))
            elif tag in ("mca", "sca"):
                p0 = pre or {"nodes": [], "edges": [], "merges": [], "splits": [], "cc": 0, "ec": None}
                key = "merges" if tag == "mca" else "splits"
                other = "splits" if tag == "mca" else "merges"
                exps = [dict(x) for x in (t.get("oracle") or [])]
                if tag == "mca":
                    for x in exps:
                        x["avg_w"] = wbits(F(x["avg_w"]))
                ok = (post is not None and post["nodes"] == p0["nodes"] and post["edges"] == p0["edges"] and post[other] == p0[other]
                      and post["cc"] == p0["cc"] and post["ec"] == p0["ec"] and post[key] == p0[key] + exps)
                res.append(("maintenance_only_meta", ok, f"op {i} {tag}: store before {p0} after {post}"))
            elif tag == "pc":
                res.append(("maintenance_only_meta", pre == post, f"op {i} promote_clusters changed the store"))
            elif tag in ("ap", "promote", "mcp"):
                p0 = pre or {"nodes": [], "edges": [], "merges": [], "splits": [], "cc": 0, "ec": None}
                if tag == "ap":
                    promos = [promo_rec(op[1])]
                else:
                    promos = [{"cid": p["cid"], "members": p["members"]} for p in (t["r"] or [])]
                own = set()
                for p in promos:
                    for mm in p["members"]:
                        a, b = (p["cid"], mm) if p["cid"] <= mm else (mm, p["cid"])
                        own.add(a + ARROW + b)
                cids = []
                for p in promos:
                    if p["cid"] not in cids:
                        cids.append(p["cid"])
                old_ids = [n[0] for n in p0["nodes"]]
                new_nodes = [n for n in (post or p0)["nodes"]]
                ok_nodes = new_nodes[:len(p0["nodes"])] == p0["nodes"] and [n[0] for n in new_nodes[len(p0["nodes"]):]] == [c for c in cids if c not in old_ids]
                pe = {e["k"]: e for e in p0["edges"]}
                ok_edges = post is not None and all((e["k"] in own) or pe.get(e["k"]) == e for e in post["edges"]) \
                    and all(k in {e["k"] for e in post["edges"]} for k in pe) \
                    and all(e["concept"] for e in post["edges"] if e["k"] in own)
                if not promos:      # nothing to apply: the store must be exactly as before (a candidate pass may create the empty store)
                    res.append(("promotion_only_concept", (p0 if tag == "mcp" else pre) == post, f"op {i} {tag} with no promotion changed the store"))
                    continue
                ok_meta = post is not None and post["merges"] == p0["merges"] and post["splits"] == p0["splits"] \
                    and post["cc"] == p0["cc"] + len(new_nodes) - len(p0["nodes"]) and (post["ec"] == len(post["edges"]))
                res.append(("promotion_only_concept", bool(ok_nodes and ok_edges and ok_meta),
                            f"op {i} {tag}: nodes_ok={ok_nodes} edges_ok={ok_edges} meta_ok={ok_meta}; before {p0} after {post}"))
                res.append(("promotion_idempotent", bool(t.get("idem")), f"op {i} {tag}: applying the same promotion twice changed the store"))
        return res

    def tags(self, case, impl_out):
        t = set()
        m = {k: (F(v) if isinstance(v, str) else v) for k, v in impl_out["m"].items()}
        cls = cfg_class(impl_out["accepted"], m)
        if cls != "valid":
            t.add("cfg:" + cls)
        if any(abs(m[k]) > 1e300 or 0 < abs(m[k]) < 1e-300 for k in FLOAT_KEYS):
            t.add("cfg:extreme_finite")
        for op, tr in zip(case["ops"], impl_out["trace"]):
            tag = op[0]
            if "m" in tr:
                m = m_parse(tr["m"])
            if tag == "seed":
                t.add("seeded_store")
            if tag == "mcp" and tr.get("ncand"):
                t.add("maint:merge_candidates_nonempty")
                if any(e["w"] != "nan" and b2f(e["w"]) < 0 for e in (tr["pre"] or {"edges": []})["edges"]):
                    t.add("maint:negative_weight_at_candidate_pass")
            if tag == "set":
                t.add("cfg_history:set_in_place")
            if tag == "gate":
                t.add("cfg_history:gate_in_place")
            if not tr["enabled"]:
                t.add("gate_off")
                continue
            pre_e = {e["k"]: e for e in (tr["pre"] or {"edges": []})["edges"]}
            post_e = {e["k"]: e for e in (tr["s"] or {"edges": []})["edges"]}
            if tag == "obs":
                scores = [F(s) for _, s in op[1]]
                elig = [s for s in scores if s >= m["threshold"]]
                if any(s != s for s in scores):
                    t.add("obs:nan_score")
                if len(elig) < len(scores):
                    t.add("obs:thr_drop")
                if any(s == m["threshold"] for s in scores):
                    t.add("obs:score_at_thr")
                if len(set(elig)) < len(elig):
                    t.add("obs:tie")
                ids = [i for i, _ in op[1]]
                if len(set(ids)) < len(ids):
                    t.add("obs:dup_id")
                r = tr["r"]
                if r["k_used"] < len(elig):
                    t.add("obs:topk_cut")
                if r["pairs_updated"] < r["k_used"] * (r["k_used"] - 1) // 2:
                    t.add("obs:pair_cap_hit")
                if r["pairs_updated"]:
                    t.add("obs:update")
                if any(k not in pre_e for k in post_e):
                    t.add("obs:new_edge")
                for k, e in post_e.items():
                    if pre_e.get(k) != e and e["w"] != "nan":
                        if b2f(e["w"]) == m["cmax"]:
                            t.add("obs:clamped_hi")
                        if b2f(e["w"]) == m["cmin"]:
                            t.add("obs:clamped_lo")
            elif tag == "tick":
                if tr["r"]["dropped"]:
                    t.add("tick:drop")
                if tr["r"]["decayed"]:
                    t.add("tick:decay")
                if pre_e and not tr["r"]["decayed"] and not tr["r"]["dropped"]:
                    t.add("tick:unchanged")
                if any(e["w"] != "nan" and b2f(e["w"]) < 0 for e in pre_e.values()):
                    t.add("tick:negative_w")
            elif tag in ("merge", "split"):
                t.add(tag)
            elif tag in CAND_OPS and tag != "mcp":
                if tr.get("ncand"):
                    t.add("maint:" + ("split" if tag in ("sc", "sca") else "merge") + "_candidates_nonempty")
                if any(e["w"] != "nan" and b2f(e["w"]) < 0 for e in pre_e.values()):
                    t.add("maint:negative_weight_at_candidate_pass")
            elif tag in ("ap", "promote", "mcp"):
                if len((tr["s"] or {"nodes": []})["nodes"]) > len((tr["pre"] or {"nodes": []})["nodes"]):
                    t.add("promote:new_node")
                if any(k in pre_e and pre_e[k] != e for k, e in post_e.items()):
                    t.add("promote:overwrite")
            elif tag == "pc" and tr["r"]:
                t.add("promote_clusters")
            for e in post_e.values():
                if e["k"].count(ARROW) > 1:
                    t.add("key:separator_in_id")
                if e["src"] == e["dst"]:
                    t.add("key:self_pair")
        return sorted(t) or ["default"]

    def shrink(self, case):
        ops = case["ops"]
        for i in range(len(ops) - 1, -1, -1):
            yield dict(case, ops=ops[:i] + ops[i + 1:])
        for i, op in enumerate(ops):
            if op[0] == "obs" and len(op[1]) > 1:
                for j in range(len(op[1])):
                    new = [op[0], op[1][:j] + op[1][j + 1:]] + list(op[2:])
                    yield dict(case, ops=ops[:i] + [new] + ops[i + 1:])


# --------------------------------------------------------------------------------------------
# turn level: the orchestrator -> GEL hand-off, through the REAL run_turn (harness/lib/turnrig.py)
# --------------------------------------------------------------------------------------------

WORDS = ["alpha", "beta", "gamma", "delta", "zeta", "omega", "kappa"]
TS_POOL = ["2024-01-05T00:00:00Z", "2024-03-01T00:00:00Z", "2024-06-01T00:00:00Z", "2024-09-15T00:00:00Z",
           "2024-11-01T00:00:00Z", "2024-12-01T00:00:00Z", "2024-12-30T00:00:00Z"]


def _enc(x: Any) -> Any:
    """floats -> 'f:<repr>' strings (cases must survive the replay file's float canonicalisation)."""
    if isinstance(x, float):
        return _fv(x)
    if isinstance(x, dict):
        return {k: _enc(v) for k, v in x.items()}
    if isinstance(x, list):
        return [_enc(v) for v in x]
    return x


def _dec(x: Any) -> Any:
    if isinstance(x, dict):
        return {k: _dec(v) for k, v in x.items()}
    if isinstance(x, list):
        return [_dec(v) for v in x]
    return _num(x)


def _edges_sorted(s: Any) -> list:
    return sorted((s or {"edges": []})["edges"], key=lambda e: e["k"])


class GelTurnComp(Component):
    """Real `Orchestrator.run_turn` with graph.enabled on small worlds: after every turn `state.graph` must be what
    the Gel model's `observe` gives on ALL hits T2 returned (with their scores) followed by the orchestrator's tick."""
    name = "gel_turn"
    budget = {"quick": 150, "thorough": 2500, "search": 600}
    scratch: Any = None

    def __init__(self) -> None:
        self._memo: Dict[str, Any] = {}

    # ---- generator --------------------------------------------------------------------------
    def gen(self, rng: random.Random, i: int) -> dict:
        graph = {"enabled": True,
                 "coactivation_threshold": rng.choice([0.0, 0.0, 0.1, 0.3]),
                 "observe_top_k": rng.choice([1, 2, 2, 2, 3]),
                 "pair_cap_per_obs": rng.choice([1, 2, 2048, 2048]),
                 "update": {"mode": rng.choice(["additive", "proportional"]), "alpha": rng.choice([0.3, 0.02, 0.6]),
                            "clamp_min": -1.0, "clamp_max": rng.choice([1.0, 0.5])},
                 "decay": {"half_life_turns": rng.choice([1, 2, 200]), "floor": rng.choice([0.0, 0.0, 0.05])}}
        stub = rng.random() < 0.4
        nturn = rng.choice([1, 2, 3])
        if stub:
            spec = {"cfg": {"graph": graph}, "now": "2025-01-01T00:00:00Z"}
            turns = []
            ids = ["a_hi", "b_hi", "c_lo", "d_lo", "e_mid", "f_mid"]
            for _ in range(nturn):
                n = rng.choice([3, 4, 4, 5, 6])
                chosen = rng.sample(ids, n)
                base = {"a_hi": 0.9, "b_hi": 0.8, "c_lo": 0.5, "d_lo": 0.45, "e_mid": 0.7, "f_mid": 0.7}
                hits = [[h, R(rng.choice([base[h], base[h], round(rng.random(), 2), graph["coactivation_threshold"]]))] for h in chosen]
                order = rng.choice(["asc", "shuffle", "shuffle", "desc"])
                if order == "asc":
                    hits.sort(key=lambda h: F(h[1]))
                elif order == "desc":
                    hits.sort(key=lambda h: -F(h[1]))
                else:
                    rng.shuffle(hits)
                turns.append({"text": rng.choice(WORDS), "hits": hits})
            return {"spec": _enc(spec), "turns": turns}
        neps = rng.choice([4, 5, 5, 6, 7])
        eps = []
        for j in range(neps):
            ep = {"id": f"e{j}", "text": " ".join(rng.sample(WORDS, rng.choice([1, 2, 3]))), "owner": "a1",
                  "ts": rng.choice(TS_POOL)}
            if rng.random() < 0.5:
                ep["aux"] = {"importance": rng.choice([0.0, 0.2, 0.9, 1.0])}
            eps.append(ep)
        ranking = rng.choice([{"alpha_sim": 0.2, "beta_recency": 1.0, "gamma_importance": 0.0},
                              {"alpha_sim": 0.0, "beta_recency": 1.0, "gamma_importance": 0.5},
                              {"alpha_sim": 0.1, "beta_recency": 0.0, "gamma_importance": 1.0},
                              {"alpha_sim": 0.5, "beta_recency": 0.5, "gamma_importance": 0.5},
                              {"alpha_sim": 1.0, "beta_recency": 0.0, "gamma_importance": 0.0}])
        spec = {"cfg": {"graph": graph, "t2": {"ranking": ranking, "sim_threshold": -1.0}},
                "now": "2025-01-01T00:00:00Z", "episodes": eps}
        turns = [{"text": " ".join(rng.sample(WORDS, rng.choice([1, 2]))), "hits": None} for _ in range(nturn)]
        return {"spec": _enc(spec), "turns": turns}

    # ---- implementation -----------------------------------------------------------------------
    def impl(self, case: dict) -> Any:
        import importlib
        import shutil
        import tempfile
        from pathlib import Path
        from harness.lib import turnrig as TR
        root = Path(tempfile.mkdtemp(prefix="gelturn_", dir=str(self.scratch) if self.scratch else None))
        orch = importlib.import_module("clematis.engine.orchestrator")
        corem = importlib.import_module("clematis.engine.orchestrator.core")
        had_t2 = "t2_semantic" in vars(orch)
        real_t2 = getattr(orch, "t2_semantic")
        real_obs = getattr(corem, "gel_observe")
        cap: Dict[str, Any] = {}

        def t2w(*a, **k):
            r = real_t2(*a, **k)
            cap["hits"] = [[str(getattr(h, "id", None) if not isinstance(h, dict) else h.get("id")),
                            R(getattr(h, "score", 0.0) if not isinstance(h, dict) else h.get("score", 0.0))]
                           for h in (getattr(r, "retrieved", []) or [])]
            return r

        def obsw(ctx, state, items, *a, **k):
            cap["pre_obs"] = snap(state)
            try:
                cap["handed"] = len(list(items))
            except Exception:
                cap["handed"] = None
            r = real_obs(ctx, state, items, *a, **k)
            cap["post_obs"] = snap(state)
            cap["obs"] = {kk: r.get(kk) for kk in ("k_in", "k_used", "pairs_updated")}
            return r

        out: List[dict] = []
        try:
            w = TR.build_world(root, _dec(case["spec"]))
            m = model_of(w.cfg_plain.get("graph") or {})
            setattr(orch, "t2_semantic", t2w)
            setattr(corem, "gel_observe", obsw)
            for ti, t in enumerate(case["turns"]):
                cap.clear()
                beh = None
                if t.get("hits") is not None:
                    beh = {"t2": TR.stub({"retrieved": [{"id": h, "score": F(sc), "text": ""} for h, sc in t["hits"]], "metrics": {}})}
                run = TR.run_turn(w, t.get("text", ""), ti + 1, beh)
                hits = t["hits"] if t.get("hits") is not None else cap.get("hits", [])
                tick = None
                for rec in run.logs.get("gel", []):
                    if rec.get("event") == "edge_decay":
                        tick = {"decayed": rec.get("decayed_edges"), "dropped": rec.get("dropped_edges")}
                out.append({"hits": [list(h) for h in hits], "handed": cap.get("handed"), "obs": cap.get("obs"),
                            "pre_obs": cap.get("pre_obs"), "post_obs": cap.get("post_obs"), "tick": tick,
                            "s": snap(w.state), "raised": run.raised, "turn": ti + 1})
        finally:
            if had_t2:
                setattr(orch, "t2_semantic", real_t2)
            else:
                try:
                    delattr(orch, "t2_semantic")
                except AttributeError:
                    pass
            setattr(corem, "gel_observe", real_obs)
            shutil.rmtree(root, ignore_errors=True)
        res = {"turns": out, "m": m_repr(m)}
        self._memo[json.dumps(case, sort_keys=True)] = res
        return res

    def _impl_cached(self, case: dict) -> Any:
        key = json.dumps(case, sort_keys=True)
        if key not in self._memo:
            self.impl(case)
        return self._memo[key]

    # ---- model request: observe on ALL hits T2 returned, then the orchestrator's tick(1) ----------------
    def request(self, case: dict) -> dict:
        io = self._impl_cached(case)
        ops = []
        for t in io["turns"]:
            ops.append(["obs", [[h, f2b(F(sc))] for h, sc in t["hits"]], t["turn"]])
            ops.append(["tick", 1, t["turn"]])
        return {"c": "gel", "cfg": model_cfg_json(m_parse(io["m"])), "ops": ops}

    def compare(self, case, impl_out, model_out):
        if not (isinstance(impl_out, dict) and "turns" in impl_out) or not isinstance(model_out, list):
            return Component.compare(self, case, impl_out, model_out)
        a = [{"raised": t["raised"], "obs": t["obs"], "tick": t["tick"], "edges": _edges_sorted(t["s"])} for t in impl_out["turns"]]
        b = []
        for i in range(len(impl_out["turns"])):
            o, k = model_out[2 * i], model_out[2 * i + 1]
            b.append({"raised": None, "obs": o.get("r"), "tick": k.get("r"),
                      "edges": _edges_sorted(_nan_norm(k.get("s")))})
        return Component.compare(self, case, a, b)

    # ---- monitors ---------------------------------------------------------------------------------
    def monitor_requests(self, case, impl_out) -> List[Tuple[str, dict]]:
        cj = model_cfg_json(m_parse(impl_out["m"]))
        el = GelComp._edges_for_lean
        top, ticks, finals = [], [], []
        for t in impl_out["turns"]:
            if t["obs"] is not None and t["pre_obs"] is not None:
                top.append({"pre": el(t["pre_obs"]), "post": el(t["post_obs"]),
                            "items": [[h, f2b(F(sc))] for h, sc in t["hits"]]})
                if t["tick"] is not None:
                    ticks.append({"pre": el(t["post_obs"]), "post": el(t["s"]), "dt": 1,
                                  "decayed": t["tick"]["decayed"], "dropped": t["tick"]["dropped"]})
            finals.append(el(t["s"]))
        rq: List[Tuple[str, dict]] = [("canon", {"c": "gel.mon", "kind": "canon", "cfg": cj, "states": finals}),
                                      ("bounded", {"c": "gel.mon", "kind": "bounded", "cfg": cj, "states": finals})]
        if top:
            rq.append(("handoff_topk_by_score", {"c": "gel.mon", "kind": "obstop", "cfg": cj, "steps": top}))
        if ticks:
            rq.append(("tick_spec", {"c": "gel.mon", "kind": "tick", "cfg": cj, "steps": ticks}))
        return rq

    def monitors(self, case, impl_out):
        res = []
        for t in impl_out["turns"]:
            res.append(("turn_completes_and_observes", t["raised"] is None and t["obs"] is not None and t["tick"] is not None,
                        f"turn {t['turn']}: raised={t['raised']} observe metrics={t['obs']} tick metrics={t['tick']} (graph.enabled=true)"))
        return res

    def tags(self, case, impl_out):
        tg = set()
        m = m_parse(impl_out["m"])
        for t, tc in zip(impl_out["turns"], case["turns"]):
            tg.add("stub_t2" if tc.get("hits") is not None else "real_t2")
            hs = [(h, F(sc)) for h, sc in t["hits"]]
            el = [x for x in hs if x[1] >= m["threshold"]]
            k = max(0, m["topK"])
            by_score = {h for h, _ in sorted(el, key=lambda x: (-x[1], x[0]))[:k]}
            listed = {h for h, _ in hs[:k]}
            if len(hs) > k:
                tg.add("handoff:more_hits_than_top_k")
            if by_score != listed:
                tg.add("handoff:listing_order_differs_from_score_order")
            if t["obs"] and t["obs"].get("pairs_updated"):
                tg.add("handoff:pairs_updated")
            if t["tick"] and t["tick"].get("dropped"):
                tg.add("tick:drop")
        return sorted(tg) or ["default"]

    def shrink(self, case):
        ts = case["turns"]
        for i in range(len(ts) - 1, -1, -1):
            if len(ts) > 1:
                yield dict(case, turns=ts[:i] + ts[i + 1:])


# --------------------------------------------------------------------------------------------
# snapshot path: graph state that enters through load_latest_snapshot / leaves through write_snapshot
# --------------------------------------------------------------------------------------------

def _pair_canon_problems(edges: Any) -> List[str]:
    """one record per unordered pair, filed under min(src,dst) + '→' + max(src,dst)."""
    out: List[str] = []
    seen: Dict[Any, list] = {}
    if not isinstance(edges, dict):
        return [f"edges is {type(edges).__name__}, not a dict"]
    for k, rec in edges.items():
        a, b = sorted((str(rec.get("src")), str(rec.get("dst"))))
        if k != a + ARROW + b:
            out.append(f"non-canonical key {k!r} for pair ({a},{b})")
        seen.setdefault((a, b), []).append(k)
    for pair, ks in seen.items():
        if len(ks) > 1:
            out.append(f"pair {pair} has {len(ks)} edges {ks}")
    return out


class GelSnapshotComp(Component):
    """Legacy / hand-written snapshots list GEL edges with arbitrary endpoint order (list or dict form): after
    load_latest_snapshot, after observe+tick on the loaded store and in the snapshot written back there must be exactly one
    edge per unordered pair under its canonical key.  No model: monitors on the real code only."""
    name = "gel_snapshot"
    budget = {"quick": 60, "thorough": 1500, "search": 300}
    deciding = False
    scratch: Any = None

    def gen(self, rng: random.Random, i: int) -> dict:
        ids = rng.sample(["m1", "m2", "a", "b", "ab", "é", "n10", "n2"], rng.choice([2, 3, 4]))
        pairs, seen = [], set()
        for _ in range(rng.choice([1, 2, 3])):
            a, b = rng.sample(ids, 2)
            if frozenset((a, b)) in seen:
                continue
            seen.add(frozenset((a, b)))
            pairs.append([a, b, R(rng.choice([0.4, -0.3, 0.05, 1.0, 0.0])), rng.choice(["coact", "coact", "concept"])])
        form = rng.choice(["list", "dict_runtime_key", "dict_legacy_key", "dict_reversed_key"])
        obs = [[x, R(s_)] for x, s_ in zip(rng.sample(ids, min(len(ids), rng.choice([2, 3]))), (0.9, 0.8, 0.7))]
        return {"pairs": pairs, "form": form, "obs": obs}

    def impl(self, case: dict) -> Any:
        import shutil
        import tempfile
        from types import SimpleNamespace
        from clematis.engine import gel
        from clematis.engine.snapshot import load_latest_snapshot, write_snapshot
        d = tempfile.mkdtemp(prefix="gelsnap_", dir=str(self.scratch) if self.scratch else None)
        try:
            recs = [{"src": a, "dst": b, "rel": rel, "weight": F(w)} for a, b, w, rel in case["pairs"]]
            form = case["form"]
            if form == "list":
                payload: Any = recs
            elif form == "dict_runtime_key":
                payload = {min(r["src"], r["dst"]) + ARROW + max(r["src"], r["dst"]): r for r in recs}
            elif form == "dict_legacy_key":
                payload = {f"{r['src']}__{r['dst']}__{r['rel']}": r for r in recs}
            else:
                payload = {r["src"] + ARROW + r["dst"]: r for r in recs}
            cfg = {"t4": {"snapshot_dir": d, "snapshot_every_n_turns": 1},
                   "graph": {"enabled": True, "coactivation_threshold": 0.2,
                             "update": {"mode": "additive", "alpha": 0.1, "clamp_min": -1.0, "clamp_max": 1.0},
                             "decay": {"half_life_turns": 10, "floor": 0.0}}}
            ctx = SimpleNamespace(cfg=cfg, config=cfg, agent_id="legacy", turn_id=1)
            with open(f"{d}/state_legacy.json", "w", encoding="utf-8") as f:
                json.dump({"version_etag": "7", "graph_schema_version": "v1",
                           "gel": {"nodes": {}, "edges": payload, "meta": {}}}, f)
            state = SimpleNamespace()
            load_latest_snapshot(ctx, state)
            g = getattr(state, "graph", None) or {}
            loaded = copy.deepcopy(g.get("edges"))
            gel.observe_retrieval(ctx, state, [(x, F(s_)) for x, s_ in case["obs"]], turn=2)
            gel.tick(ctx, state, decay_dt=1, turn=2)
            after = copy.deepcopy(state.graph.get("edges"))
            pth = write_snapshot(ctx, state, version_etag="8")
            with open(pth, encoding="utf-8") as f:
                written = json.load(f).get("gel", {}).get("edges")
            view = lambda es: sorted([k, str(r.get("src")), str(r.get("dst")), wbits(r.get("weight"))] for k, r in es.items()) if isinstance(es, dict) else repr(es)[:100]  # noqa: E731
            return {"n_in": len(recs), "loaded": view(loaded), "after": view(after), "written": view(written),
                    "p_loaded": _pair_canon_problems(loaded), "p_after": _pair_canon_problems(after),
                    "p_written": _pair_canon_problems(written),
                    "n_loaded": len(loaded) if isinstance(loaded, dict) else -1}
        finally:
            shutil.rmtree(d, ignore_errors=True)

    def request(self, case: dict) -> dict:
        return {"c": "const", "v": True}

    def compare(self, case, impl_out, model_out):
        return None

    def monitors(self, case, impl_out):
        return [("snapshot_load_keeps_pairs", impl_out["n_loaded"] == impl_out["n_in"],
                 f"{impl_out['n_in']} edge records in the snapshot, {impl_out['n_loaded']} after load: {impl_out['loaded']}"),
                ("snapshot_keys_canonical", not impl_out["p_loaded"], f"after load_latest_snapshot: {impl_out['p_loaded']}"),
                ("snapshot_keys_canonical", not impl_out["p_after"], f"after observe+tick on the loaded store: {impl_out['p_after']}; edges {impl_out['after']}"),
                ("snapshot_keys_canonical", not impl_out["p_written"], f"in the snapshot written back: {impl_out['p_written']}")]

    def tags(self, case, impl_out):
        t = {"form:" + case["form"]}
        if any(a > b for a, b, _w, _r in case["pairs"]):
            t.add("reversed_endpoints")
        return sorted(t)


COMPONENTS = [GelComp(), GelTurnComp(), GelSnapshotComp()]


def _still_fails(comp: Any, case: dict, monitor: str) -> bool:
    from harness.core import run_driver
    io = comp.impl(case)
    for name, ok, _ in comp.monitors(case, io):
        if name == monitor and not ok:
            return True
    mr = [(n, rq) for n, rq in comp.monitor_requests(case, io) if n == monitor]
    if mr:
        for _nr, ans in zip(mr, run_driver([q for _, q in mr])):
            if ans.get("ok") is not True:
                return True
    return False


def _minimise_failures(ctx: Ctx, comp: Any) -> None:
    """Delta-debug the first failing case of every distinct key (what `_main` writes as replay)."""
    from harness.core import shrink_case, _canon
    seen = set()
    for f in ctx.failures:
        if f.get("component") != comp.name or f["key"] in seen:
            continue
        seen.add(f["key"])
        size = lambda c: len(c.get("ops", c.get("turns", [])))  # noqa: E731
        n0 = size(f["case"])
        try:
            small = shrink_case(comp, f["case"], lambda c, m=f["monitor"]: _still_fails(comp, c, m), limit=300)
            if small is not f["case"] and _still_fails(comp, small, f["monitor"]):
                f["case"] = small
                f["impl"] = _canon(comp.impl(small))
                f["detail"] = f"{f['detail'][:400]} [minimised from {n0} to {size(small)} ops/turns]"
        except Exception:
            pass


def run(ctx: Ctx) -> None:
    for comp in COMPONENTS:
        if hasattr(comp, "scratch"):
            comp.scratch = ctx.scratch
        if hasattr(comp, "_memo"):
            comp._memo.clear()
        GelComp._oracle.clear()
        run_component(ctx, comp)
        _minimise_failures(ctx, comp)


def replay(ctx: Ctx, rec: dict) -> int:
    from harness.core import generic_replay
    return generic_replay(ctx, rec, {c.name: c for c in COMPONENTS})
