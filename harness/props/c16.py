"""C16 — log streams stay well-formed, ordered and lossless: correspondence + monitors.

Components
  normalize  exact: `normalize_for_identity` vs `LogJson.normalize`; Lean monitor `normOkB`; idempotence.
  append     exact: real `append_jsonl` calls in an arbitrary writer schedule on a real file vs
             `LogFrame.exec`; Lean monitor `wellFramedB` on the real file; per-writer order; JSON round trip;
             raw-write monitor (`rawWritesOkB` per opened handle + `allMergesFramedB`: every interleaving of two
             appends' raw write(2) chunks parses into complete lines) — also on rewrite and the staged flush.
  rewrite    exact: real `rewrite_jsonl` vs `LogFrame.rewritePayload`; Lean `wellFramedB`; records preserved — with
             `records` given as every kind of Iterable[dict]: list, tuple, dict view, and ONE-SHOT iterables (generator,
             iterator, filter, map, a generator streaming the records out of the very file being rewritten); empty
             input; lines above 64 KiB.
  stager     exact: real `LogStager` / `default_key_for` driven by the batch driver's drain-flush-retry
             loop vs `LogStager.runBatch`; Lean monitors (sorted flushes, lossless, per-file order).
  batch      the REAL loop of `_run_agents_parallel_batch` (compute/apply stubbed through the
             orchestrator's own override hooks) vs the same model.
  rotmain    `rotate_logs.main`: size threshold (>= --max-bytes) decides; final state vs `LogRotate.rotateOne`.
             Entry points: packaged main, the scripts/ shim, the `clematis rotate-logs` CLI main, and --dry-run (printed plan ==
             model step list, nothing touched).  All rotation streams draw their worlds from `gen_rotation_world`: backups and
             pre-existing generation counts sweep the suffix-width boundaries 9/10/11/12.. and 99/100/101 (gaps, above-cap files).
  rotfault   `rotate_one` when ONE rename fails transiently (each documented retryable error, once/twice) or for good:
             exact vs `rotateOne` / `failState`, Lean monitors on what is left behind.
  rotate     exact: real `rotate_one` on real files, a crash injected between every pair of
             primitive steps (os.remove / os.replace) vs `LogRotate.crashState`; Lean monitors.
  stress     (thorough, supporting) real threads + processes appending concurrently.
"""
from __future__ import annotations

import json
import os
import random
import shutil
import subprocess
import sys
import tempfile
import threading
from pathlib import Path
from typing import Any, Dict, List, Optional, Tuple

from harness.core import Component, Ctx, REPO, run_component, run_driver

#: DESIGN §5 row 16 triage switch.  False (default): per-file order / limit independence is demanded
#: under key-monotone arrivals per file (what every caller in the repo guarantees).  True: demanded
#: for every arrival order (strict reading; then the stager alone violates it, key below).
STRICT_LIMIT_INDEPENDENCE = False
STRICT_KEY = "C16:stager-limit-dependence"

#: Aliasing that exists on the pinned tree but that no caller in the repo exercises: `logmux.write_or_buffer`
#: (an unreferenced helper) buffers the caller's own dict, `append_jsonl` under a mux buffers a SHALLOW copy, and
#: `LogStager.stage` keeps the caller's dict when nothing is normalised.  False (default): writers reuse one dict
#: object by re-assigning its top-level fields (what `dict(record)` protects against) on the `append_jsonl` paths;
#: True: also reuse under `write_or_buffer` and in-place mutation of nested containers (then the pinned tree
#: violates "lossless" on the buffered path; key below, see proposed_findings/C16.json).
DEEP_ALIASING_IN_SCOPE = False
ALIAS_KEY = "C16:buffered-record-aliases-caller"

RULE = ("seeded structured generators per component (records over volatile/non-volatile field pools with typed edge values; "
        "writer schedules; staging limits around 0/one/few records with key-monotone and non-monotone arrivals; generation sets "
        "with gaps and every crash point); a case is non-trivial when it hits at least one branch tag other than 'default' "
        "(e.g. backpressure flush, yield/non-yield markers, crash state, gap); distinct by canonical JSON of the case")
ASSUMPTIONS = [
    "a single write(2) on an O_APPEND descriptor is atomic w.r.t. other appenders (POSIX; stressed in thorough, not proved); that one "
    "append IS a single write(2) of one complete frame is no longer assumed but monitored deterministically (raw FileIO.write calls "
    "recorded under the real buffered handle, records from 1 B to 100 kB around io.DEFAULT_BUFFER_SIZE)",
    "json.dumps emits no raw LF/CR (control characters are escaped); sampled with control chars, U+2028/2029, astral and NUL",
    "os.replace / os.remove are atomic single steps; a crash happens only between two of them (abstract FS: generation index -> content)",
    "record keys are str; `durations_ms` keys are printable strings without quotes/backslashes (only matters for the byte estimate)",
    "the environment variable CI holds an ASCII string",
    "untouched values are opaque: truthiness, int(v), dict keys and len(str(v)) are CPython oracles passed to the model",
    "turn ids and slice indices are integers",
]
CLAIM = {
    "text": ("Unbounded Lean theorems: framing is lossless and, for ANY interleaving of atomic appends by any number of writers, the file "
             "parses into exactly the appended lines with every writer's order preserved (induction over the schedule); a file accepted by the "
             "framing monitor is exactly the concatenation of its LF-terminated lines; `normalize_for_identity` is idempotent and leaves the "
             "sub-record of non-volatile fields untouched (values and order), is the identity when CI is off and on non-identity streams, the "
             "two `_IDENTITY_LOGS` copies agree (decide over regenerated tables); every stager drain is sorted by (turn, stage_ord, slice, seq, "
             "path) and is a permutation of the buffer, the drain-flush-retry loop is lossless for every limit, and under key-monotone arrivals "
             "per file the per-file sequence equals the arrival sequence for EVERY byte limit (hence sorted and limit-independent); constant "
             "(turn, slice) batches — what the batch driver produces — are key-monotone; if every raw-write chunk ends at a line end then "
             "every interleaving of writers' chunks parses into exactly the chunks' lines (C16_chunks_complete_parse, C16_merges_complete; "
             "split-write witness C16_split_write_witness); the compaction rewrite parses back into exactly the "
             "canonical lines; `rotate_one` shifts generations 0..N-1 to 1..N losing only the previous path.N, and EVERY crash prefix of its "
             "step list is the initial state or a 'generations m..N-1 moved up, slot m vacated' state: nothing but the oldest is lost, age "
             "order is preserved, nothing is invented. Tied to the code by exact differential execution on real files in scratch directories."),
    "note": ("PARTIAL by hypothesis: limit-independence of the per-file order needs key-monotone arrivals per file; without it the stager "
             "alone is limit-dependent (machine-checked witness C16_stager_limit_dependence_witness + negation of the unconditional statement; "
             "reproduced against the real LogStager as a fixed obligation). Every caller in the repo (only `_run_agents_parallel_batch`) stages "
             "with one constant (turn_id, slice_idx) and the default 32 MiB limit, so the hypothesis holds there (C16_batch_arrivals_monotone); "
             "see STRICT_LIMIT_INDEPENDENCE for the strict reading. Also machine-checked: a limit below one record's estimate makes the retry "
             "raise and the record is never written (stager level; DESIGN §5 row 10). Covered by correspondence only: json.dumps emits no raw "
             "LF/CR; O_APPEND single-write atomicity under real threads/processes (thorough stress); fsync/durability and the retry/back-off "
             "branches of atomic_replace (not crash points); lone surrogates make .encode('utf-8') raise before anything is written. "
             "LogMux capture/flush (logmux.py) and `rotate_logs.main`'s size threshold are tied by correspondence only (same file as a direct "
             "append sequence; rotated iff size >= --max-bytes). Not modelled: turn ids that are strings or None (wall-clock derived), "
             "Rename FAULTS: a retried failed attempt changes nothing (C16_rotate_transient_faults), the retried errno set is "
             "pinned to the documented one by a regenerated table (C16_rotate_retry_set); a rename that fails for good ends the rotation with "
             "its source generation in place — rotate_one passes unlink_on_failure=False (fix C16_rotfault; table-checked by "
             "C16_rotate_keeps_source_on_failed_rename) — so the state equals a crash state and nothing but the oldest is lost "
             "(C16_rotate_persistent_failure_nothing_lost/_legal); the helper's default clean-up (unlink the source, meant for temp files) "
             "is kept as regression witness C16_rotate_unlink_source_witness, and the monitor persistent_rename_failure_loses_only_oldest "
             "(key C16:rotfault:persistent_rename_failure_loses_only_oldest) reports it if it returns. "
             "A capture (LogMux) must never fall back to "
             "write-through while active: monitored, including captures of > 4096 records."),
    "technique": "Lean 4 proofs (induction over schedules / arrival lists / step lists, permutation + sortedness lemmas, decide over regenerated tables) + exact correspondence on real files with crash injection",
    "design_ref": "DESIGN.md §4 C16, §5 row 16",
}
MODELLED = {
    "clematis/engine/util/io_logging.py": ["normalize_for_identity", "LogStager", "default_key_for", "LogKey", "StagedRecord"],
    "clematis/io/log.py": ["_append_jsonl_unbuffered", "append_jsonl", "rewrite_jsonl"],
    "clematis/scripts/rotate_logs.py": ["rotate_one", "main"],
    "clematis/io/atomic.py": ["atomic_replace", "atomic_write_text", "atomic_write_bytes"],
    "clematis/engine/orchestrator/parallel.py": ["_run_agents_parallel_batch", "_run_turn_compute", "_clone_ctx_for_agent"],
    "clematis/engine/util/logmux.py": ["LogMux", "flush"],
}
TRUSTED = [
    "modelled, not verified: CPython json.dumps/str/int/bool, dict insertion order, sorted() stability; POSIX O_APPEND write and rename atomicity",
    "oracles passed to the model: bool(v), int(v), list(v.keys()), len(str(v)) of untouched values; json.dumps as the line encoder",
]

IDENT = ["t1.jsonl", "t2.jsonl", "t4.jsonl", "apply.jsonl", "turn.jsonl"]
STREAMS = IDENT + ["t3_reflection.jsonl", "t3_plan.jsonl", "t3_dialogue.jsonl", "health.jsonl", "scheduler.jsonl"]
OTHER = ["foo.jsonl", "turn.jsonl.bak", "Turn.jsonl", "x.log"]
CI_VALUES = ["true"] * 10 + ["TRUE", "True", "tRuE", "", "1", "false", "true "]


# ---------------------------------------------------------------------------
# typed canonical form of Python values (1, True, 1.0 are different; dict order matters)
# ---------------------------------------------------------------------------

_ESC = None


def unesc(s: str) -> str:
    """Inverse of the driver's ASCII-safe text transport (`%<code point>;`)."""
    global _ESC
    import re
    if _ESC is None:
        _ESC = re.compile(r"%(\d+);")
    return _ESC.sub(lambda m: chr(int(m.group(1))), s)


def tcanon(v: Any) -> Any:
    if isinstance(v, dict):
        return ["dict", [[tcanon(k), tcanon(x)] for k, x in v.items()]]
    if isinstance(v, (list, tuple)):
        return [type(v).__name__, [tcanon(x) for x in v]]
    if isinstance(v, float):
        return ["float", v.hex() if v == v and v not in (float("inf"), float("-inf")) else repr(v)]
    return [type(v).__name__, repr(v)]


def tcanon_rec(r: Dict[str, Any]) -> list:
    return [[k, tcanon(v)] for k, v in r.items()]


class with_ci:
    def __init__(self, val: Optional[str]):
        self.val = val

    def __enter__(self):
        self.old = os.environ.get("CI")
        if self.val is None:
            os.environ.pop("CI", None)
        else:
            os.environ["CI"] = self.val

    def __exit__(self, *a):
        if self.old is None:
            os.environ.pop("CI", None)
        else:
            os.environ["CI"] = self.old


class with_logdir:
    def __init__(self, d: Path):
        self.d = str(d)

    def __enter__(self):
        self.old = {k: os.environ.get(k) for k in ("CLEMATIS_LOG_DIR", "CLEMATIS_LOGS_DIR")}
        os.environ["CLEMATIS_LOG_DIR"] = self.d
        os.environ["CLEMATIS_LOGS_DIR"] = self.d

    def __exit__(self, *a):
        for k, v in self.old.items():
            if v is None:
                os.environ.pop(k, None)
            else:
                os.environ[k] = v


class record_raw_writes:
    """Observe what reaches the OS: while active, `open` (in the namespaces of the modules that open
    log files, plus builtins/io for refactors through pathlib) returns the REAL handle, whose raw
    `FileIO.write` — the write(2) call under Python's buffering — is recorded per opened handle.
    `groups` = [{"path", "chunks": [bytes per raw write]}] in open order."""
    MODULES = ("clematis.io.log", "clematis.io.atomic")

    def __enter__(self):
        import builtins
        import importlib
        import io
        self.groups: List[dict] = []
        groups = self.groups
        real = builtins.open

        def rec_open(file, mode="r", *a, **kw):
            f = real(file, mode, *a, **kw)
            if isinstance(mode, str) and any(c in mode for c in "wax+") and isinstance(file, (str, bytes, os.PathLike)):
                g = {"path": os.fspath(file), "chunks": []}
                raw = getattr(f, "buffer", f)
                raw = getattr(raw, "raw", raw)
                try:
                    orig = raw.write

                    def w(b, _o=orig, _g=g):
                        _g["chunks"].append(bytes(b))
                        return _o(b)
                    raw.write = w
                    groups.append(g)
                except Exception:
                    pass
            return f
        self._saved = []
        for name in self.MODULES:
            m = importlib.import_module(name)
            self._saved.append((m, "open" in m.__dict__, m.__dict__.get("open")))
            m.open = rec_open
        self._b, self._io = builtins.open, io.open
        builtins.open = rec_open
        io.open = rec_open
        return self

    def __exit__(self, *a):
        import builtins
        import io
        builtins.open, io.open = self._b, self._io
        for m, had, old in self._saved:
            if had:
                m.open = old
            else:
                try:
                    del m.open
                except AttributeError:
                    pass


def l1(b: bytes) -> str:
    """bytes as latin-1 text (one code point per byte) for the raw-write monitor route."""
    return b.decode("latin-1")


PAD_SIZES = [1, 100, 4000, 8100, 8180, 8192, 8193, 9000, 20000, 100000]
PAD_CHARS = ["x", "é", "日", "\u2028"]


def add_pad(rng: random.Random, rec: Dict[str, Any]) -> Dict[str, Any]:
    """records below and ABOVE io.DEFAULT_BUFFER_SIZE: a buffered handle passes large writes through,
    so only these show how many write(2) calls one append really makes."""
    rec = dict(rec)
    rec["pad"] = rng.choice(PAD_CHARS) * rng.choice(PAD_SIZES)
    return rec


_SCRATCH: Optional[Path] = None


def scratch_dir(name: str) -> Path:
    global _SCRATCH
    if _SCRATCH is None or not _SCRATCH.exists():
        base = os.environ.get("CLEMATIS_LOG_DIR")
        root = Path(base).parent if base else Path(tempfile.gettempdir())
        root.mkdir(parents=True, exist_ok=True)
        _SCRATCH = Path(tempfile.mkdtemp(prefix="c16_", dir=str(root)))
    return Path(tempfile.mkdtemp(prefix=name + "_", dir=str(_SCRATCH)))


# ---------------------------------------------------------------------------
# JSON-stable cases: core canonicalises recorded cases (dict keys sorted, floats -> bit dicts), which
# would change order-sensitive records on replay; so cases are *frozen* (dicts as ordered pair lists,
# floats as IEEE bits) when generated and thawed before every use.
# ---------------------------------------------------------------------------

def freeze(v: Any) -> Any:
    from harness.core import f2b
    if isinstance(v, dict):
        if set(v.keys()) == {"__rec__"} or set(v.keys()) == {"__f__"}:
            return v
        return {"__rec__": [[k, freeze(x)] for k, x in v.items()]}
    if isinstance(v, (list, tuple)):
        return [freeze(x) for x in v]
    if isinstance(v, float):
        return {"__f__": f2b(v)}
    return v


def thaw(v: Any) -> Any:
    from harness.core import b2f
    if isinstance(v, dict):
        if set(v.keys()) == {"__rec__"}:
            return {k: thaw(x) for k, x in v["__rec__"]}
        if set(v.keys()) == {"__f__"}:
            return b2f(v["__f__"])
        return {k: thaw(x) for k, x in v.items()}
    if isinstance(v, list):
        return [thaw(x) for x in v]
    return v


def freeze_case(case: dict) -> dict:
    return {k: freeze(v) for k, v in case.items()}


def thaw_case(case: dict) -> dict:
    return {k: thaw(v) for k, v in case.items()}


class FrozenComp(Component):
    """Adapter: subclasses implement `gen_`, `impl_`, … on plain Python values."""

    def corpus(self, ctx):
        return [freeze_case(thaw_case(c)) for c in Component.corpus(self, ctx)]

    def gen(self, rng, i):
        return freeze_case(self.gen_(rng, i))

    def impl(self, case):
        return self.impl_(thaw_case(case))

    def request(self, case):
        return self.request_(thaw_case(case))

    def compare(self, case, impl_out, model_out):
        return self.compare_(thaw_case(case), impl_out, model_out)

    def monitor_requests(self, case, impl_out):
        return self.monitor_requests_(thaw_case(case), impl_out)

    def monitors(self, case, impl_out):
        return self.monitors_(thaw_case(case), impl_out)

    def tags(self, case, impl_out):
        return self.tags_(thaw_case(case), impl_out)

    def shrink(self, case):
        for c in self.shrink_(thaw_case(case)):
            yield freeze_case(c)

    # defaults
    def compare_(self, case, impl_out, model_out):
        return Component.compare(self, case, impl_out, model_out)

    def monitor_requests_(self, case, impl_out):
        return []

    def monitors_(self, case, impl_out):
        return []

    def tags_(self, case, impl_out):
        return ["default"]

    def shrink_(self, case):
        return []


# ---------------------------------------------------------------------------
# encoding of records for the model
# ---------------------------------------------------------------------------

def _as_int(v: Any) -> Optional[int]:
    try:
        return int(v)
    except Exception:
        return None


def enc_value(v: Any, table: List[Any]) -> dict:
    table.append(v)
    d = {"t": "opq", "id": len(table) - 1, "truthy": bool(v), "slen": len(str(v))}
    ai = _as_int(v)
    if ai is not None:
        d["asInt"] = ai
    if isinstance(v, dict):
        d["dkeys"] = [str(k) for k in v.keys()]
    return d


def enc_rec(r: Dict[str, Any], table: List[Any]) -> list:
    return [[k, enc_value(v, table)] for k, v in r.items()]


def dec_value(j: dict, table: List[Any]) -> Any:
    t = j["t"]
    if t == "flt0":
        return 0.0
    if t == "tru":
        return True
    if t == "int":
        return int(j["n"])
    if t == "zeros":
        return {k: 0.0 for k in j["keys"]}
    return table[j["id"]]


def dec_rec(j: list, table: List[Any]) -> Dict[str, Any]:
    return {k: dec_value(v, table) for k, v in j}


def ms_volatile(ci_env: str, name: str) -> bool:
    from clematis.engine.util.io_logging import _IDENTITY_LOGS
    return ci_env.lower() == "true" and (name in _IDENTITY_LOGS or name == "t3_reflection.jsonl")


def enc_impl_out(inp: Dict[str, Any], out: Dict[str, Any], inp_enc: list, ms_vol: bool = True) -> list:
    """Encode an implementation output relative to the encoded input: an untouched value keeps its
    token, 0.0 / True / an int / an all-zero dict become the explicit constructors, anything else a fresh token."""
    ids = {k: e for k, e in inp_enc}
    res = []
    fresh = 10_000
    for k, v in out.items():
        if k in inp and (v is inp[k] or tcanon(v) == tcanon(inp[k])) and not (ms_vol and k == "ms" and tcanon(v) == tcanon(0.0)):
            res.append([k, ids[k]])
        elif (type(v) is float and tcanon(v) == tcanon(0.0)) or (k == "ms" and type(v) in (int, float) and v == 0):
            res.append([k, {"t": "flt0"}])  # a numeric zero `ms` counts as zeroed (its exact type is the exact tie's business)
        elif v is True:
            res.append([k, {"t": "tru"}])
        elif type(v) is int:
            res.append([k, {"t": "int", "n": v}])
        elif isinstance(v, dict) and all(tcanon(x) == tcanon(0.0) for x in v.values()):
            res.append([k, {"t": "zeros", "keys": [str(x) for x in v.keys()]}])
        else:
            fresh += 1
            res.append([k, {"t": "opq", "id": fresh, "truthy": bool(v), "slen": len(str(v))}])
    return res


# ---------------------------------------------------------------------------
# generators of records
# ---------------------------------------------------------------------------

TEXTS = ["", "x", "héllo", "line\nbreak", "cr\r\nlf", "tab\t", " sep ", "quote\"back\\slash", "𝔘nicode",
         "\x00nul", "日本語", "a" * 40, "ls\u2028ps\u2029", "\x0b\x0c\x1c\x85"]
DUR_KEYS = ["t1", "t2", "t3", "t4", "apply", "total", "é", "a b", "k-1", "x.y"]


def gen_value(rng: random.Random, depth: int = 0) -> Any:
    r = rng.random()
    if r < 0.2:
        return rng.choice([0, 1, -1, 7, 123456, 2 ** 40])
    if r < 0.35:
        return rng.choice([0.0, 1.5, -2.25, 1e-9, 12.5, 3.0])
    if r < 0.6:
        return rng.choice(TEXTS)
    if r < 0.7:
        return rng.choice([None, True, False])
    if depth < 2 and r < 0.85:
        return [gen_value(rng, depth + 1) for _ in range(rng.randrange(0, 3))]
    if depth < 2:
        return {rng.choice(["a", "b", "é", "ms", "now"]): gen_value(rng, depth + 1) for _ in range(rng.randrange(0, 3))}
    return rng.randrange(100)


def gen_record(rng: random.Random, name: str, big: bool = False) -> Dict[str, Any]:
    fields: List[Tuple[str, Any]] = []
    pool = ["turn", "agent", "k1", "é", "Ms", "now_", "", "yield", "durations", "z"]
    for k in rng.sample(pool, rng.randrange(0, 5)):
        fields.append((k, gen_value(rng)))
    if rng.random() < 0.7:
        fields.append(("ms", rng.choice([12.5, 0.0, 3, None, "7", 0, 1e3])))
    if rng.random() < 0.5:
        fields.append(("now", rng.choice(["2026-01-01T00:00:00Z", 17, None])))
    if name == "turn.jsonl" or rng.random() < 0.3:
        if rng.random() < 0.7:
            if rng.random() < 0.75:
                ks = rng.sample(DUR_KEYS, rng.randrange(0, 5))
                fields.append(("durations_ms", {k: rng.choice([1.5, 0.0, 3, None, "x"]) for k in ks}))
            else:
                fields.append(("durations_ms", rng.choice([None, [1, 2], 5, "dict", 0.0])))
        if rng.random() < 0.75:
            fields.append(("yielded", rng.choice([True, False, True, False, 1, 0, "yes", "", None, [], [0], 0.0, 2.5, {}])))
        if rng.random() < 0.75:
            fields.append(("slice_idx", rng.choice([0, 1, 3, "3", "x", 2.7, None, True, " 4 ", [1], "-2", 10 ** 12, -1])))
    if big:
        fields.append(("blob", "B" * rng.choice([70_000, 130_000, 300_000])))
    rng.shuffle(fields)
    return dict(fields)


def jsonable(v: Any) -> bool:
    try:
        json.dumps(v)
        return True
    except Exception:
        return False


# ---------------------------------------------------------------------------
# normalize
# ---------------------------------------------------------------------------

class NormalizeComp(FrozenComp):
    name = "normalize"
    budget = {"quick": 3000, "thorough": 40000, "search": 15000}

    def gen_(self, rng: random.Random, i: int) -> dict:
        name = rng.choice(STREAMS + IDENT + ["turn.jsonl"] * 6 + OTHER)
        return {"ci_env": rng.choice(CI_VALUES), "name": name, "rec": gen_record(rng, name)}

    def impl_(self, case: dict) -> Any:
        from clematis.engine.util.io_logging import normalize_for_identity
        rec = case["rec"]
        before = tcanon_rec(rec)
        with with_ci(case["ci_env"]):
            out = normalize_for_identity(case["name"], rec)
            out2 = normalize_for_identity(case["name"], out)
        return {"out": out, "out2": out2, "mutated": tcanon_rec(rec) != before}

    def request_(self, case: dict) -> dict:
        table: List[Any] = []
        return {"c": "c16.normalize", "ci_env": case["ci_env"], "name": case["name"], "rec": enc_rec(case["rec"], table)}

    def compare_(self, case, impl_out, model_out):
        if not isinstance(model_out, dict) or "out" not in model_out:
            return f"model error {model_out}"
        if "__raised__" in impl_out:
            return f"implementation raised {impl_out}"
        table: List[Any] = []
        enc_rec(case["rec"], table)
        m = tcanon_rec(dec_rec(model_out["out"], table))
        a = tcanon_rec(impl_out["out"])
        if a != m:
            return f"normalize: impl={json.dumps(a)[:300]} model={json.dumps(m)[:300]}"
        return None

    def monitor_requests_(self, case, impl_out):
        table: List[Any] = []
        inp_enc = enc_rec(case["rec"], table)
        return [("only_volatile_fields_change", {"c": "c16.normok", "ci_env": case["ci_env"], "name": case["name"],
                                                  "inp": inp_enc, "out": enc_impl_out(case["rec"], impl_out["out"], inp_enc,
                                                                      ms_volatile(case["ci_env"], case["name"]))})]

    def monitors_(self, case, impl_out):
        a, b = tcanon_rec(impl_out["out"]), tcanon_rec(impl_out["out2"])
        res = [("idempotent", a == b, f"once={json.dumps(a)[:300]} twice={json.dumps(b)[:300]}")]
        if case["name"] == "turn.jsonl" and case["ci_env"].lower() == "true":
            rec, out = case["rec"], impl_out["out"]
            if rec.get("yielded"):
                # yield: the markers are not volatile — presence, truthiness and integer value are kept
                ok = ("slice_idx" in out) == ("slice_idx" in rec) and bool(out.get("yielded")) is True
                if ok and "slice_idx" in rec and _as_int(rec["slice_idx"]) is not None:
                    ok = _as_int(out["slice_idx"]) == _as_int(rec["slice_idx"])
                res.append(("yield_markers_kept", ok, f"in={tcanon_rec(rec)} out={tcanon_rec(out)}"))
            else:
                res.append(("nonyield_markers_stripped", "yielded" not in out and "slice_idx" not in out,
                            f"out={tcanon_rec(out)}"))
            if isinstance(rec.get("durations_ms"), dict):
                d = out.get("durations_ms")
                ok = isinstance(d, dict) and list(d.keys()) == list(rec["durations_ms"].keys()) and all(
                    type(x) in (int, float) and x == 0 for x in d.values())
                res.append(("durations_zeroed_keys_kept", ok, f"out={tcanon(d)}"))
        return res

    def tags_(self, case, impl_out):
        t = set()
        on = case["ci_env"].lower() == "true"
        rec = case["rec"]
        if not on:
            t.add("ci_off")
        elif case["name"] == "turn.jsonl":
            t.add("turn_yield" if rec.get("yielded") else "turn_nonyield")
            if isinstance(rec.get("durations_ms"), dict):
                t.add("durations")
            if "slice_idx" in rec and rec.get("yielded"):
                t.add("slice_coerced" if _as_int(rec["slice_idx"]) is not None else "slice_uncoercible")
        elif case["name"] in IDENT:
            t.add("identity")
        elif case["name"] == "t3_reflection.jsonl":
            t.add("reflection")
        else:
            t.add("other_stream")
        return sorted(t)

    def shrink_(self, case):
        ks = list(case["rec"].keys())
        for k in ks:
            yield dict(case, rec={a: b for a, b in case["rec"].items() if a != k})


# ---------------------------------------------------------------------------
# append (framing + interleaving on a real file)
# ---------------------------------------------------------------------------

_NORM_CACHE: Dict[str, list] = {}


def _nkey(ci_env: str, name: str, rec: Dict[str, Any]) -> str:
    return json.dumps([ci_env, name, tcanon_rec(rec)])


def _model_normalize_batch(items: List[Tuple[str, str, Dict[str, Any]]]) -> None:
    """One driver call for many (ci_env, name, record); results (encoded model outputs) are cached."""
    todo = [(c, n, r) for c, n, r in items if _nkey(c, n, r) not in _NORM_CACHE]
    if not todo:
        return
    reqs = []
    for c, n, r in todo:
        table: List[Any] = []
        reqs.append({"c": "c16.normalize", "ci_env": c, "name": n, "rec": enc_rec(r, table)})
    outs = run_driver(reqs)
    for (c, n, r), o in zip(todo, outs):
        if "ok" not in o:
            raise RuntimeError(f"model normalize failed: {o}")
        _NORM_CACHE[_nkey(c, n, r)] = o["ok"]["out"]


def model_normalize_many(ci_env: str, name: str, recs: List[Dict[str, Any]]) -> List[Dict[str, Any]]:
    """`LogJson.normalize` (through the driver) of each record, decoded back to Python values."""
    _model_normalize_batch([(ci_env, name, r) for r in recs])
    res = []
    for r in recs:
        table: List[Any] = []
        enc_rec(r, table)
        res.append(dec_rec(_NORM_CACHE[_nkey(ci_env, name, r)], table))
    return res


def warm_normalize_cache(ctx: Ctx, comp: Component, records_of) -> None:
    """Performance only: the cases `run_component` is about to generate are a pure function of the
    component's seeded PRNG, so their model normalisations can be fetched in one driver call."""
    n = int(comp.budget.get(ctx.tier, comp.budget["quick"]) * ctx.budget_scale)
    rng = ctx.rng_for(comp.name)
    items = []
    for i in range(n):
        case = thaw_case(comp.gen(rng, i))
        items += [(case["ci_env"], case["name"], r) for r in records_of(case)]
    _model_normalize_batch(items)


def gen_jsonable_record(rng: random.Random, name: str, big: bool = False) -> Dict[str, Any]:
    for _ in range(20):
        r = gen_record(rng, name, big=big)
        if jsonable(r):
            return r
    return {"k": 1}


class AppendComp(FrozenComp):
    name = "append"
    budget = {"quick": 400, "thorough": 4000, "search": 1200}

    def _huge_capture(self, rng: random.Random, i: int) -> dict:
        """5 000–10 000 tiny records in ONE capture (a capture must hold whatever a turn emits: a buffer that
        refuses entries makes `append_jsonl` fall back to write-through and later records overtake earlier ones)."""
        name = rng.choice(["t1.jsonl", "turn.jsonl", "health.jsonl", "foo.jsonl"])
        n = rng.randrange(4200, 5201)
        nw = rng.choice([1, 2])
        qs: List[List[dict]] = [[] for _ in range(nw)]
        sched = []
        for j in range(n):
            w = rng.randrange(nw)
            qs[w].append({"k": j, "w": w})
            sched.append(w)
        via = ["mux_append", "mux_write_or_buffer"][(i // 133) % 2]
        return {"ci_env": rng.choice(["true", ""]), "name": name, "qs": qs, "sched": sched, "via": via,
                "reuse": "fields" if via == "mux_append" and rng.random() < 0.5 else None}

    def gen_(self, rng: random.Random, i: int) -> dict:
        if i % 133 == 5:
            return self._huge_capture(rng, i)
        name = rng.choice(STREAMS + ["turn.jsonl"] * 3 + OTHER)
        nw = rng.choice([1, 2, 3, 5])
        big = rng.random() < 0.03
        qs = [[gen_jsonable_record(rng, name, big=big and w == 0 and k == 0) for k in range(rng.randrange(0, 4))]
              for w in range(nw)]
        if rng.random() < 0.35:
            for _ in range(rng.choice([1, 1, 2])):
                w = rng.randrange(nw)
                if not qs[w]:
                    qs[w].append(gen_jsonable_record(rng, name))
                k = rng.randrange(len(qs[w]))
                qs[w][k] = add_pad(rng, qs[w][k])
        total = sum(len(q) for q in qs)
        sched = [rng.randrange(nw + 1) for _ in range(total + rng.randrange(0, 4))]
        if rng.random() < 0.7:  # make it complete
            rest = [w for w, q in enumerate(qs) for _ in q]
            rng.shuffle(rest)
            sched += rest
        via = rng.choice(["direct", "direct", "mux_append", "mux_append", "mux_write_or_buffer"])
        # writers that build every record in ONE dict object, re-assigning its fields between appends
        reuse = rng.choice([None, "fields", "fields"])
        if via == "mux_write_or_buffer" and not DEEP_ALIASING_IN_SCOPE:
            reuse = None
        if reuse and DEEP_ALIASING_IN_SCOPE and rng.random() < 0.4:
            reuse = "nested_inplace"
        return {"ci_env": rng.choice(CI_VALUES + ["", "", ""]), "name": name, "qs": qs, "sched": sched, "via": via, "reuse": reuse}

    def impl_(self, case: dict) -> Any:
        from clematis.io.log import append_jsonl
        from clematis.engine.util import logmux
        d = scratch_dir("append")
        pend = [list(q) for q in case["qs"]]
        trace = []
        early: list = []
        via = case.get("via", "direct")
        reuse = case.get("reuse")
        objs: Dict[int, dict] = {}

        def emit(w: int, rec: dict) -> dict:
            """what the writer hands to the logger: a fresh dict, or its ONE long-lived dict refilled with
            this record's fields (the model and the monitors take the VALUE at append time = `rec`)."""
            if not reuse:
                return rec
            o = objs.setdefault(w, {})
            if reuse == "nested_inplace":
                box = o.get("box")
                o.clear()
                o.update(rec)
                if isinstance(box, list):
                    del box[:]
                    box.append(len(rec))
                    o["box"] = box  # same list object, mutated in place
                else:
                    o["box"] = [len(rec)]
                rec["box"] = [len(rec)]
                return o
            o.clear()
            o.update(rec)
            return o

        def writers_move_on() -> None:
            for o in objs.values():
                if isinstance(o.get("box"), list):
                    del o["box"][:]
                o.clear()
                o["__reused_after_append__"] = True

        rec_raw = record_raw_writes()
        try:
            with with_ci(case["ci_env"]), with_logdir(d), rec_raw:
                if via == "direct":
                    for w in case["sched"]:
                        if w < len(pend) and pend[w]:
                            rec = pend[w].pop(0)
                            append_jsonl(case["name"], emit(w, rec))
                            trace.append([w, rec])
                    writers_move_on()
                else:
                    # PR70 capture: stages emit as usual, the driver flushes the captured pairs in order
                    mux = logmux.LogMux()
                    with logmux.use_mux(mux):
                        for w in case["sched"]:
                            if w < len(pend) and pend[w]:
                                rec = pend[w].pop(0)
                                if via == "mux_append":
                                    append_jsonl(case["name"], emit(w, rec))
                                else:
                                    logmux.write_or_buffer(case["name"], emit(w, rec))
                                trace.append([w, rec])
                        writers_move_on()  # … before the captured pairs are flushed
                        early = sorted((x.name, x.stat().st_size) for x in d.iterdir())
                    logmux.flush(mux.dump())
            p = d / case["name"]
            data = p.read_bytes() if p.exists() else b""
            others = sorted(x.name for x in d.iterdir() if x.name != case["name"])
        finally:
            shutil.rmtree(d, ignore_errors=True)
        raw = [[l1(c) for c in g["chunks"]] for g in rec_raw.groups if os.path.basename(g["path"]) == case["name"]]
        return {"file": data.decode("utf-8"), "trace": trace, "others": others, "raw": raw, "early": early}

    def _lines(self, case) -> List[List[str]]:
        if case.get("reuse") == "nested_inplace":
            case = dict(case, qs=[[dict(r, box=[len(r)]) for r in q] for q in case["qs"]])
        flat = [r for q in case["qs"] for r in q]
        ns = model_normalize_many(case["ci_env"], case["name"], flat)
        out, k = [], 0
        for q in case["qs"]:
            out.append([json.dumps(n, ensure_ascii=False) for n in ns[k:k + len(q)]])
            k += len(q)
        return out

    def request_(self, case: dict) -> dict:
        return {"c": "c16.interleave", "qs": self._lines(case), "sched": case["sched"]}

    def compare_(self, case, impl_out, model_out):
        if DEEP_ALIASING_IN_SCOPE and case.get("reuse") and (
                case["reuse"] == "nested_inplace" or case.get("via") == "mux_write_or_buffer"):
            return None  # the keyed monitors decide these cases (ALIAS_KEY); the model takes the value at append time
        if not isinstance(model_out, dict) or "file" not in model_out:
            return f"model error {model_out}"
        if "__raised__" in impl_out:
            return f"implementation raised {impl_out}"
        if impl_out["file"] != unesc(model_out["file"]):
            a, b = impl_out["file"], unesc(model_out["file"])
            i = next((k for k in range(min(len(a), len(b))) if a[k] != b[k]), min(len(a), len(b)))
            return f"file differs at char {i}: impl={a[max(0, i - 40):i + 60]!r} model={b[max(0, i - 40):i + 60]!r}"
        if [w for w, _ in impl_out["trace"]] != [w for w, _ in model_out["trace"]]:
            return "append trace differs"
        return None

    def monitor_requests_(self, case, impl_out):
        from clematis.engine.util.io_logging import normalize_for_identity
        with with_ci(case["ci_env"]):
            lines = [json.dumps(normalize_for_identity(case["name"], rec), ensure_ascii=False) for _, rec in impl_out["trace"]]
        rq = [("one_complete_lf_line_per_record", {"c": "c16.wellframed", "file": impl_out["file"], "lines": lines})]
        raw = impl_out.get("raw", [])
        if sum(len(c) for g in raw for c in g) == len(impl_out["file"].encode("utf-8")):  # the writes were observable
            frames = [l1((l + "\n").encode("utf-8")) for l in lines]
            if len(raw) == len(frames):
                rq.append(("one_append_is_one_raw_write_of_one_frame",
                           {"c": "c16.rawwrites", "groups": raw, "expect": frames, "merge": True}))
            else:  # handles shared between appends: chunk boundaries must still be frame boundaries
                rq.append(("raw_write_boundaries_are_frame_boundaries",
                           {"c": "c16.rawwrites", "groups": [[c for g in raw for c in g]], "expect": ["".join(frames)], "merge": False}))
        return rq

    def monitors_(self, case, impl_out):
        from clematis.engine.util.io_logging import normalize_for_identity
        res = []
        raw = impl_out["file"]
        lines = raw.split("\n")
        ok = raw == "" or raw.endswith("\n")
        body = lines[:-1]
        res.append(("lf_terminated", ok and len(body) == len(impl_out["trace"]),
                    f"{len(body)} lines for {len(impl_out['trace'])} appends; tail={raw[-40:]!r}"))
        try:
            parsed = [json.loads(l) for l in body]
        except Exception as e:
            res.append(("every_line_is_json", False, f"{e}"))
            return res
        with with_ci(case["ci_env"]):
            exp = [json.loads(json.dumps(normalize_for_identity(case["name"], rec))) for _, rec in impl_out["trace"]]
        res.append(("records_round_trip", parsed == exp, f"parsed={json.dumps(parsed)[:200]} expected={json.dumps(exp)[:200]}"))
        # per-writer order
        for w, q in enumerate(case["qs"]):
            mine = [tcanon_rec(r) for ww, r in impl_out["trace"] if ww == w]
            res.append(("writer_order_kept", mine == [tcanon_rec(r) for r in q][:len(mine)], f"writer {w}"))
        res.append(("no_stray_files", impl_out["others"] == [], f"{impl_out['others']}"))
        res.append(("capture_never_writes_through", not impl_out.get("early"),
                    f"reached the disk while the capture was still active (before its flush): {impl_out.get('early')}"))
        return res

    def tags_(self, case, impl_out):
        t = set()
        n = len(impl_out.get("trace", []))
        if n >= 2:
            t.add("multi")
        ws = [w for w, _ in impl_out.get("trace", [])]
        if len(set(ws)) > 1 and ws != sorted(ws):
            t.add("interleaved")
        if any("blob" in r for _, r in impl_out.get("trace", [])):
            t.add("big_line")
        if case.get("via", "direct") != "direct" and n:
            t.add(case["via"])
        if n > 4096:
            t.add("capture_above_4096_" + case.get("via", "direct"))
        if case.get("reuse") and n >= 2:
            t.add("dict_reused_" + case.get("via", "direct"))
            t.add("dict_reused_ci_" + ("on" if case["ci_env"].lower() == "true" else "off"))
            t.add("dict_reused_" + ("identity_stream" if case["name"] in IDENT else "other_stream"))
        sizes = [sum(len(c) for c in g) for g in impl_out.get("raw", [])]
        if any(z > 8192 for z in sizes):
            t.add("frame_above_buffer")
        if any(8000 <= z <= 8400 for z in sizes):
            t.add("frame_at_buffer_boundary")
        if impl_out.get("trace") and not sizes:
            t.add("raw_unobserved")
        if any(any(c in json.dumps(r, ensure_ascii=False) for c in ("\u2028", "\\n", "\\r", "\\u0000")) for _, r in impl_out.get("trace", [])):
            t.add("control_chars")
        return sorted(t) or ["default"]

    def shrink_(self, case):
        for i in range(len(case["sched"])):
            yield dict(case, sched=case["sched"][:i] + case["sched"][i + 1:])
        for w, q in enumerate(case["qs"]):
            for k in range(len(q)):
                qs = [list(x) for x in case["qs"]]
                del qs[w][k]
                yield dict(case, qs=qs)


# ---------------------------------------------------------------------------
# rewrite
# ---------------------------------------------------------------------------

def canon_dumps(r: Any) -> str:
    return json.dumps(r, ensure_ascii=False, sort_keys=True, separators=(",", ":"))


class RewriteComp(FrozenComp):
    name = "rewrite"
    budget = {"quick": 300, "thorough": 3000, "search": 1000}

    def gen_(self, rng: random.Random, i: int) -> dict:
        name = rng.choice(STREAMS + ["turn.jsonl"] * 3 + OTHER)
        recs = []
        for _ in range(rng.choice([0, 1, 2, 3, 6])):
            for _ in range(20):
                r = gen_jsonable_record(rng, name)
                try:
                    canon_dumps(r)
                    recs.append(r)
                    break
                except Exception:
                    continue
        if recs and rng.random() < 0.3:
            k = rng.randrange(len(recs))
            recs[k] = add_pad(rng, recs[k])
            if rng.random() < 0.5:  # one record well above 64 KiB
                recs[k]["pad"] = rng.choice(PAD_CHARS) * rng.choice([66_000, 70_000, 100_000])
        return {"ci_env": rng.choice(CI_VALUES), "name": name, "recs": recs,
                "pre": rng.choice([None, "", "old line\n", "torn"]), "shape": rng.choice(self.SHAPES)}

    #: `records: Iterable[dict]` — re-iterable containers AND one-shot iterables (a second pass over
    #: the latter sees nothing); `self_reader` streams the records back out of the very file being compacted.
    SHAPES = ["list", "tuple", "generator", "iterator", "filter", "map", "self_reader", "dict_values"]

    @staticmethod
    def effective_recs(case: dict) -> List[Dict[str, Any]]:
        """the records the iterable yields (self_reader: after the JSON round trip through the file)."""
        if case.get("shape") == "self_reader":
            return [json.loads(json.dumps(r, ensure_ascii=False)) for r in case["recs"]]
        return case["recs"]

    @staticmethod
    def make_iterable(case: dict, path: Path):
        recs = [dict(r) for r in case["recs"]]
        shape = case.get("shape", "list")
        if shape == "tuple":
            return tuple(recs)
        if shape == "generator":
            return (r for r in recs)
        if shape == "iterator":
            return iter(recs)
        if shape == "filter":
            return filter(lambda r: True, recs)
        if shape == "map":
            return map(dict, recs)
        if shape == "dict_values":
            return {i: r for i, r in enumerate(recs)}.values()
        if shape == "self_reader":
            path.write_text("".join(json.dumps(r, ensure_ascii=False) + "\n" for r in recs), encoding="utf-8")

            def reader():
                with open(path, "r", encoding="utf-8", newline="\n") as f:
                    for line in f:
                        if line.strip():
                            yield json.loads(line)
            return reader()
        return recs

    def impl_(self, case: dict) -> Any:
        from clematis.io.log import rewrite_jsonl
        d = scratch_dir("rewrite")
        try:
            if case["pre"] is not None:
                (d / case["name"]).write_text(case["pre"], encoding="utf-8")
            records = self.make_iterable(case, d / case["name"])
            rec_raw = record_raw_writes()
            with with_ci(case["ci_env"]), with_logdir(d), rec_raw:
                rewrite_jsonl(case["name"], records)
            data = (d / case["name"]).read_bytes()
            others = sorted(x.name for x in d.iterdir() if x.name != case["name"])
        finally:
            shutil.rmtree(d, ignore_errors=True)
        raw = [[l1(c) for c in g["chunks"]] for g in rec_raw.groups if os.path.basename(g["path"]).startswith(case["name"])]
        return {"file": data.decode("utf-8"), "others": others, "raw": raw}

    def request_(self, case: dict) -> dict:
        ns = model_normalize_many(case["ci_env"], case["name"], self.effective_recs(case))
        return {"c": "c16.rewrite", "lines": [canon_dumps(n) for n in ns]}

    def compare_(self, case, impl_out, model_out):
        if not isinstance(model_out, str):
            return f"model error {model_out}"
        if "__raised__" in impl_out:
            return f"implementation raised {impl_out}"
        if impl_out["file"] != unesc(model_out):
            return f"rewrite payload differs: impl={impl_out['file'][:200]!r} model={unesc(model_out)[:200]!r}"
        return None

    def monitor_requests_(self, case, impl_out):
        from clematis.engine.util.io_logging import normalize_for_identity
        with with_ci(case["ci_env"]):
            lines = [canon_dumps(normalize_for_identity(case["name"], r)) for r in self.effective_recs(case)]
        rq = [("rewrite_well_framed", {"c": "c16.wellframed", "file": impl_out["file"], "lines": lines})]
        chunks = [c for g in impl_out.get("raw", []) for c in g]
        if sum(len(c) for c in chunks) == len(impl_out["file"].encode("utf-8")) and chunks:
            rq.append(("rewrite_raw_write_boundaries_are_frame_boundaries",
                       {"c": "c16.rawwrites", "groups": [chunks], "expect": [l1(impl_out["file"].encode("utf-8"))], "merge": False}))
        return rq

    def monitors_(self, case, impl_out):
        from clematis.engine.util.io_logging import normalize_for_identity
        raw = impl_out["file"]
        body = raw.split("\n")[:-1]
        try:
            parsed = [json.loads(l) for l in body]
        except Exception as e:
            return [("rewrite_lines_are_json", False, str(e))]
        with with_ci(case["ci_env"]):
            exp = [json.loads(json.dumps(normalize_for_identity(case["name"], r))) for r in self.effective_recs(case)]
        return [("rewrite_preserves_records", parsed == exp and (raw == "" or raw.endswith("\n")),
                 f"records given as {case.get('shape', 'list')}: {len(parsed)} lines for {len(exp)} records; "
                 f"parsed={json.dumps(parsed)[:200]} expected={json.dumps(exp)[:200]}"),
                ("rewrite_no_stray_files", impl_out["others"] == [], f"{impl_out['others']}")]

    def tags_(self, case, impl_out):
        t = set()
        if len(case["recs"]) >= 2:
            t.add("multi")
        if case["pre"]:
            t.add("replaces_existing")
        if case["ci_env"].lower() == "true" and case["name"] in IDENT:
            t.add("normalised")
        shape = case.get("shape", "list")
        one_shot = shape in ("generator", "iterator", "filter", "map", "self_reader")
        t.add("shape_" + shape)
        if not case["recs"]:
            t.add("empty_one_shot" if one_shot else "empty")
        elif one_shot:
            t.add("one_shot_iterable")
        if any(len(l) > 65536 for l in impl_out.get("file", "").split("\n")):
            t.add("line_above_64KiB_one_shot" if one_shot else "line_above_64KiB")
        return sorted(t) or ["default"]

    def shrink_(self, case):
        for i in range(len(case["recs"])):
            yield dict(case, recs=case["recs"][:i] + case["recs"][i + 1:])


# ---------------------------------------------------------------------------
# stager
# ---------------------------------------------------------------------------

def est_of(rec: Dict[str, Any]) -> int:
    return sum(len(str(k)) + len(str(v)) for k, v in rec.items()) + 2


def gen_arrivals(rng: random.Random) -> Tuple[List[dict], str]:
    mode = rng.choice(["const", "const", "mono", "mono", "random", "late_small"])
    n = rng.choice([1, 2, 3, 5, 8, 14])
    paths = rng.sample(STREAMS + ["foo.jsonl", "logs/t1.jsonl", "a/b/turn.jsonl", "t1.jsonl"], rng.randrange(1, 5))
    turn, sl = rng.choice([0, 1, 5, -1]), rng.choice([0, 0, 1, 3])
    arr = []
    for i in range(n):
        if mode == "mono":
            if rng.random() < 0.3:
                if rng.random() < 0.5:
                    turn += rng.randrange(1, 3)
                    sl = rng.choice([0, sl])
                else:
                    sl += rng.randrange(1, 3)
        elif mode == "random":
            turn, sl = rng.choice([0, 1, 2, 3, -1]), rng.choice([0, 1, 2])
        elif mode == "late_small" and i == n - 1 and n > 1:
            turn -= 1
        p = rng.choice(paths)
        rec = gen_record(rng, os.path.basename(p))
        if rng.random() < 0.3:
            rec["pad"] = "p" * rng.choice([10, 50, 200])
        arr.append({"path": p, "turn": turn, "slice": sl, "rec": rec})
    return arr, mode


def choose_limit(rng: random.Random, arrivals: List[dict]) -> int:
    ests = [est_of(a["rec"]) for a in arrivals] or [10]
    return rng.choice([0, -1, min(ests) - 1, max(ests) - 1, max(ests), max(ests), max(ests) + 1, max(ests) + min(ests),
                       max(ests) + min(ests), 2 * max(ests), 2 * max(ests), 3 * max(ests), sum(ests) // 2 + max(ests),
                       sum(ests) - 1, sum(ests), sum(ests) + 1, 32 * 1024 * 1024])


def mono_per_file(arrivals: List[dict]) -> bool:
    last: Dict[str, Tuple[int, int]] = {}
    # pairwise: every later arrival of the same file is >= every earlier one
    seen: Dict[str, List[Tuple[int, int]]] = {}
    for a in arrivals:
        k = (a["turn"], a["slice"])
        if any(k < p for p in seen.get(a["path"], [])):
            return False
        seen.setdefault(a["path"], []).append(k)
    return True


def drive_stager_loop(limit: int, arrivals: List[dict]) -> dict:
    """The drain-flush-retry loop of `_run_agents_parallel_batch`, line by line, on the real stager."""
    from clematis.engine.util import io_logging as IOL
    flushes: List[List[dict]] = []

    def flush(stager):
        recs = stager.drain_sorted()
        flushes.append([{"path": r.file_path, "turn": r.key.turn_id, "ord": r.key.stage_ord, "slice": r.key.slice_idx,
                         "seq": r.key.seq, "est": r.bytes_estimate, "payload": tcanon_rec(r.payload)} for r in recs])

    ok = True
    try:
        stager = IOL.enable_staging(limit)
        for a in arrivals:
            key = IOL.default_key_for(file_path=a["path"], turn_id=a["turn"], slice_idx=a["slice"])
            try:
                stager.stage(a["path"], key, a["rec"])
            except RuntimeError as exc:
                if str(exc) == "LOG_STAGING_BACKPRESSURE":
                    flush(stager)
                    try:
                        stager.stage(a["path"], key, a["rec"])
                    except RuntimeError as exc2:
                        if str(exc2) == "LOG_STAGING_BACKPRESSURE":
                            ok = False
                            break
                        raise
                else:
                    raise
        if ok:
            flush(stager)
    finally:
        IOL.disable_staging()
    return {"ok": ok, "flushes": flushes}


class StagerComp(FrozenComp):
    name = "stager"
    budget = {"quick": 3000, "thorough": 40000, "search": 15000}

    def gen_(self, rng: random.Random, i: int) -> dict:
        arr, mode = gen_arrivals(rng)
        return {"ci_env": rng.choice(CI_VALUES), "limit": choose_limit(rng, arr), "arrivals": arr, "mode": mode}

    def impl_(self, case: dict) -> Any:
        with with_ci(case["ci_env"]):
            return drive_stager_loop(case["limit"], case["arrivals"])

    def request_(self, case: dict) -> dict:
        self._tables = []
        arr = []
        for a in case["arrivals"]:
            table: List[Any] = []
            arr.append({"path": a["path"], "turn": a["turn"], "slice": a["slice"], "rec": enc_rec(a["rec"], table)})
        return {"c": "c16.stager", "ci_env": case["ci_env"], "limit": case["limit"], "arrivals": arr}

    def compare_(self, case, impl_out, model_out):
        if not isinstance(model_out, dict) or "written" not in model_out:
            return f"model error {model_out}"
        if "__raised__" in impl_out:
            return f"implementation raised {impl_out}"
        tables = []
        for a in case["arrivals"]:
            t: List[Any] = []
            enc_rec(a["rec"], t)
            tables.append(t)
        mw = []
        for r in model_out["written"]:
            t = tables[r["seq"] - 1] if 1 <= r["seq"] <= len(tables) else []
            mw.append({"path": r["path"], "turn": r["turn"], "ord": r["ord"], "slice": r["slice"], "seq": r["seq"],
                       "est": r["est"], "payload": tcanon_rec(dec_rec(r["payload"], t))})
        iw = [r for f in impl_out["flushes"] for r in f]
        if impl_out["ok"] != model_out["ok"]:
            return f"loop outcome differs: impl ok={impl_out['ok']} model ok={model_out['ok']}"
        if iw != mw:
            for k, (x, y) in enumerate(zip(iw, mw)):
                if x != y:
                    return f"written[{k}] differs: impl={json.dumps(x)[:250]} model={json.dumps(y)[:250]}"
            return f"written length differs: impl={len(iw)} model={len(mw)}"
        return None

    def monitor_requests_(self, case, impl_out):
        arr = [{"path": a["path"], "turn": a["turn"], "slice": a["slice"], "rec": []} for a in case["arrivals"]]
        fl = [[{k: r[k] for k in ("path", "turn", "ord", "slice", "seq")} for r in f] for f in impl_out["flushes"]]
        return [("flush_order", {"c": "c16.stager.mon", "flushes": fl, "arrivals": arr, "ok": impl_out["ok"], "strict": False})]

    def monitors_(self, case, impl_out):
        res = []
        if STRICT_LIMIT_INDEPENDENCE and impl_out["ok"] and not mono_per_file(case["arrivals"]):
            w = [r for f in impl_out["flushes"] for r in f]
            bad = None
            for p in {a["path"] for a in case["arrivals"]}:
                seqs = [r["seq"] for r in w if r["path"] == p]
                keys = [(r["turn"], r["ord"], r["slice"], r["seq"]) for r in w if r["path"] == p]
                if keys != sorted(keys):
                    bad = (p, seqs)
            res.append((STRICT_KEY, bad is None, f"per-file order depends on the limit: {bad}"))
        return res

    def tags_(self, case, impl_out):
        t = set()
        if len(impl_out.get("flushes", [])) > 1:
            t.add("backpressure_flush")
        if not impl_out.get("ok", True):
            t.add("retry_raises")
        t.add("mono" if mono_per_file(case["arrivals"]) else "nonmono")
        if len({a["path"] for a in case["arrivals"]}) > 1:
            t.add("multi_file")
        if case["ci_env"].lower() == "true":
            t.add("ci")
        return sorted(t)

    def shrink_(self, case):
        for i in range(len(case["arrivals"])):
            yield dict(case, arrivals=case["arrivals"][:i] + case["arrivals"][i + 1:])
        for a in range(len(case["arrivals"])):
            for k in list(case["arrivals"][a]["rec"].keys()):
                arr = [dict(x) for x in case["arrivals"]]
                arr[a] = dict(arr[a], rec={kk: vv for kk, vv in arr[a]["rec"].items() if kk != k})
                yield dict(case, arrivals=arr)


# monitor_fail key override for the strict reading
def _strict_wrap(ctx: Ctx) -> None:
    if not (STRICT_LIMIT_INDEPENDENCE or DEEP_ALIASING_IN_SCOPE):
        return
    orig = ctx.monitor_fail

    def mf(comp, monitor, case, detail, impl_out=None, key=None):
        if monitor == STRICT_KEY:
            key = STRICT_KEY
        if comp == "append" and isinstance(case, dict) and case.get("reuse") and (
                case.get("reuse") == "nested_inplace" or case.get("via") == "mux_write_or_buffer"):
            key = ALIAS_KEY
        return orig(comp, monitor, case, detail, impl_out, key)
    ctx.monitor_fail = mf  # type: ignore


# ---------------------------------------------------------------------------
# batch: the real loop in parallel.py
# ---------------------------------------------------------------------------

class BatchComp(FrozenComp):
    """Drives the real `_run_agents_parallel_batch` (the real `_run_turn_compute` with its LogMux capture, the staging
    loop, `_sort_turn_buffers`, the apply.jsonl staging and the final drain); only `Orchestrator.run_turn` (a stub
    emitting through the real `append_jsonl`) and `apply_changes` are replaced, via the orchestrator's own hooks;
    the writer is the real `_append_jsonl_unbuffered` on a scratch log dir."""
    name = "batch"
    budget = {"quick": 300, "thorough": 3000, "search": 1000}

    def gen_(self, rng: random.Random, i: int) -> dict:
        if i % 101 == 7:  # one agent emitting thousands of tiny records inside the driver's capture
            n = rng.randrange(4200, 5001)
            streams = rng.sample(["t1.jsonl", "health.jsonl", "turn.jsonl", "t3_plan.jsonl"], 2)
            bufs = [{"agent": "ag0", "logs": [[streams[j % 2 if j % 7 else 0], {"k": j}] for j in range(n)],
                     "reuse": rng.random() < 0.5}]
            if rng.random() < 0.5:
                bufs.append({"agent": "ag1", "logs": [["t1.jsonl", {"k": -1}]], "reuse": False})
            return {"ci_env": rng.choice(["true", ""]), "limit": 32 * 1024 * 1024, "turn": 3, "slice": 0, "bufs": bufs}
        nag = rng.choice([1, 2, 3, 4])
        turn, sl = rng.choice([0, 1, 7]), rng.choice([0, 0, 2])
        bufs = []
        for a in range(nag):
            logs = []
            for _ in range(rng.randrange(0, 5)):
                p = rng.choice(["t1.jsonl", "t2.jsonl", "t4.jsonl", "turn.jsonl", "t3_plan.jsonl", "health.jsonl"])
                logs.append([p, gen_jsonable_record(rng, p)])
            if logs and rng.random() < 0.25:
                k = rng.randrange(len(logs))
                logs[k] = [logs[k][0], add_pad(rng, logs[k][1])]
            bufs.append({"agent": f"ag{a}", "logs": logs, "reuse": rng.random() < 0.5})
        ests = [est_of(r) for b in bufs for _, r in b["logs"]] or [10]
        limit = rng.choice([max(ests) + 200, 2 * max(ests) + 200, sum(ests) + 1000, 32 * 1024 * 1024])
        return {"ci_env": rng.choice(["true", "true", "", "TRUE"]), "limit": limit, "turn": turn, "slice": sl, "bufs": bufs}

    def _arrivals(self, case) -> List[dict]:
        arr = []
        for b in case["bufs"]:
            for p, r in b["logs"]:
                arr.append({"path": p, "turn": case["turn"], "slice": case["slice"], "rec": r})
        ci = case["ci_env"].lower() == "true"
        for b in case["bufs"]:
            arr.append({"path": "apply.jsonl", "turn": case["turn"], "slice": case["slice"],
                        "rec": {"turn": case["turn"], "agent": b["agent"], "applied": 0, "clamps": 0, "version_etag": "e",
                                "snapshot": None, "cache_invalidations": 0, "ms": 0.0}})
        return arr

    def impl_(self, case: dict) -> Any:
        import clematis.engine.orchestrator as orch
        from clematis.engine.orchestrator import parallel as par
        from clematis.engine.util import io_logging as IOL
        from types import SimpleNamespace as SNS
        d = scratch_dir("batch")
        bufs = {b["agent"]: b for b in case["bufs"]}
        from clematis.engine.orchestrator import core as ocore
        from clematis.io.log import append_jsonl
        saved = {k: getattr(orch, k, None) for k in ("apply_changes", "enable_staging")}
        had = {k: hasattr(orch, k) for k in saved}
        real_orchestrator = ocore.Orchestrator
        early: List[str] = []

        class StageEmitter:
            """Stands in for `Orchestrator` inside the REAL `_run_turn_compute`: its `run_turn` emits the
            agent's records through the real `append_jsonl` while the driver's LogMux capture is active — from
            fresh dicts, or (reuse) from ONE dict object refilled between appends and reused afterwards."""

            def run_turn(self_, subctx, ro, text):
                b = bufs[subctx.agent_id]
                obj: Dict[str, Any] = {}
                for p, r in b["logs"]:
                    if b.get("reuse"):
                        obj.clear()
                        obj.update(r)
                        append_jsonl(p, obj)
                    else:
                        append_jsonl(p, dict(r))
                obj.clear()
                obj["__reused_after_append__"] = True
                early.extend(x.name for x in d.iterdir())  # nothing may reach the disk during the compute phase
                return None

        def apply_changes(ctx, state, t4):
            return SNS(applied=0, clamps=0, version_etag="e", snapshot_path=None, metrics={})

        ctx = SNS(turn_id=case["turn"], slice_idx=case["slice"], agent_id="x", now_ms=None,
                  cfg={"perf": {"enabled": True, "parallel": {"enabled": True, "agents": True, "max_workers": 8}}})
        state = {"agents": {b["agent"]: {"graphs": [b["agent"]]} for b in case["bufs"]}}
        try:
            ocore.Orchestrator = StageEmitter
            orch.apply_changes = apply_changes
            orch.enable_staging = lambda: IOL.enable_staging(case["limit"])
            rec_raw = record_raw_writes()
            with with_ci(case["ci_env"]), with_logdir(d), rec_raw:
                par._run_agents_parallel_batch(ctx, state, [(b["agent"], "hi") for b in case["bufs"]])
            files = {p.name: p.read_text(encoding="utf-8") for p in sorted(d.iterdir())}
        finally:
            ocore.Orchestrator = real_orchestrator
            for k, v in saved.items():
                if had[k]:
                    setattr(orch, k, v)
                else:
                    try:
                        delattr(orch, k)
                    except AttributeError:
                        pass
            IOL.disable_staging()
            shutil.rmtree(d, ignore_errors=True)
        raw = [[os.path.basename(g["path"]), [l1(c) for c in g["chunks"]]] for g in rec_raw.groups
               if os.path.dirname(g["path"]) == str(d.resolve()) or os.path.dirname(g["path"]) == str(d)]
        return {"files": files, "raw": raw, "early": sorted(set(early))}

    def monitor_requests_(self, case, impl_out):
        raw = impl_out.get("raw", [])
        total = sum(len(c) for _, g in raw for c in g)
        if not raw or total != sum(len(v.encode("utf-8")) for v in impl_out["files"].values()):
            return []
        # staged flush: every opened handle must put exactly one frame, in one raw write, into its file
        groups = [g for _, g in raw]
        expect = ["".join(g) for g in groups]
        return [("staged_flush_raw_writes_are_frames", {"c": "c16.rawwrites", "groups": groups, "expect": expect, "merge": True})]

    def request_(self, case: dict) -> dict:
        arr = []
        for a in self._arrivals(case):
            table: List[Any] = []
            arr.append({"path": a["path"], "turn": a["turn"], "slice": a["slice"], "rec": enc_rec(a["rec"], table)})
        return {"c": "c16.stager", "ci_env": case["ci_env"], "limit": case["limit"], "arrivals": arr}

    def compare_(self, case, impl_out, model_out):
        if not isinstance(model_out, dict) or "written" not in model_out:
            return f"model error {model_out}"
        if "__raised__" in impl_out:
            return f"implementation raised {impl_out}"
        if not model_out["ok"]:
            return "model: retry raised (generator should avoid this)"
        arrivals = self._arrivals(case)
        exp: Dict[str, str] = {}
        for r in model_out["written"]:
            t: List[Any] = []
            enc_rec(arrivals[r["seq"] - 1]["rec"], t)
            rec = dec_rec(r["payload"], t)
            exp[r["path"]] = exp.get(r["path"], "") + json.dumps(rec, ensure_ascii=False) + "\n"
        if exp != impl_out["files"]:
            for k in sorted(set(exp) | set(impl_out["files"])):
                if exp.get(k) != impl_out["files"].get(k):
                    return f"file {k}: impl={impl_out['files'].get(k, '')[:200]!r} model={exp.get(k, '')[:200]!r}"
        return None

    def monitors_(self, case, impl_out):
        res = []
        arrivals = self._arrivals(case)
        from clematis.engine.util.io_logging import normalize_for_identity
        for p in sorted({a["path"] for a in arrivals}):
            with with_ci(case["ci_env"]):
                exp = [json.loads(json.dumps(normalize_for_identity(p, a["rec"]))) for a in arrivals if a["path"] == p]
            raw = impl_out["files"].get(p, "")
            try:
                got = [json.loads(l) for l in raw.split("\n")[:-1]]
            except Exception as e:
                res.append(("batch_lines_are_json", False, f"{p}: {e}"))
                continue
            res.append(("batch_file_is_arrival_sequence", got == exp and (raw == "" or raw.endswith("\n")),
                        f"{p}: got={json.dumps(got)[:200]} expected={json.dumps(exp)[:200]}"))
        res.append(("capture_never_writes_through", not impl_out.get("early"),
                    f"log files existed during the compute phase (before the commit flush): {impl_out.get('early')}"))
        groups = impl_out.get("raw", [])
        if groups and sum(len(c) for _, g in groups for c in g) == sum(len(v.encode("utf-8")) for v in impl_out["files"].values()):
            one = all("".join(g).count("\n") == 1 and "".join(g).endswith("\n") for _, g in groups)
            res.append(("staged_flush_one_frame_per_open", one, "an opened handle wrote something other than one LF-terminated line"))
            for p in sorted(impl_out["files"]):
                cat = "".join("".join(g) for n, g in groups if n == p).encode("latin-1")
                res.append(("staged_flush_writes_add_up_to_file", cat == impl_out["files"][p].encode("utf-8"), p))
        return res

    def tags_(self, case, impl_out):
        t = set()
        ests = sum(est_of(a["rec"]) for a in self._arrivals(case))
        if case["limit"] < ests:
            t.add("backpressure_flush")
        if len(case["bufs"]) > 1:
            t.add("multi_agent")
        if any(sum(len(c) for c in g) > 8192 for _, g in impl_out.get("raw", [])):
            t.add("frame_above_buffer")
        if any(len(b["logs"]) > 4096 for b in case["bufs"]):
            t.add("capture_above_4096")
        if any(b.get("reuse") and len(b["logs"]) >= 2 for b in case["bufs"]):
            t.add("dict_reused_under_staging")
            t.add("dict_reused_ci_" + ("on" if case["ci_env"].lower() == "true" else "off"))
        return sorted(t) or ["default"]

    def shrink_(self, case):
        for i in range(len(case["bufs"])):
            if len(case["bufs"]) > 1:
                yield dict(case, bufs=case["bufs"][:i] + case["bufs"][i + 1:])
        for i, b in enumerate(case["bufs"]):
            for k in range(len(b["logs"])):
                bufs = [dict(x, logs=list(x["logs"])) for x in case["bufs"]]
                del bufs[i]["logs"][k]
                yield dict(case, bufs=bufs)


# ---------------------------------------------------------------------------
# rotation with crash injection
# ---------------------------------------------------------------------------

class _Crash(BaseException):
    pass


def _gen_index(base: str, path: str) -> Optional[int]:
    if path == base:
        return 0
    if path.startswith(base + "."):
        suf = path[len(base) + 1:]
        if suf.isdigit():
            return int(suf)
    return None


def run_rotation(gens: Dict[int, int], backups: int, crash_after: Optional[int], hi: int) -> dict:
    """Fresh directory with the given generations, real rotate_one, crash (uncatchable exception)
    injected before primitive step number `crash_after + 1`."""
    from clematis.scripts import rotate_logs as RL
    d = scratch_dir("rot")
    base = str(d / "log.jsonl")
    try:
        for k, c in gens.items():
            Path(base if k == 0 else f"{base}.{k}").write_text(f"gen{c}\n", encoding="utf-8")
        (d / "other.jsonl").write_text("other\n", encoding="utf-8")
        (d / "log.jsonl.bak").write_text("bak\n", encoding="utf-8")
        steps: List[list] = []
        real_remove, real_replace = os.remove, os.replace

        def guard():
            if crash_after is not None and len(steps) >= crash_after:
                raise _Crash()

        def p_remove(p, *a, **kw):
            i = _gen_index(base, os.fspath(p))
            if i is None:
                return real_remove(p, *a, **kw)
            guard()
            r = real_remove(p, *a, **kw)
            steps.append(["rm", i])
            return r

        def p_replace(s, t, *a, **kw):
            i, j = _gen_index(base, os.fspath(s)), _gen_index(base, os.fspath(t))
            if i is None and j is None:
                return real_replace(s, t, *a, **kw)
            guard()
            r = real_replace(s, t, *a, **kw)
            steps.append(["mv", -1 if i is None else i, -1 if j is None else j])
            return r

        ret: Any = None
        crashed = False
        os.remove, os.replace = p_remove, p_replace
        try:
            ret = RL.rotate_one(base, backups)
        except _Crash:
            crashed = True
        finally:
            os.remove, os.replace = real_remove, real_replace
        state: List[Optional[int]] = []
        for k in range(hi + 1):
            p = Path(base if k == 0 else f"{base}.{k}")
            if p.exists():
                txt = p.read_text(encoding="utf-8")
                state.append(int(txt[3:-1]) if txt.startswith("gen") and txt.endswith("\n") and txt[3:-1].isdigit() else -1)
            else:
                state.append(None)
        names = sorted(x.name for x in d.iterdir())
        stray = [n for n in names if _gen_index("log.jsonl", n) is None and n not in ("other.jsonl", "log.jsonl.bak")]
        beyond = [n for n in names if (_gen_index("log.jsonl", n) or 0) > hi]
        intact = (d / "other.jsonl").read_text() == "other\n" and (d / "log.jsonl.bak").read_text() == "bak\n"
    finally:
        shutil.rmtree(d, ignore_errors=True)
    return {"steps": steps, "ret": ret, "crashed": crashed, "state": state, "stray": stray + beyond, "intact": intact}


#: decimal-width boundaries of the generation suffix (`path.9` / `path.10`, `path.99` / `path.100`): every rotation
#: stream sweeps backups and pre-existing generation counts across them (a listing-based or string-keyed ordering of
#: the generations agrees with the numeric one only below them).
ROT_WIDE_BACKUPS = [9, 10, 11, 11, 12, 12, 13, 15, 20]
ROT_HUGE_BACKUPS = [99, 100, 101, 110]


def gen_rotation_world(rng: random.Random, backups: int, want_main: Optional[float] = None) -> Tuple[List[int], int]:
    """Generation indices present before a rotation with the given `backups`, and the window top `hi`.
    Modes: a long-lived log (contiguous 0..m, m biased to 8..12 / backups-1..backups+2), gaps, files only above
    the cap, no live file, empty, live file only.  Indices range over 0..backups+2 (above-cap files included)."""
    top = max(backups, 1) + 2
    idxs = list(range(top + 1))
    mode = rng.choice(["full", "full", "gaps", "gaps", "nomain", "empty", "only_main", "dense_gaps", "above_cap"])
    if mode == "full":
        bias = [m for m in (8, 9, 10, 11, 12, 98, 99, 100, 101, backups - 2, backups - 1, backups, backups + 1, backups + 2)
                if 0 <= m <= top]
        m = rng.choice(bias) if (bias and rng.random() < 0.7) else rng.randrange(0, top + 1)
        sel = idxs[: m + 1]
    elif mode == "gaps":
        sel = [k for k in idxs if rng.random() < 0.6]
    elif mode == "dense_gaps":
        holes = set(rng.sample(idxs, min(len(idxs), rng.choice([1, 1, 2, 3]))))
        sel = [k for k in idxs if k not in holes]
    elif mode == "nomain":
        sel = [k for k in idxs[1:] if rng.random() < 0.7]
    elif mode == "above_cap":
        sel = [k for k in idxs if k > backups or k == 0 or rng.random() < 0.3]
    elif mode == "empty":
        sel = []
    else:
        sel = [0]
    if want_main is not None and 0 not in sel and rng.random() < want_main:
        sel = [0] + sel
    return sorted(sel), top + 1


class RotateComp(FrozenComp):
    name = "rotate"
    budget = {"quick": 500, "thorough": 6000, "search": 1500}

    def gen_(self, rng: random.Random, i: int) -> dict:
        r = rng.random()
        if r < 0.8:
            backups = rng.choice([1, 1, 2, 2, 3, 3, 4, 5, 0, -1, 7])
        elif r < 0.97:
            backups = rng.choice(ROT_WIDE_BACKUPS)
        else:
            backups = rng.choice(ROT_HUGE_BACKUPS)
        sel, hi = gen_rotation_world(rng, backups)
        case = {"backups": backups, "gens": [[k, 100 + k] for k in sel], "hi": hi}
        if backups >= 9 and (backups > 20 or rng.random() < 0.75):
            # crash injection at EVERY point is quadratic in the number of generations: sample the crash points
            n = len(sel) + 1
            case["crash_js"] = sorted({rng.randrange(n), rng.randrange(n), rng.randrange(n), max(0, n - 2)})
        return case

    def impl_(self, case: dict) -> Any:
        gens = {k: c for k, c in case["gens"]}
        full = run_rotation(gens, case["backups"], None, case["hi"])
        states = []
        extras = {"stray": list(full["stray"]), "intact": full["intact"], "prefix_ok": True}
        for j in self._crash_points(case, len(full["steps"])):
            r = run_rotation(gens, case["backups"], j, case["hi"])
            states.append(r["state"])
            extras["stray"] += r["stray"]
            extras["intact"] = extras["intact"] and r["intact"]
            extras["prefix_ok"] = extras["prefix_ok"] and r["steps"] == full["steps"][:j]
        return {"steps": full["steps"], "rotated": full["ret"], "states": states, "extras": extras}

    @staticmethod
    def _crash_points(case: dict, nsteps: int) -> List[int]:
        """crash after j primitive steps: every j (default) or the sampled `crash_js` plus the completed run."""
        if "crash_js" not in case:
            return list(range(nsteps + 1))
        return sorted({j for j in case["crash_js"] if j < nsteps} | {nsteps})

    def request_(self, case: dict) -> dict:
        return {"c": "c16.rotate", "gens": case["gens"], "backups": case["backups"], "hi": case["hi"]}

    def compare_(self, case, impl_out, model_out):
        if not isinstance(model_out, dict) or "steps" not in model_out:
            return f"model error {model_out}"
        if "__raised__" in impl_out:
            return f"implementation raised {impl_out}"
        io = {k: impl_out[k] for k in ("steps", "rotated", "states")}
        mo = {k: model_out.get(k) for k in ("steps", "rotated", "states")}
        if "crash_js" in case and isinstance(mo["states"], list) and mo["steps"] == io["steps"]:
            mo["states"] = [mo["states"][j] for j in self._crash_points(case, len(io["steps"]))]
        return Component.compare(self, case, io, mo)

    def monitor_requests_(self, case, impl_out):
        rq = []
        for j, st in enumerate(impl_out["states"]):
            after = [[k, c] for k, c in enumerate(st) if c is not None]
            rq.append((f"rotation_state_legal_and_nothing_but_oldest_lost", {
                "c": "c16.rotate.mon", "before": case["gens"], "after": after, "backups": case["backups"], "hi": case["hi"]}))
        return rq

    def monitors_(self, case, impl_out):
        ex = impl_out["extras"]
        res = [("rotation_leaves_other_files_alone", ex["intact"] and not ex["stray"], f"{ex}"),
               ("crash_runs_are_prefixes", ex["prefix_ok"], "a crashed run performed different steps than the full run")]
        gens = {k: c for k, c in case["gens"]}
        b = case["backups"]
        if b >= 1:
            final = impl_out["states"][-1]
            exp = [None] + [gens.get(k - 1) for k in range(1, b + 1)] + [gens.get(k) for k in range(b + 1, case["hi"] + 1)]
            res.append(("rotation_keeps_newest_in_order", final == exp[: len(final)], f"final={final} expected={exp}"))
            res.append(("rotation_return_value", impl_out["rotated"] is (0 in gens), f"returned {impl_out['rotated']}"))
        else:
            res.append(("rotation_noop_when_backups_lt_1", all(s == impl_out["states"][0] for s in impl_out["states"])
                        and impl_out["steps"] == [] and impl_out["rotated"] is False, f"{impl_out['steps']}"))
        return res

    def tags_(self, case, impl_out):
        t = set()
        ks = sorted(k for k, _ in case["gens"])
        if case["backups"] < 1:
            t.add("noop")
        else:
            if len(impl_out.get("steps", [])) >= 2:
                t.add("crash_points")
            if ks and ks != list(range(ks[0], ks[0] + len(ks))):
                t.add("gaps")
            if 0 not in ks and ks:
                t.add("no_main")
            if case["backups"] in ks:
                t.add("oldest_dropped")
            if any(k > case["backups"] for k in ks):
                t.add("beyond_n")
            t |= set(_width_tags(case["backups"], ks))
        return sorted(t) or ["default"]

    def shrink_(self, case):
        for i in range(len(case["gens"])):
            yield dict(case, gens=case["gens"][:i] + case["gens"][i + 1:])


def _width_tags(backups: int, ks: List[int]) -> List[str]:
    """evidence tags: did the rotation move generations across a decimal-width boundary of the suffix?"""
    t = []
    if backups >= 10:
        t.append("backups_ge_10")
    if backups >= 100:
        t.append("backups_ge_100")
    if backups >= 11 and 9 in ks and 10 in ks:
        t.append("shift_9_10_11")
    if backups >= 101 and 99 in ks and 100 in ks:
        t.append("shift_99_100_101")
    return t


_SHIM_MOD: List[Any] = []


def _rotate_shim():
    """the repo-root `scripts/rotate_logs.py` shim, loaded from $CLEMATIS3_REPO by file path (not a package)."""
    if not _SHIM_MOD:
        import importlib.util
        sdir = str(REPO / "scripts")
        sys.path.insert(0, sdir)
        try:
            spec = importlib.util.spec_from_file_location("_c16_rotate_logs_shim", str(REPO / "scripts" / "rotate_logs.py"))
            mod = importlib.util.module_from_spec(spec)
            spec.loader.exec_module(mod)
        finally:
            try:
                sys.path.remove(sdir)
            except ValueError:
                pass
        _SHIM_MOD.append(mod)
    return _SHIM_MOD[0]


class RotateMainComp(FrozenComp):
    """`rotate_logs.main`: a file is rotated iff its size is >= --max-bytes (sizes are part of the
    property's "rotation histories"); expected final state = the model's `rotateOne` (or untouched)."""
    name = "rotmain"
    budget = {"quick": 200, "thorough": 2000, "search": 600}

    def gen_(self, rng: random.Random, i: int) -> dict:
        r = rng.random()
        if r < 0.6:
            backups = rng.choice([1, 2, 3, 5])
        elif r < 0.95:
            backups = rng.choice(ROT_WIDE_BACKUPS)
        else:
            backups = rng.choice(ROT_HUGE_BACKUPS)
        sel, hi = gen_rotation_world(rng, backups, want_main=0.85)
        size = rng.choice([7, 8, 20, 100])
        mb = rng.choice([size - 1, size, size + 1, 1, 10 ** 7])
        #: entry point: the packaged main, the repo-root scripts/ shim, `python -m clematis rotate-logs` (its in-process
        #: main), and the packaged main with --dry-run (prints the plan, must touch nothing)
        entry = rng.choice(["main", "main", "shim", "cli", "dry"])
        return {"backups": backups, "gens": [[k, 100 + k] for k in sel], "hi": hi, "size": size, "max_bytes": mb,
                "entry": entry}

    def impl_(self, case: dict) -> Any:
        from clematis.scripts import rotate_logs as RL
        import contextlib
        import io
        d = scratch_dir("rotmain")
        base = d / "log.jsonl"
        try:
            for k, c in case["gens"]:
                p = base if k == 0 else Path(f"{base}.{k}")
                body = f"gen{c}\n"
                if k == 0:
                    body += "#" * max(0, case["size"] - len(body))
                p.write_text(body, encoding="utf-8")
            (d / "small.jsonl").write_text("s\n", encoding="utf-8")
            real_size = base.stat().st_size if base.exists() else None
            buf = io.StringIO()
            entry = case.get("entry", "main")
            argv = ["--dir", str(d), "--pattern", "*.jsonl", "--max-bytes", str(case["max_bytes"]),
                    "--backups", str(case["backups"])]
            err = io.StringIO()
            with contextlib.redirect_stderr(err), contextlib.redirect_stdout(buf):
                if entry == "shim":
                    rc = _rotate_shim().main(argv)
                elif entry == "cli":
                    from clematis.cli.main import main as cli_main
                    try:
                        rc = cli_main(["rotate-logs"] + argv)
                    except SystemExit as e:
                        rc = int(e.code or 0)
                elif entry == "dry":
                    rc = RL.main(argv + ["--dry-run"])
                else:
                    rc = RL.main(argv)
            plan: List[list] = []
            for line in buf.getvalue().split("\n"):
                w = line.split(" ")
                if w[0] == "rm" and len(w) == 2 and _gen_index(str(base), w[1]) is not None:
                    plan.append(["rm", _gen_index(str(base), w[1])])
                elif w[0] == "mv" and len(w) == 3 and _gen_index(str(base), w[1]) is not None:
                    j = _gen_index(str(base), w[2])
                    plan.append(["mv", _gen_index(str(base), w[1]), -1 if j is None else j])
            state = []
            for k in range(case["hi"] + 1):
                p = base if k == 0 else Path(f"{base}.{k}")
                if p.exists():
                    first = p.read_text(encoding="utf-8").split("\n")[0]
                    state.append(int(first[3:]) if first.startswith("gen") and first[3:].isdigit() else -1)
                else:
                    state.append(None)
            small = sorted(x.name for x in d.iterdir() if x.name.startswith("small"))
        finally:
            shutil.rmtree(d, ignore_errors=True)
        return {"rc": rc, "state": state, "size": real_size, "small": small, "plan": plan}

    def _over(self, case, impl_out) -> bool:
        return impl_out.get("size") is not None and impl_out["size"] >= case["max_bytes"]

    def _rotates(self, case, impl_out) -> bool:
        return self._over(case, impl_out) and case.get("entry") != "dry"

    def request_(self, case: dict) -> dict:
        return {"c": "c16.rotate", "gens": case["gens"], "backups": case["backups"], "hi": case["hi"]}

    def compare_(self, case, impl_out, model_out):
        if not isinstance(model_out, dict) or "states" not in model_out:
            return f"model error {model_out}"
        if "__raised__" in impl_out:
            return f"implementation raised {impl_out}"
        exp = model_out["states"][-1] if self._rotates(case, impl_out) else model_out["states"][0]
        if impl_out["state"] != exp:
            return (f"final state via {case.get('entry', 'main')} impl={impl_out['state']} model={exp} "
                    f"(size={impl_out['size']} max_bytes={case['max_bytes']})")
        if case.get("entry") == "dry":
            # the printed plan is the step list of the real rotation (an existence test never depends on an earlier step)
            want = model_out["steps"] if self._over(case, impl_out) else []
            if impl_out["plan"] != want:
                return f"--dry-run plan impl={impl_out['plan']} model steps={want}"
        return None

    def monitors_(self, case, impl_out):
        gens = {k: c for k, c in case["gens"]}
        before = [gens.get(k) for k in range(case["hi"] + 1)]
        moved = 2 >= case["max_bytes"] and case.get("entry") != "dry"
        res = [("main_exit_code_0", impl_out["rc"] == 0, f"rc={impl_out['rc']}"),
               ("main_size_threshold_per_file", impl_out["small"] == (["small.jsonl.1"] if moved else ["small.jsonl"]),
                f"2-byte file with max_bytes={case['max_bytes']}: {impl_out['small']}")]
        if self._rotates(case, impl_out):
            b = case["backups"]
            exp = [None] + [gens.get(k - 1) for k in range(1, b + 1)] + [gens.get(k) for k in range(b + 1, case["hi"] + 1)]
            res.append(("main_rotates_at_threshold", impl_out["state"] == exp, f"state={impl_out['state']} expected={exp}"))
        else:
            res.append(("main_below_threshold_untouched", impl_out["state"] == before, f"state={impl_out['state']} before={before}"))
        return res

    def tags_(self, case, impl_out):
        t = set()
        if impl_out.get("size") is None:
            t.add("no_main")
        elif impl_out["size"] == case["max_bytes"]:
            t.add("at_threshold")
        elif impl_out["size"] > case["max_bytes"]:
            t.add("above")
        else:
            t.add("below")
        t.add("entry_" + case.get("entry", "main"))
        if self._over(case, impl_out):
            t |= set(_width_tags(case["backups"], [k for k, _ in case["gens"]]))
        return sorted(t)

    def shrink_(self, case):
        for i in range(len(case["gens"])):
            yield dict(case, gens=case["gens"][:i] + case["gens"][i + 1:])


class _NoSleepTime:
    """`time` as seen by clematis.io.atomic while faults are injected: back-off sleeps take no time."""

    def __getattr__(self, k):
        import time as _t
        return getattr(_t, k)

    def sleep(self, _s):
        return None


def run_rotation_fault(gens: Dict[int, int], backups: int, hi: int, mv_pick: int, err: str, count: Optional[int]) -> dict:
    """Real `rotate_one` where ONE rename of the cascade fails `count` times (None = every time) with the given
    error before succeeding.  The faulty rename is the `mv_pick`-th (mod the number of renames) of a clean run."""
    import errno as _errno
    import clematis.io.atomic as A
    from clematis.scripts import rotate_logs as RL
    clean = run_rotation(gens, backups, None, hi)
    mvs = [k for k, st in enumerate(clean["steps"]) if st[0] == "mv"]
    if not mvs:
        return {"steps": clean["steps"], "j": None, "raised": None, "ret": clean["ret"], "state": clean["state"],
                "failed_attempts": 0, "intact": clean["intact"], "stray": clean["stray"]}
    j = mvs[mv_pick % len(mvs)]
    d = scratch_dir("rotf")
    base = str(d / "log.jsonl")
    try:
        for k, c in gens.items():
            Path(base if k == 0 else f"{base}.{k}").write_text(f"gen{c}\n", encoding="utf-8")
        (d / "other.jsonl").write_text("other\n", encoding="utf-8")
        done: List[list] = []
        failed = [0]
        real_remove, real_replace = os.remove, os.replace

        def make_err():
            if err == "PermissionError":
                return PermissionError("injected sharing violation")
            return OSError(getattr(_errno, err), f"injected {err}")

        def p_remove(p, *a, **kw):
            r = real_remove(p, *a, **kw)
            i = _gen_index(base, os.fspath(p))
            if i is not None:
                done.append(["rm", i])
            return r

        def p_replace(s_, t_, *a, **kw):
            i, k = _gen_index(base, os.fspath(s_)), _gen_index(base, os.fspath(t_))
            if i is None and k is None:
                return real_replace(s_, t_, *a, **kw)
            if len(done) == j and (count is None or failed[0] < count):
                failed[0] += 1
                raise make_err()
            r = real_replace(s_, t_, *a, **kw)
            done.append(["mv", -1 if i is None else i, -1 if k is None else k])
            return r

        ret: Any = None
        raised = None
        saved_time = A.time
        os.remove, os.replace = p_remove, p_replace
        A.time = _NoSleepTime()
        try:
            ret = RL.rotate_one(base, backups)
        except Exception as e:  # the fault surfacing to the caller is fine; what it leaves behind is what matters
            raised = type(e).__name__
        finally:
            os.remove, os.replace = real_remove, real_replace
            A.time = saved_time
        state: List[Optional[int]] = []
        for k in range(hi + 1):
            pth = Path(base if k == 0 else f"{base}.{k}")
            if pth.exists():
                txt = pth.read_text(encoding="utf-8")
                state.append(int(txt[3:-1]) if txt.startswith("gen") and txt.endswith("\n") and txt[3:-1].isdigit() else -1)
            else:
                state.append(None)
        names = sorted(x.name for x in d.iterdir())
        stray = [n for n in names if _gen_index("log.jsonl", n) is None and n != "other.jsonl"]
        intact = (d / "other.jsonl").read_text() == "other\n"
    finally:
        shutil.rmtree(d, ignore_errors=True)
    return {"steps": clean["steps"], "j": j, "raised": raised, "ret": ret, "state": state, "failed_attempts": failed[0],
            "intact": intact, "stray": stray}


class RotateFaultComp(FrozenComp):
    """Rotation under FAULTS of a rename (not crashes): transient (fails once/twice with an error `atomic_replace`
    documents as retryable, then succeeds) and persistent.  Exact vs `LogRotate.rotateOne` / `failState`; Lean
    monitors `legalStateB`/`nothingLostB` on what is left behind."""
    name = "rotfault"
    budget = {"quick": 160, "thorough": 2500, "search": 600}
    #: what io/atomic.py documents as retryable (the regenerated table + `C16_rotate_retry_set` pin the source to it)
    TRANSIENT = ["EACCES", "EPERM", "EBUSY", "EBUSY", "PermissionError"]
    PERSISTENT = ["EBUSY", "EIO", "ENOSPC", "EACCES", "PermissionError"]

    def gen_(self, rng: random.Random, i: int) -> dict:
        backups = rng.choice([1, 2, 2, 3, 3, 4, 5]) if rng.random() < 0.7 else rng.choice(ROT_WIDE_BACKUPS)
        sel, hi = gen_rotation_world(rng, backups, want_main=0.8)
        top = hi - 1
        persistent = rng.random() < 0.25
        return {"backups": backups, "gens": [[k, 100 + k] for k in sorted(sel)], "hi": top + 1,
                "mv_pick": rng.randrange(6 if backups < 6 else 120), "count": None if persistent else rng.choice([1, 1, 2]),
                "err": rng.choice(self.PERSISTENT if persistent else self.TRANSIENT)}

    def impl_(self, case: dict) -> Any:
        return run_rotation_fault({k: c for k, c in case["gens"]}, case["backups"], case["hi"], case["mv_pick"],
                                  case["err"], case["count"])

    def request_(self, case: dict) -> dict:
        return {"c": "c16.rotate", "gens": case["gens"], "backups": case["backups"], "hi": case["hi"]}

    def _expected(self, case, impl_out, model_out):
        j = impl_out["j"]
        if j is None or case["count"] is not None:
            return model_out["states"][-1]
        return model_out["fails"][j]

    def compare_(self, case, impl_out, model_out):
        if not isinstance(model_out, dict) or "fails" not in model_out:
            return f"model error {model_out}"
        if "__raised__" in impl_out:
            return f"implementation raised {impl_out}"
        if impl_out["steps"] != model_out["steps"]:
            return f"steps of the clean run: impl={impl_out['steps']} model={model_out['steps']}"
        exp = self._expected(case, impl_out, model_out)
        if impl_out["state"] != exp:
            return (f"state after the {'persistent' if case['count'] is None else 'transient'} {case['err']} fault at step "
                    f"{impl_out['j']}: impl={impl_out['state']} model={exp}")
        return None

    def monitor_requests_(self, case, impl_out):
        after = [[k, c] for k, c in enumerate(impl_out["state"]) if c is not None]
        name = ("persistent_rename_failure_loses_only_oldest" if case["count"] is None and impl_out["j"] is not None
                else "transient_rename_fault_loses_only_oldest")
        return [(name, {"c": "c16.rotate.mon", "before": case["gens"], "after": after, "backups": case["backups"],
                        "hi": case["hi"]})]

    def monitors_(self, case, impl_out):
        res = [("rotation_fault_leaves_other_files_alone", impl_out["intact"] and not impl_out["stray"],
                f"intact={impl_out['intact']} stray={impl_out['stray']}")]
        if case["count"] is not None:
            gens = {k: c for k, c in case["gens"]}
            b = case["backups"]
            exp = [None] + [gens.get(k - 1) for k in range(1, b + 1)] + [gens.get(k) for k in range(b + 1, case["hi"] + 1)]
            res.append(("transient_fault_is_retried_and_rotation_completes",
                        impl_out["raised"] is None and impl_out["state"] == exp[: len(impl_out["state"])],
                        f"{case['err']} x{case['count']} at step {impl_out['j']}: raised={impl_out['raised']} "
                        f"state={impl_out['state']} expected={exp}"))
        return res

    def tags_(self, case, impl_out):
        if impl_out.get("j") is None:
            return ["default"]
        t = {"persistent_" + case["err"] if case["count"] is None else "transient_" + case["err"]}
        last = impl_out["steps"][impl_out["j"]][1] == 0
        t.add("fault_on_live_log" if last else "fault_in_cascade")
        return sorted(t)

    def shrink_(self, case):
        for i in range(len(case["gens"])):
            yield dict(case, gens=case["gens"][:i] + case["gens"][i + 1:])


# ---------------------------------------------------------------------------
# fixed obligations + stress
# ---------------------------------------------------------------------------

def fixed_obligations(ctx: Ctx) -> None:
    """The Lean witnesses, reproduced against the real code."""
    # limit dependence (DESIGN §5 row 16): same arrivals, two limits, different per-file order
    arr = [{"path": "t1.jsonl", "turn": 2, "slice": 0, "rec": {"a": "x" * 10}},
           {"path": "t1.jsonl", "turn": 1, "slice": 0, "rec": {"a": "y" * 10}}]
    with with_ci(""):
        big = drive_stager_loop(100, arr)
        small = drive_stager_loop(20, arr)
        tiny = drive_stager_loop(5, arr)
    o_big = [r["turn"] for f in big["flushes"] for r in f]
    o_small = [r["turn"] for f in small["flushes"] for r in f]
    ctx.extra["c16_limit_dependence_witness"] = {"limit_100": o_big, "limit_20": o_small, "limit_5_ok": tiny["ok"]}
    if not (o_big == [1, 2] and o_small == [2, 1] and tiny["ok"] is False and tiny["flushes"] == [[]]):
        ctx.mismatch("stager", {"fixed": "limit_dependence_witness", "arrivals": arr},
                     f"real LogStager no longer reproduces the Lean witness: {o_big} {o_small} {tiny}", None, None)
    if STRICT_LIMIT_INDEPENDENCE:
        ctx.monitor_fail("stager", STRICT_KEY, freeze_case({"limit": 20, "arrivals": arr, "ci_env": "", "mode": "fixed"}),
                         f"per-file order depends on the staging limit: limit 100 -> turns {o_big}, limit 20 -> turns {o_small}",
                         small, key=STRICT_KEY)
    # aliasing probe (evidence only unless DEEP_ALIASING_IN_SCOPE): which buffered paths keep a reference to the
    # caller's dict / its nested containers on this tree
    from clematis.io.log import append_jsonl as _aj
    from clematis.engine.util import logmux as _lm
    from clematis.engine.util import io_logging as _iol
    probe: Dict[str, Any] = {}
    with with_ci(""):
        mux = _lm.LogMux()
        with _lm.use_mux(mux):
            o = {"step": 0, "box": [0]}
            _aj("probe.jsonl", o)
            o["step"] = 1
            o["box"].append(1)
            _lm.write_or_buffer("probe.jsonl", o)
            o["step"] = 2
        d0, d1 = mux.dump()[0][1], mux.dump()[1][1]
        probe["append_jsonl_mux_top_level_copied"] = d0["step"] == 0
        probe["append_jsonl_mux_nested_aliased"] = d0["box"] != [0]
        probe["write_or_buffer_aliases_caller_dict"] = d1["step"] != 1
        try:
            st = _iol.enable_staging(10 ** 6)
            o = {"step": 0}
            st.stage("probe.jsonl", _iol.default_key_for(file_path="probe.jsonl", turn_id=0, slice_idx=0), o)
            o["step"] = 1
            probe["stage_aliases_caller_dict_when_not_normalised"] = st.drain_sorted()[0].payload["step"] != 0
        finally:
            _iol.disable_staging()
    ctx.extra["c16_aliasing_probe"] = probe
    if not probe["append_jsonl_mux_top_level_copied"]:
        ctx.monitor_fail("append", "mux_buffers_value_at_append_time", {"fixed": "aliasing_probe"},
                         f"append_jsonl under a LogMux buffered the caller's own dict: {probe}", None)
    # json.dumps emits no raw LF/CR
    import json as _json
    bad = [s for s in TEXTS + ["\n", "\r", "\r\n", "\x0b\x0c\x1c\x1d\x1e\x85"] if any(c in _json.dumps({"k": s}, ensure_ascii=False) for c in "\n\r")]
    if bad:
        ctx.mismatch("append", {"fixed": "json_dumps_no_raw_lf"}, f"json.dumps emitted a raw LF/CR for {bad!r}", None, None)
    # lone surrogate: encode raises before anything is written
    from clematis.io.log import append_jsonl
    d = scratch_dir("surrogate")
    try:
        with with_logdir(d), with_ci(""):
            try:
                append_jsonl("s.jsonl", {"k": "\ud800"})
                raised = False
            except UnicodeEncodeError:
                raised = True
        data = (d / "s.jsonl").read_bytes() if (d / "s.jsonl").exists() else b""
        ctx.extra["c16_lone_surrogate"] = {"raises": raised, "bytes_written": len(data)}
        if data and not data.endswith(b"\n"):
            ctx.monitor_fail("append", "lone_surrogate_leaves_partial_line", {"fixed": "lone_surrogate"},
                             f"partial line {data!r}", None)
    finally:
        shutil.rmtree(d, ignore_errors=True)


_STRESS_CHILD = r"""
import sys, os, json
sys.path.insert(0, sys.argv[1])
from clematis.io.log import append_jsonl
w, n, big = int(sys.argv[2]), int(sys.argv[3]), int(sys.argv[4])
for k in range(n):
    append_jsonl("stress.jsonl", {"w": w, "k": k, "pad": chr(65 + w % 26) * (big if k % 5 == 0 else 50), "u": "é "})
"""


def stress(ctx: Ctx) -> None:
    """Supporting evidence for the atomic-append assumption: real threads and processes."""
    from clematis.io.log import append_jsonl
    nthreads, nprocs, n = 8, 4, 40
    d = scratch_dir("stress")
    try:
        with with_logdir(d), with_ci(""):
            def worker(w):
                for k in range(n):
                    append_jsonl("stress.jsonl", {"w": w, "k": k, "pad": chr(97 + w) * (200_000 if k % 7 == 0 else 30)})
            ths = [threading.Thread(target=worker, args=(w,)) for w in range(nthreads)]
            env = dict(os.environ)
            procs = [subprocess.Popen([sys.executable, "-c", _STRESS_CHILD, str(REPO), str(100 + w), str(n), str(1_100_000 if w == 0 else 150_000)],
                                      env=env) for w in range(nprocs)]
            for t in ths:
                t.start()
            for t in ths:
                t.join()
            for p in procs:
                if p.wait(timeout=600) != 0:
                    ctx.note("stress child failed (infrastructure); stress skipped")
                    return
        raw = (d / "stress.jsonl").read_bytes()
    finally:
        shutil.rmtree(d, ignore_errors=True)
    lines = raw.split(b"\n")
    ok = raw.endswith(b"\n")
    seen: Dict[int, List[int]] = {}
    torn = 0
    for l in lines[:-1]:
        try:
            o = json.loads(l.decode("utf-8"))
            seen.setdefault(o["w"], []).append(o["k"])
        except Exception:
            torn += 1
    writers = list(range(nthreads)) + [100 + w for w in range(nprocs)]
    order_ok = all(seen.get(w) == list(range(n)) for w in writers)
    ctx.extra["c16_stress"] = {"writers": len(writers), "records": len(lines) - 1, "bytes": len(raw), "torn": torn,
                               "order_ok": order_ok}
    ctx.record_case("stress", {"writers": len(writers), "n": n}, ["threads", "processes", "big_line"], validated=False)
    if not ok or torn or not order_ok or len(lines) - 1 != n * len(writers):
        ctx.monitor_fail("stress", "concurrent_appends_lossless", {"writers": len(writers), "n": n},
                         f"torn={torn} order_ok={order_ok} lines={len(lines) - 1} expected={n * len(writers)} lf_end={ok}", None)


COMPONENTS = [NormalizeComp(), AppendComp(), RewriteComp(), StagerComp(), BatchComp(), RotateComp(), RotateMainComp(), RotateFaultComp()]


def run(ctx: Ctx) -> None:
    _strict_wrap(ctx)
    try:
        _NORM_CACHE.clear()
        for comp in COMPONENTS:
            if comp.name == "append":
                warm_normalize_cache(ctx, comp, lambda c: [r for q in c["qs"] for r in q])
            elif comp.name == "rewrite":
                warm_normalize_cache(ctx, comp, RewriteComp.effective_recs)
            run_component(ctx, comp)
            _NORM_CACHE.clear()
        if ctx.tier != "search":
            fixed_obligations(ctx)
        if ctx.tier == "thorough":
            stress(ctx)
    finally:
        global _SCRATCH
        if _SCRATCH is not None:
            shutil.rmtree(_SCRATCH, ignore_errors=True)
            _SCRATCH = None


def replay(ctx: Ctx, rec: dict) -> int:
    from harness.core import generic_replay
    _strict_wrap(ctx)
    try:
        if rec.get("component") == "stress" or (isinstance(rec.get("case"), dict) and "fixed" in rec["case"]):
            fixed_obligations(ctx)
            if rec.get("component") == "stress":
                stress(ctx)
            bad = ctx.failures or ctx.mismatches
            print(f"REPLAY fixed obligations: {'FAIL' if bad else 'ok'}")
            return 1 if bad else 0
        return generic_replay(ctx, rec, {c.name: c for c in COMPONENTS})
    finally:
        global _SCRATCH
        if _SCRATCH is not None:
            shutil.rmtree(_SCRATCH, ignore_errors=True)
            _SCRATCH = None
