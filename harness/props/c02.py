"""C02 — features behind a closed gate are inert: differential on the real engine + gate-table model."""
from __future__ import annotations

import copy
import json
import os
import random
import shutil
from pathlib import Path
from typing import Any, Dict, List, Optional, Tuple

from harness.core import Ctx, first_diff, run_driver
from harness.lib import gateworld as GW

RULE = ("per gate (perf, perf.parallel, graph, t2.quality, t2.hybrid, t3.reflection, scheduler): generated worlds with "
        "several memory owners, GEL edges, two concept graphs, repeated queries; validated base configurations with the "
        "other features randomly on; the gated subtree absent vs. present with validator-accepted extreme values while "
        "the flag is off; plus, per gate, an EXHAUSTIVE sweep (every leaf of the owned subtree x every pool value, small ones included) on "
        "multi-turn histories that revisit earlier queries with every interacting feature on, and the same differential through the real agent "
        "batch driver for the perf / perf.parallel gates; the number of cases depends on (seed, tier) only; a case is non-trivial when the gated code would have had work (tags work:*) or another feature "
        "is on in the base; distinct by canonical JSON of (gate, world, base, assignment)")
ASSUMPTIONS = [
    "configurations are outputs of configs.validate.validate_config (the property quantifies over validated configurations)",
    "t2.quality.{shadow,trace_dir,redact} belong to the shadow-trace feature (gate perf.enabled && perf.metrics.report_memory && shadow && !quality.enabled), not to the t2.quality gate",
    "wall-clock dependent knobs are kept out of the sampled values (scheduler quantum/wall budgets of an ENABLED scheduler in the base are set huge; scheduler.budgets.time_ms_reflection is sampled only as null/10^9)",
    "rule-based T3 backend (no LLM adapter); deterministic embedding adapter of the repository",
    "external (non-configuration) atoms of site predicates do not themselves depend on the gated subtree (checked only by the differential)",
]
CLAIM = {
    "text": ("Lean theorems over the gate table regenerated from the AST (48 gated call/emit sites of run_turn, T1, T2, quality, hybrid, "
             "reflection with their dominating predicates): every listed site's predicate implies its documented gate flag; for every "
             "engine whose gated sites have these predicates and read-sets (site bodies, external atoms, state and inputs universally "
             "quantified), two configurations with the flag off that differ only inside the gated subtree produce the same state and "
             "artefacts after any sequence of turns, and no artefact of the gate is emitted. Deciding tie: differential execution of the "
             "REAL run_turn (subtree absent vs. adversarial) comparing utterances, every log stream, the directory listing, snapshots and "
             "deep state, plus the model's artefact prediction and theorem hypotheses evaluated by the compiled Lean definitions on the same cases."),
    "note": ("Partial: (1) perf: proved for perf.* minus perf.parallel.* — `_t1_parallel_enabled`/`t2_parallel_enabled` ignore perf.enabled "
             "(dichotomy + witness theorems; finding C02:inert:perf:perf.parallel); (2) scheduler: proved for scheduler.* minus "
             "budgets.{ops,time_ms}_reflection, which reflection consumes while the scheduler is off (theorem: the only leaking sites are "
             "reflection-gated; finding C02:inert:scheduler:scheduler.budgets.ops_reflection). Stage internals are not modelled: what a site "
             "does with the leaves it consumes is a parameter, and the hand-declared read-sets/emits of the table are only covered by the "
             "differential. `normalize` not materialising perf / t2.quality is covered by correspondence only (validator monitor). "
             "The unguarded MMR fallback call in apply_quality is an advisory site (its callee carries the gate). "
             "Agent batch driver: its gate implies perf.parallel.enabled (table) but not perf.enabled (C02_agents_ignore_master_witness); the "
             "closed-master x open-parallel batch cases run only on a tree where it does (NOTE otherwise, proposed finding). "
             "normalize() carrying a gated value outside its subtree is a Python-side monitor (validator_leak)."),
    "technique": "Lean 4 non-interference proof over an AST-generated gate table + real-engine subtree differential",
    "design_ref": "DESIGN.md §4 C02, §5 row 9",
}
DRIVER_MODULES = ["HGates"]
TABLES = ["gates"]
MODELLED = {
    "clematis/engine/orchestrator/core.py": ["Orchestrator.run_turn", "_run_reflection_if_enabled", "_m5_enabled"],
    "clematis/engine/stages/t1.py": ["_t1_parallel_enabled", "_get_cache", "t1_propagate"],
    "clematis/engine/stages/t2/core.py": ["t2_semantic"],
    "clematis/engine/stages/t2/cache.py": ["get_cache"],
    "clematis/engine/stages/t2/parallel.py": ["t2_parallel_enabled"],
    "clematis/engine/stages/t2/quality.py": ["apply_quality"],
    "clematis/engine/stages/t2/quality_ops.py": ["maybe_apply_mmr"],
    "clematis/engine/stages/t2/metrics.py": ["assemble_metrics"],
    "clematis/engine/stages/hybrid.py": ["rerank_with_gel"],
    "clematis/engine/util/metrics.py": ["gate_on"],
    "clematis/engine/orchestrator/parallel.py": ["_agents_parallel_enabled", "_run_agents_parallel_batch"],
}
TRUSTED = [
    "hand-declared per-site read-sets and emitted artefacts in harness/tables/gates.py (predicates are extracted from the AST; "
    "what a site consumes/emits is declared and only exercised by the differential)",
    "harness/lib/turnrig.py + gateworld.py: world construction, log capture, deep-state observation",
]

BUDGET = {"quick": 30, "thorough": 450, "search": 900}       # cases per gate
MUST_ARTEFACTS = ["gel.jsonl", "t3_reflection.jsonl", "rq_traces.jsonl", "t1.perf_keys", "t1.parallel_keys",
                  "t2.perf_keys", "t2q.keys", "turn.slice_keys"]
COMP = "inert"
READER_DEFAULTS = {"t2.quality.redact": True, "t2.quality.trace_dir": "logs/quality"}
SWEEP_WORLDS = {"quick": 1, "thorough": 3, "search": 4}


# ---------------------------------------------------------------------------------------------
# helpers
# ---------------------------------------------------------------------------------------------
def derive(gate: str, base: Dict[str, Any], assign: Dict[str, Any]) -> Tuple[Dict[str, Any], Dict[str, Any]]:
    g = GW.GATES[gate]
    absent = copy.deepcopy(base)
    GW.del_path(absent, g["sub"])
    if gate == "t2.quality":
        for k in ("shadow", "trace_dir", "redact"):
            v = GW.get_path(base, f"t2.quality.{k}")
            if v is not None:
                GW.set_path(absent, f"t2.quality.{k}", v)
    if not g["flag_in_sub"]:
        GW.set_path(absent, g["flag"], False)
    return absent, GW.apply_assignment(absent, gate, assign)


def gen_case(rng: random.Random, gate: str, i: int) -> Dict[str, Any]:
    world = GW.gen_world(rng)
    base = GW.gen_base_cfg(rng)
    _a, _b, assign = GW.subtree_variants(rng, gate, base, full=(i % 5 == 0))
    return {"gate": gate, "world": world, "base": base, "assign": assign}


def _encode_cfg(norm: Dict[str, Any]) -> Dict[str, int]:
    """validated configuration -> {leaf path: int} (bool/int by value, other types by equality class, falsy = 0)"""
    out: Dict[str, int] = {}
    norm = copy.deepcopy(norm)
    # leaves whose reader-side default is not falsy: an absent leaf means that default (quality_trace / config snapshot)
    for p, dv in (("t2.quality.redact", True), ("t2.quality.trace_dir", "logs/quality")):
        if GW.get_path(norm, p) is None:
            GW.set_path(norm, p, dv)
    for p, v in GW.leaves(norm):
        if isinstance(v, bool):
            out[p] = int(v)
        elif isinstance(v, int):
            out[p] = v
        elif not v:
            out[p] = 0
        else:
            out[p] = 1 + (int.from_bytes(json.dumps(v, sort_keys=True, default=repr).encode()[:6].ljust(6, b"\0"), "big")
                          + len(json.dumps(v, sort_keys=True, default=repr))) % (10 ** 9)
    return out


def _ext_values(case: Dict[str, Any], norm: Dict[str, Any]) -> Dict[str, bool]:
    return {
        "getattr(ctx, '_dry_run_until_t4', False)": False,
        "t4_cfg_full.get('enabled', True)": bool(GW.get_path(norm, "t4.enabled", True)),
        "_t3_is_enabled(cfg)": True,
        "var:_run_reflection_if_enabled.plan_reflect": bool((case["world"].get("state_extra") or {}).get("_planner_reflection_flag")),
        "import:_refl_writer": True, "hasattr(_refl_writer, 'write_reflection_entries')": True,
        "import:_emit_quality_trace": True, "import:_quality_cfg_snapshot": True, "import:quality_fuse": True,
        "import:quality_mmr": True, "import:quality_mmr_fallback": True, "isinstance(partitions_cfg, dict)": True,
    }


def observed_artefacts(obs: Dict[str, Any]) -> List[str]:
    out = set()
    for t in obs["turns"]:
        names = {os.path.basename(p) for p in t["listing"]}
        for s in ("gel.jsonl", "t3_reflection.jsonl", "scheduler.jsonl", "rq_traces.jsonl"):
            if s in names:
                out.add(s)
        for rec in t["files"].get("t1", []):
            if any(k in rec for k in GW.PERF_T1_KEYS[:5]):
                out.add("t1.perf_keys")
            if "parallel_workers" in rec or "task_count" in rec:
                out.add("t1.parallel_keys")
        for rec in t["files"].get("t2", []):
            if any(k.startswith("t2.") for k in rec):
                out.add("t2.perf_keys")
            if any(k.startswith("t2q.") for k in rec):
                out.add("t2q.keys")
            if "hybrid" in rec:
                out.add("t2.hybrid_info")
        for rec in t["files"].get("turn", []):
            if "slice_idx" in rec or "yielded" in rec:
                out.add("turn.slice_keys")
    return sorted(out)


def work_tags(case: Dict[str, Any], absent_obs: Dict[str, Any]) -> List[str]:
    """Would the gated code have had something to do in this world?"""
    g = case["gate"]
    w = case["world"]
    tags = []
    t2 = [r for t in absent_obs["turns"] for r in t["files"].get("t2", [])]
    t1 = [r for t in absent_obs["turns"] for r in t["files"].get("t1", [])]
    k_ret = max([int(r.get("k_returned", 0) or 0) for r in t2] or [0])
    pops = max([int(r.get("pops", 0) or 0) for r in t1] or [0])
    if g in ("graph", "t2.hybrid") and w["gel"]["edges"] and k_ret >= 2:
        tags.append("work:gel-edges+hits")
    if g == "t2.quality" and k_ret >= 2:
        tags.append("work:hits>=2")
    if g == "t3.reflection" and (w.get("state_extra") or {}).get("_planner_reflection_flag"):
        tags.append("work:planner-asked-reflection")
    if g == "scheduler" and (pops > 0 or k_ret > 0):
        tags.append("work:budgets-would-bind")
    if g in ("perf", "perf.parallel") and (pops > 0 or k_ret >= 2):
        tags.append("work:t1-pops/t2-shards")
    for f, p in (("hybrid", "t2.hybrid.enabled"), ("quality", "t2.quality.enabled"), ("gel", "graph.enabled"),
                 ("reflection", "t3.allow_reflection"), ("scheduler", "scheduler.enabled"), ("perf", "perf.enabled")):
        if GW.get_path(case["base"], p) and p != GW.GATES[g]["flag"]:
            tags.append("base:" + f)
    if any(t["raised"] for t in absent_obs["turns"]):
        tags.append("base-raised")
    return tags or ["default"]


def classify(gate: str, minimal: Dict[str, Any]) -> str:
    ps = sorted(minimal)
    if not ps:
        return f"C02:inert:{gate}:flag-only"
    if len(ps) == 1:
        return f"C02:inert:{gate}:{ps[0]}"
    parts = [p.split(".") for p in ps]
    pre = []
    for xs in zip(*parts):
        if len(set(xs)) == 1:
            pre.append(xs[0])
        else:
            break
    return f"C02:inert:{gate}:{'.'.join(pre)}"


def batch_assignments(gate: str, agents_master: bool) -> List[Tuple[Dict[str, Any], Dict[str, Any]]]:
    """(assignment, base) pairs for the batch-driver stream."""
    out: List[Tuple[Dict[str, Any], Dict[str, Any]]] = []
    par_open = {"perf.parallel.agents": True, "perf.parallel.max_workers": 2}
    par_all = {"perf.parallel.agents": True, "perf.parallel.max_workers": 8, "perf.parallel.t1": True, "perf.parallel.t2": True}
    if gate == "perf.parallel":
        bases = [{"perf": {"enabled": True}}, {"perf": {"enabled": True, "metrics": {"report_memory": True}}}, {}]
        for base in bases:
            out += [(par_open, base), (par_all, base), ({"perf.parallel.agents": True}, base),
                    ({"perf.parallel.max_workers": 2}, base)]
    else:
        base = GW.sweep_base("perf", False)
        for leaf in ("perf.t1.cache.max_entries", "perf.t2.cache.max_entries", "perf.t1.caps.frontier",
                     "perf.t1.dedupe_window", "perf.metrics.report_memory", "perf.snapshots.every_n_turns"):
            out.append(({leaf: GW.POOLS["perf"][leaf][1 if leaf.endswith("max_entries") else 0]}, base))
        if agents_master:
            # only meaningful on a tree where the batch gate consults the master switch (Lean: agentsMaster holds);
            # otherwise this is the open finding reported as a NOTE below
            on = dict(par_open, **{"perf.parallel.enabled": True})
            out += [(on, base), (on, {})]
    return out


class Runner:
    def __init__(self, ctx: Ctx):
        self.ctx = ctx
        self.n = 0
        self.skipped_nondet = 0
        self._memo: Dict[str, Any] = {}

    def run_memo(self, world, cfg):
        """Baseline runs of the sweep share (world, configuration): run once."""
        import hashlib
        k = hashlib.sha1(json.dumps([world, cfg], sort_keys=True, default=repr).encode()).hexdigest()
        if k not in self._memo:
            if len(self._memo) > 8:
                self._memo.clear()
            self._memo[k] = self.run(world, cfg)
        return self._memo[k]

    def run(self, world, cfg, tracer=None):
        self.n += 1
        d = self.ctx.scratch / f"w{self.n}"
        try:
            return GW.run_variant(d, world, cfg, tracer=tracer)
        finally:
            shutil.rmtree(d, ignore_errors=True)


def shrink_assignment(R: Runner, case: Dict[str, Any], absent_cfg, absent_obs) -> Dict[str, Any]:
    """Greedy removal of leaves while the two runs still differ."""
    cur = dict(case["assign"])
    for p in sorted(case["assign"]):
        trial = {k: v for k, v in cur.items() if k != p}
        adv = GW.apply_assignment(absent_cfg, case["gate"], trial)
        if GW.validate(adv)[1] is not None:
            continue
        if R.run(case["world"], adv) != absent_obs:
            cur = trial
    return cur


# ---------------------------------------------------------------------------------------------
# read-set tracing (leads for the search; never a verdict by itself)
# ---------------------------------------------------------------------------------------------
class TracingDict(dict):
    def _init(self, path, log):
        object.__setattr__(self, "_tp", path)
        object.__setattr__(self, "_tl", log)
        return self

    def _rec(self, k):
        try:
            v = dict.get(self, k, None)
            if not isinstance(v, dict):
                self._tl.add((self._tp + "." + str(k)) if self._tp else str(k))
        except Exception:
            pass

    def get(self, k, d=None):
        self._rec(k)
        return dict.get(self, k, d)

    def __getitem__(self, k):
        self._rec(k)
        return dict.__getitem__(self, k)

    def __getattr__(self, k):
        if k.startswith("_t"):
            raise AttributeError(k)
        try:
            return self[k]
        except KeyError as e:
            raise AttributeError(k) from e

    def items(self):
        self._tl.add("iter:" + self._tp)
        return dict.items(self)

    def values(self):
        self._tl.add("iter:" + self._tp)
        return dict.values(self)


def _to_tracing(obj, path, log):
    if isinstance(obj, dict):
        t = TracingDict({k: _to_tracing(v, (path + "." + str(k)) if path else str(k), log) for k, v in obj.items()})
        return t._init(path, log)
    if isinstance(obj, list):
        return [_to_tracing(v, path, log) for v in obj]
    return obj


class Tracer:
    def __init__(self):
        self.log: set = set()
        self._undo = None

    def install(self, w):
        import clematis.engine.orchestrator.core as core
        w.cfg = _to_tracing(w.cfg_plain, "", self.log)
        real = core._to_plain

        def to_plain(obj):
            if isinstance(obj, TracingDict):
                return obj
            return real(obj)
        core._to_plain = to_plain
        self._undo = lambda: setattr(core, "_to_plain", real)

    def uninstall(self):
        if self._undo:
            self._undo()
            self._undo = None


# ---------------------------------------------------------------------------------------------
# one case
# ---------------------------------------------------------------------------------------------
def eval_case(ctx: Ctx, R: Runner, case: Dict[str, Any], lean_reqs: List[Tuple[dict, dict, str]],
              trace: bool = False, leads: Optional[Dict[str, set]] = None) -> Dict[str, Any]:
    gate = case["gate"]
    absent_cfg, adv_cfg = derive(gate, case["base"], case["assign"])
    na, ea = GW.validate(absent_cfg)
    nb, eb = GW.validate(adv_cfg)
    if ea or eb:
        ctx.record_case(COMP, case, ["generator-invalid:" + gate], validated=False)
        ctx.extra.setdefault("generator_invalid", []).append((ea or eb)[:160])
        return {"skipped": True}
    # validator must not materialise blocks the user did not supply
    mons: List[Tuple[str, bool, str]] = []
    if GW.get_path(absent_cfg, "perf") is None:
        mons.append(("validator_no_perf", "perf" not in na, f"normalize created perf={na.get('perf')!r}"))
    if GW.get_path(absent_cfg, "t2.quality") is None:
        mons.append(("validator_no_quality", "quality" not in (na.get("t2") or {}),
                     f"normalize created t2.quality={(na.get('t2') or {}).get('quality')!r}"))
    # the validator itself must not carry a value of the gated-off subtree to anywhere outside it
    pref, flag = GW.GATES[gate]["sub"] + ".", GW.GATES[gate]["flag"]
    la = {p: v for p, v in GW.leaves(na) if not (p + ".").startswith(pref)}
    lb = {p: v for p, v in GW.leaves(nb) if not (p + ".").startswith(pref)}
    def _same(p):
        if p in la and p in lb:
            return la[p] == lb[p]
        v = la.get(p, lb.get(p))          # materialised on one side only: fine when it is the reader-side default
        return (not v) or READER_DEFAULTS.get(p, object()) == v
    bad = sorted(p for p in set(la) | set(lb) if not _same(p))
    if bad:
        ctx.monitor_fail(COMP, "validator_leak", case,
                         f"gate {gate} off: normalize() lets the gated subtree change {bad[:4]} outside it "
                         f"({la.get(bad[0], '<absent>')!r} -> {lb.get(bad[0], '<absent>')!r})", None,
                         key=f"C02:validator_leak:{gate}:{bad[0]}")
    a = R.run_memo(case["world"], absent_cfg) if case.get("sweep") else R.run(case["world"], absent_cfg)
    b = R.run(case["world"], adv_cfg)
    tags = [f"gate:{gate}"] + work_tags(case, a) + (["sweep"] if case.get("sweep") else [])
    res: Dict[str, Any] = {"skipped": False, "diff": None}
    if a != b:
        a2 = R.run(case["world"], absent_cfg)
        if a2 != a:
            ctx.note(f"non-deterministic baseline skipped ({first_diff(a, a2)[:160]})")
            ctx.record_case(COMP, case, ["nondeterministic-baseline"], validated=False)
            R.skipped_nondet += 1
            return {"skipped": True}
        minimal = shrink_assignment(R, case, absent_cfg, a)
        adv_min = GW.apply_assignment(absent_cfg, gate, minimal)
        bm = R.run(case["world"], adv_min)
        d = first_diff(a, bm) if a != bm else first_diff(a, b)
        key = classify(gate, minimal)
        small = dict(case, assign=minimal)
        ctx.monitor_fail(COMP, "inert", small, f"gate {gate} off, subtree {json.dumps(minimal)[:300]} changes the run: "
                         f"{d[:400]} (absent=impl, adversarial=model in the diff)", None, key=key)
        res["diff"] = key
        tags.append("DIFF")
    arts = GW.artefacts_present(gate, b)
    mons.append((f"no_artifact:{gate}", not arts, f"artefacts of closed gate {gate} present: {arts[:6]}"))
    for name, ok, detail in mons:
        if not ok:
            ctx.monitor_fail(COMP, name, case, detail, None, key=f"C02:{name}")
    ctx.record_case(COMP, case, tags)
    # Lean side: theorem hypotheses on this very pair, predicate-level conclusion, artefact prediction, monitor
    enc_a, enc_b = _encode_cfg(na), _encode_cfg(nb)
    ext = _ext_values(case, nb)
    pair_gate = gate
    if gate == "perf" and any(p.startswith("perf.parallel.") for p in case["assign"]):
        pair_gate = "perf.full"
    if gate == "scheduler" and any(p.endswith("_reflection") for p in case["assign"]):
        pair_gate = "scheduler.full"
    lean_reqs.append(({"c": "gates.pair", "gate": pair_gate, "a": enc_a, "b": enc_b, "ext": ext}, case, "pair"))
    raised = any(t["raised"] for t in b["turns"])
    obs_b = observed_artefacts(b)
    lean_reqs.append(({"c": "gates.predict", "cfg": enc_b, "ext": ext}, dict(case, _obs=obs_b, _raised=raised), "predict"))
    own = [x for x in obs_b]
    lean_reqs.append(({"c": "gates.noartifact", "gate": ("perf.full" if gate == "perf" else
                                                        "scheduler.full" if gate == "scheduler" else gate),
                       "present": own}, case, "noartifact"))
    if trace and leads is not None:
        tr = Tracer()
        bt = R.run(case["world"], adv_cfg, tracer=tr)
        if bt != b:
            ctx.extra["tracing_perturbs"] = ctx.extra.get("tracing_perturbs", 0) + 1
        sub = GW.GATES[gate]["sub"] + "."
        flag = GW.GATES[gate]["flag"]
        for p in tr.log:
            q = p[5:] if p.startswith("iter:") else p
            if (q + ".").startswith(sub) and q != flag:
                leads.setdefault(gate, set()).add(p)
    res["absent_cfg"], res["absent_obs"] = absent_cfg, a
    return res


def lean_round(ctx: Ctx, lean_reqs: List[Tuple[dict, dict, str]]) -> None:
    if not lean_reqs:
        return
    resps = run_driver([r for r, _, _ in lean_reqs])
    for (rq, case, kind), rs in zip(lean_reqs, resps):
        small = {k: v for k, v in case.items() if not k.startswith("_")}
        if "err" in rs:
            ctx.mismatch(COMP, small, f"model error on {kind}: {rs['err'][:200]}")
            continue
        ok = rs["ok"]
        if kind == "pair":
            if not ok["hyp"]:
                ctx.mismatch(COMP, small, "generated pair does not satisfy the theorem hypotheses (flag off in both, agree outside sub)")
            elif ok["table_ok"] and not (ok["guards_equal"] and ok["reads_equal"]):
                ctx.mismatch(COMP, small, "model: tabled predicates/read values differ between the two configurations")
        elif kind == "noartifact":
            if ok is not True:
                ctx.monitor_fail(COMP, "lean.noArtifactB", small, f"Lean monitor noArtifactB false on observed artefacts {rq['present']}",
                                 None, key=f"C02:no_artifact:{rq['gate']}")
        elif kind == "predict":
            if case.get("_raised"):
                continue
            obs = set(case["_obs"])
            for art, v in ok["arts"].items():
                if v == 0 and art in obs:
                    ctx.mismatch(COMP, small, f"artefact {art} observed but no tabled site emitting it can run under this configuration")
                # "certainly runs" is per function: a scheduler yield in run_turn can skip a whole stage
                if v == 2 and art in MUST_ARTEFACTS and art not in obs and not rq["cfg"].get("scheduler.enabled"):
                    ctx.mismatch(COMP, small, f"artefact {art} predicted (a site emitting it certainly runs) but not observed")


# ---------------------------------------------------------------------------------------------
# entry points
# ---------------------------------------------------------------------------------------------
def run(ctx: Ctx) -> None:
    R = Runner(ctx)
    st = run_driver([{"c": "gates.status"}])[0].get("ok", {})
    ctx.extra["gate_table_status"] = {k: st.get(k) for k in ("tableOK", "consistent", "parallel_master", "agents_master",
                                                             "sites", "leaves")}
    agents_master = bool(st.get("agents_master"))
    per_gate = int(BUDGET.get(ctx.tier, BUDGET["quick"]) * ctx.budget_scale)
    leads: Dict[str, set] = {}
    lean_reqs: List[Tuple[dict, dict, str]] = []
    # corpus first
    for case in ctx.load_corpus(COMP):
        eval_case(ctx, R, case, lean_reqs)
    for gate in GW.GATE_ORDER:
        rng = ctx.rng_for(f"{COMP}:{gate}")
        for i in range(per_gate):
            case = gen_case(rng, gate, i)
            eval_case(ctx, R, case, lean_reqs, trace=(i % 6 == 0), leads=leads)
        # exhaustive per-leaf sweep: closed gate x EVERY leaf of the owned subtree x every pool value (small ones
        # included) on multi-turn histories that revisit earlier queries, every interacting feature on in the base.
        # The number of cases is a function of (seed, tier) only.
        srng = ctx.rng_for(f"{COMP}:sweep:{gate}")
        for wi in range(SWEEP_WORLDS.get(ctx.tier, 1)):
            world = GW.gen_revisit_world(srng)
            for t4_on in ((False,) if ctx.tier == "quick" else (False, True)):
                base = GW.sweep_base(gate, t4_on)
                for leaf in sorted(GW.POOLS[gate]):
                    for v in GW.POOLS[gate][leaf]:
                        c2 = {"gate": gate, "world": world, "base": base, "assign": {leaf: v}, "sweep": True}
                        eval_case(ctx, R, c2, lean_reqs)
        # agent batch driver (the entry point behind perf.parallel.agents): the same closed-gate differential with the
        # turns after the first driven through the REAL `_run_agents_parallel_batch` for two agents sharing a graph
        if gate in ("perf", "perf.parallel"):
            for wi in range(SWEEP_WORLDS.get(ctx.tier, 1)):
                world = dict(GW.gen_revisit_world(srng), batch=True)
                for assign, base in batch_assignments(gate, agents_master):
                    c2 = {"gate": gate, "world": world, "base": base, "assign": assign, "sweep": True}
                    eval_case(ctx, R, c2, lean_reqs)
        if len(lean_reqs) > 3000:
            lean_round(ctx, lean_reqs)
            lean_reqs = []
    lean_round(ctx, lean_reqs)
    ctx.extra["readset_leads"] = {g: sorted(v) for g, v in sorted(leads.items())}
    ctx.extra["engine_runs"] = R.n
    if not agents_master:
        ctx.note("agent batch driver: _agents_parallel_enabled does not consult perf.enabled (Lean: C02_agents_ignore_master_witness, "
                 "right disjunct) — with perf.enabled=false and perf.parallel={enabled,agents,max_workers>=2} the batch takes the "
                 "compute-then-commit path; see proposed_findings/C02.json and proposed_fixes/C02_agents_master_switch.diff")
    ctx.extra["skipped_nondeterministic_baseline"] = R.skipped_nondet
    if R.skipped_nondet > max(3, ctx.evaluations // 20):
        # coverage collapsed (e.g. the rig or the engine put something run-specific into the observation):
        # that is an infrastructure problem, never a quiet pass
        from harness.core import Infra
        raise Infra(f"{R.skipped_nondet} of {ctx.evaluations} cases skipped: identical configuration and world gave different "
                    f"observations on two runs; the differential has lost its baseline")


def _decanon(x: Any) -> Any:
    """Inverse of core._canon for floats ({"f": "<ieee bits>"} -> float)."""
    from harness.core import b2f
    if isinstance(x, dict):
        if set(x.keys()) == {"f"} and isinstance(x["f"], str) and x["f"].isdigit():
            return b2f(x["f"])
        return {k: _decanon(v) for k, v in x.items()}
    if isinstance(x, list):
        return [_decanon(v) for v in x]
    return x


def replay(ctx: Ctx, rec: dict) -> int:
    rc = 0
    recs = [rec] if "case" in rec else rec.get("broken_correspondence", [])
    R = Runner(ctx)
    for r in recs:
        case = _decanon(r["case"])
        gate = case["gate"]
        absent_cfg, adv_cfg = derive(gate, case["base"], case["assign"])
        ea, eb = GW.validate(absent_cfg)[1], GW.validate(adv_cfg)[1]
        if ea or eb:
            print(f"REPLAY configuration rejected by the validator: {ea or eb}")
            continue
        a = R.run(case["world"], absent_cfg)
        b = R.run(case["world"], adv_cfg)
        if a != b:
            print(f"REPLAY gate={gate} off: subtree {json.dumps(case['assign'])[:300]} CHANGES the run: {first_diff(a, b)[:500]}")
            rc = 1
        else:
            print(f"REPLAY gate={gate} off: runs identical")
        arts = GW.artefacts_present(gate, b)
        if arts:
            print(f"REPLAY artefacts of the closed gate present: {arts}")
            rc = 1
        lean_reqs: List[Tuple[dict, dict, str]] = []
        sub = Ctx(ctx.prop, ctx.tier, ctx.seed)
        try:
            eval_case(sub, Runner(sub), case, lean_reqs)
            lean_round(sub, lean_reqs)
            for m in sub.mismatches:
                print(f"REPLAY model correspondence DIFFERS: {m['diff'][:300]}")
                rc = 1
            for f in sub.failures:
                print(f"REPLAY monitor {f['monitor']} FAILS [{f['key']}]: {f['detail'][:300]}")
                rc = 1
            for k in sub.known_seen:
                print(f"REPLAY known finding reproduced: {k}")
        finally:
            sub.cleanup()
    if rec.get("broken_proof_obligations"):
        print("REPLAY broken proof obligations recorded:")
        for bpo in rec["broken_proof_obligations"]:
            print("  " + bpo[:600])
        rc = 1
    return rc
