"""C19 — Reflection is gated, budgeted and cannot disturb the turn: correspondence + monitors.

Two components:
  refl.text  unit level: `_normalize`, `_truncate_tokens`, `_reflect_rulebased`, the fixture adapter's clipping,
             against the Lean text model (exact on ASCII; unicode stream at spec level: token bound only).
  refl.turn  turn level: histories of REAL `run_turn` calls (harness/lib/turnrig.py, scripted stages) over all gate
             combinations, both backends (fixtures generated into scratch), caps/limits incl. 0/null, a scripted
             clock (never real time), fault injection at compute / write / log, reused vs fresh ctx — against
             `Clem.Refl.runHist`; the Lean monitors (gate, cap, fail-soft, summary length) are evaluated on what
             the implementation did; Python-side monitors: id/ts purity, determinism under a perturbed clock,
             isolation (same history with reflection off: every other stream, the result and the state identical).
"""
from __future__ import annotations

import copy
import hashlib
import importlib
import json
import random
import shutil
import tempfile
import time as _time
from datetime import datetime, timezone
from pathlib import Path
from typing import Any, Dict, List, Optional, Tuple

from harness.core import Component, Ctx, run_component, Infra, _canon, first_diff, b2f

RULE = ("refl.text: ASCII strings over a whitespace/punctuation/case-heavy alphabet (exact) + a unicode stream (spec level); "
        "refl.turn: histories of 1-4 real run_turn calls with per-turn gate flags, backend, limits/caps (0, null, negative), "
        "scripted reflect duration around the wall budget, fault scripts, reused/fresh ctx, logical-clock boundary values (now_ms 0/1/None/large, now_iso absent/string/non-string) with every such history run twice under two different faked wall clocks, llm histories over ONE fixture path whose file is removed/truncated/rewritten between turns; a case is non-trivial when it "
        "hits at least one non-default branch tag (gate closed by each flag, error kinds, timeout, caps, stale-ctx turn, ...); "
        "distinct by canonical JSON")
ASSUMPTIONS = [
    "strings are ASCII for the exact comparison (Python's unicode \\s, \\w, lower(), split() are modelled on ASCII); unicode inputs are compared at spec level only (counts, caps, gate, token bound measured by Python's own split())",
    "sha256 is an oracle: the model returns the id components (turn, agent, slot, text) and the harness applies hashlib; the fixture adapter's lookup (file, prompt hash) is an oracle, its token clipping is modelled",
    "the duration of reflect() is a clock oracle (time.perf_counter is scripted; elapsed > budget is compared in integer microseconds)",
    "scheduler slices (early yield returns) are off in the generated turns: a yielded turn returns before the tail and is not modelled here",
    "the embedding vector's values are not compared (presence only)",
    "LLM-planner histories drive the planner through select_policy -> run_policy on the turn's real config (t3_pipeline's bundle carries a config snapshot without t3.backend, so it never selects the llm policy) with a state that accepts setattr (dict with attribute access); every unusable planner output (no fixture line, invalid JSON, schema violation, fixture file gone) is the model's `fallback`",
    "T2 is a scripted stage (own hits + scores, not score-descending in general); the T2 record is observed as the result objects themselves (the turn-level cache holds them by reference), deep-compared with their state when T2 returned them and with the reflection-off run",
    "the ctx's logical clock is modelled for now_ms in {int, None} and ctx.now_iso absent / caller string / caller non-string (run_turn's head derives now_iso once from an int now_ms; the writer prefers a string now_iso, else its epoch fallback of now_ms; now_ms=None makes int() raise inside the writer and the tail swallows it: nothing written); float / negative now_ms are not generated",
    "ctx accepts setattr (SimpleNamespace / TurnCtx), state is a dict",
    "every turn of a history gets a distinct input text, so the orchestrator's turn-level T2 cache keyed on (version, text) — C05's subject — does not replay an earlier turn's retrieval into the snippets",
]
CLAIM = {
    "text": ("Unbounded Lean theorems about the executable model of reflect.py / reflection.py / the reflection tail of run_turn: "
             "gate closed => reflect not called, nothing written, no telemetry record, for every ctx state and along every history (C19_gate, "
             "C19_gate_history); written <= max 0 ops_reflection and <= produced (C19_ops_cap*, _real: <= 1); summary tokens <= max 0 "
             "summary_tokens for both backends (C19_summary_len*); id/ts depend only on (agent, turn, slot, text) and the logical clock "
             "(C19_id_pure, C19_id_function, C19_clock_indep); error / missing fixture / timeout / writer fault / missing index => nothing "
             "written (C19_failsoft, C19_failsoft_log); the tail only appends to its own stream (C19_isolation*). Tied to the code by exact "
             "differential execution of the same definitions against the real run_turn and by the Lean monitors evaluated on the implementation."),
    "note": ("The code as found violates the gate clause on a reused ctx (stale ctx._reflection_result re-written and re-logged by a later "
             "gated-off turn): refuted for the legacy tail by C19_gate_fails_legacy, proved under 'no stale stash' as C19_gate_legacy_partial; the "
             "model and the full-strength theorems follow the repaired tail (proposed_fixes/C19_clear_stale_reflection_stash.diff). "
             "Isolation is structural in the model; on the code it is decided by the on-vs-off differential of the real run_turn. "
             "Unicode normalisation, the embedding values, the sha256 digest and the fixture lookup are covered by correspondence / oracles only. "
             "Observation (not a finding): the telemetry field ops_written reports len(memory_entries), not what the writer stored "
             "(the write report is a dataclass, the tail tests isinstance(dict)); modelled as written."),
    "technique": "Lean 4 proofs over an executable model (structural induction on strings / histories) + exact correspondence with the real run_turn",
    "design_ref": "DESIGN.md §4 C19, §5 #17",
}
DRIVER_MODULES = ['HRefl']
TABLES = ['refltail']
MODELLED = {
    "clematis/engine/stages/t3/reflect.py": ["_normalize", "_truncate_tokens", "reflect", "_reflect_rulebased", "_reflect_llm"],
    "clematis/engine/orchestrator/reflection.py": ["write_reflection_entries", "_episode_id", "_now_iso_from_ctx", "_normalize_entry",
                                                    "_choose_index"],
    "clematis/engine/orchestrator/core.py": ["_run_reflection_if_enabled", "_safe_extract_snippets", "Orchestrator.run_turn"],
    "clematis/engine/orchestrator/logging.py": ["log_t3_reflection"],
    "clematis/adapters/llm.py": ["FixtureLLMAdapter"],
}
TRUSTED = ["modelled, not verified: hashlib.sha256, json.dumps, datetime.isoformat, the deterministic embedding adapter, "
           "Python's unicode whitespace/word classes beyond ASCII; harness/lib/turnrig.py (monkeypatching rig)"]

WS = [" ", " ", " ", "  ", "\t", "\n", "\r\n", "\x0b", "\x0c", "\x1c", "\x1f"]
WORDS = ["hello", "World", "FOO", "bar_baz", "x", "A1", "42", "it's", "e.g.", "a-b", "(ok)", "Z", "__", "q?", "#tag", "tEsT"]
PUNCT = [",", ".", "!", "?", ";", ":", "--", "...", "'", "\"", "(", ")", "/", "\\", "@", "$", "~", "`", "|", "{}", "<>"]
UNI = ["é", "Straße", "İstanbul", "naïve", "日本語", "…", "—", " ", " ", "　", "ǅ", "é", "😀", "١٢٣", "«q»", "\u0085", "ﬁ"]


def gen_text(rng: random.Random, unicode: bool = False, maxw: int = 9) -> str:
    r = rng.random()
    if r < 0.06:
        return ""
    if r < 0.10:
        return rng.choice(WS) * rng.randint(1, 3)
    out = []
    if rng.random() < 0.3:
        out.append(rng.choice(WS))
    for _ in range(rng.randint(1, maxw)):
        x = rng.random()
        if unicode and x < 0.4:
            out.append(rng.choice(UNI))
        elif x < 0.75:
            out.append(rng.choice(WORDS))
        else:
            out.append(rng.choice(PUNCT))
        if rng.random() < 0.85:
            out.append(rng.choice(WS))
    return "".join(out)


def dec(x: Any) -> str:
    """driver strings come back as code-point arrays"""
    return "".join(chr(c) for c in x) if isinstance(x, list) else x


def _defloat(x: Any) -> Any:
    """replay files store floats as {"f": "<ieee bits>"} (core._canon): turn them back into floats"""
    if isinstance(x, dict):
        if set(x.keys()) == {"f"} and isinstance(x["f"], str) and x["f"].isdigit():
            return b2f(x["f"])
        return {k: _defloat(v) for k, v in x.items()}
    if isinstance(x, list):
        return [_defloat(v) for v in x]
    return x


def _is_ascii(s: str) -> bool:
    return all(ord(c) < 128 for c in s)


# ---------------------------------------------------------------------------------------------------------
# refl.text
# ---------------------------------------------------------------------------------------------------------
class TextComp(Component):
    name = "refl.text"
    budget = {"quick": 1500, "thorough": 40000, "search": 8000}

    def gen(self, rng: random.Random, i: int) -> dict:
        uni = rng.random() < 0.2
        op = rng.choice(["normalize", "normalize", "truncate", "rule", "rule", "rule", "clip", "strip", "tokens"])
        n = rng.choice([-1, 0, 0, 1, 1, 2, 3, 5, 8, 128])
        if op == "normalize":
            return {"op": op, "keep": rng.random() < 0.4, "s": gen_text(rng, uni), "uni": uni}
        if op == "rule":
            k = rng.choice([0, 1, 2, 3, 5])
            return {"op": op, "utter": gen_text(rng, uni), "snips": [gen_text(rng, uni, 5) for _ in range(rng.randint(0, 4))],
                    "k": k, "n": n, "uni": uni}
        if op in ("truncate", "clip"):
            return {"op": op, "s": gen_text(rng, uni), "n": n, "uni": uni}
        return {"op": op, "s": gen_text(rng, uni), "uni": uni}

    def impl(self, case: dict) -> Any:
        R = importlib.import_module("clematis.engine.stages.t3.reflect")
        op = case["op"]
        if op == "normalize":
            return R._normalize(case["s"], keep_punct=case["keep"])
        if op == "truncate":
            return R._truncate_tokens(case["s"], case["n"])
        if op == "tokens":
            return len(case["s"].split()) if case["s"] else 0
        if op == "strip":
            return str(case["s"]).strip()
        if op == "clip":
            L = importlib.import_module("clematis.adapters.llm")
            ad = L.FixtureLLMAdapter.__new__(L.FixtureLLMAdapter)
            ad._map = {L._prompt_hash("p"): case["s"]}
            return ad.generate("p", max_tokens=case["n"], temperature=0.0).text
        if op == "rule":
            from types import SimpleNamespace as NS
            b = R.ReflectionBundle(ctx=NS(agent_id="a", now_ms=0), state_view=None, plan=None, utter=case["utter"],
                                   snippets=list(case["snips"]))
            res = R._reflect_rulebased(b, {"topk_snippets": case["k"], "summary_tokens": case["n"], "embed": False}, 1, None)
            assert res.memory_entries[0]["text"] == res.summary
            return {"summary": res.summary, "len": res.metrics["summary_len"]}
        raise Infra(f"bad op {op}")

    def request(self, case: dict) -> dict:
        r = {"c": "refl.text"}
        r.update({k: v for k, v in case.items() if k != "uni"})
        return r

    def canon_model(self, case, out):
        if isinstance(out, dict) and "summary" in out:
            return dict(out, summary=dec(out["summary"]))
        return dec(out) if case["op"] != "tokens" else out

    def compare(self, case, impl_out, model_out):
        if case.get("uni") and not _is_ascii(json.dumps(case, ensure_ascii=False)):
            return None   # unicode stream: spec level only (monitors)
        return super().compare(case, impl_out, model_out)

    def monitors(self, case, impl_out):
        out = []
        if case["op"] == "rule":
            lim = max(0, case["n"])
            s = impl_out["summary"]
            out.append(("summary_len", len(s.split()) <= lim and impl_out["len"] == (len(s.split()) if s else 0),
                        f"summary {s!r} has {len(s.split())} tokens > limit {lim}"))
        if case["op"] == "clip":
            lim = max(0, case["n"])
            out.append(("clip_len", len(impl_out.split()) <= lim, f"clip {impl_out!r} > {lim}"))
        return out

    def monitor_requests(self, case, impl_out):
        if case["op"] == "rule" and _is_ascii(impl_out["summary"]):
            return [("summary_len", {"c": "refl.mon.textlen", "limit": case["n"], "s": impl_out["summary"]})]
        return []

    def tags(self, case, impl_out):
        t = {case["op"]}
        if case.get("uni"):
            t.add("unicode")
        if case.get("n") is not None and case.get("n", 1) <= 0:
            t.add("limit<=0")
        if case["op"] == "rule":
            if impl_out["len"] == max(0, case["n"]) and case["n"] > 0:
                t.add("at_limit")
            if not impl_out["summary"]:
                t.add("empty_summary")
        return sorted(t)


# ---------------------------------------------------------------------------------------------------------
# refl.turn
# ---------------------------------------------------------------------------------------------------------
EXCS = ["KeyError", "OSError", "ValueError", "RecursionError", "RigFault", "TypeError", "ZeroDivisionError", "MemoryError",
        "RuntimeError", "StopIteration", "AssertionError"]


def iso_from_ms(ms: int) -> str:
    return datetime.fromtimestamp(ms / 1000.0, tz=timezone.utc).isoformat()


def fallback_ts(ms: int) -> str:
    """the writer's own epoch fallback (reflection.py:_now_iso_from_ctx)"""
    return f"1970-01-01T00:00:{ms // 1000:02d}.{ms % 1000:03d}Z"


def render_ts(ts: dict) -> str:
    if ts["k"] == "iso":
        return iso_from_ms(ts["ms"])
    if ts["k"] == "lit":
        return dec(ts["s"])
    return fallback_ts(ts["ms"])


def iso_attr_value(iso: Any):
    """case-level `iso` -> the value the caller puts on ctx.now_iso (the sentinel _ABSENT: attribute not supplied)"""
    if iso is None:
        return _ABSENT
    if "lit" in iso:
        return iso["lit"]
    return iso["nonstr"]


_ABSENT = object()


def pure_id(agent: str, turn: str, slot: int, text: str) -> str:
    h = hashlib.sha256()
    h.update(agent.encode("utf-8")); h.update(b"|"); h.update(turn.encode("utf-8")); h.update(b"|")
    h.update(str(slot).encode("utf-8")); h.update(b"|"); h.update(text.encode("utf-8"))
    return f"refl-{turn}-{agent}-{slot}-{h.hexdigest()[:12]}"


def fixture_key(agent: str, plan_flag: bool, snips: List[str], limit: int, turn: int, utter: str) -> Tuple[str, str]:
    prompt_obj = {"agent": agent, "plan_reflection": bool(plan_flag), "snippets": list(snips), "summary_tokens": limit,
                  "task": "reflect_summary", "turn": int(turn), "utter": utter, "version": 1}
    pj = json.dumps(prompt_obj, sort_keys=True, separators=(",", ":"))
    return pj, hashlib.sha256(pj.encode("utf-8")).hexdigest()[:12]


class TurnComp(Component):
    name = "refl.turn"
    budget = {"quick": 400, "thorough": 6000, "search": 1500}
    scratch: Optional[Path] = None
    _cfg_cache: Dict[str, dict] = {}

    # ---- generation -------------------------------------------------------------------------------------
    def gen_turn(self, rng: random.Random, uni: bool, backend: str, i: int) -> dict:
        limit = rng.choice([0, 1, 2, 3, 3, 5, 8, 128, -1])
        wall = rng.choice([None, 1, 5, 5, 6000])
        if wall is None:
            el = rng.choice([0, 1, 10 ** 7])
        else:
            el = rng.choice([0, 0, 1, wall * 1000 - 1, wall * 1000, wall * 1000, wall * 1000 + 1, wall * 1000 + 1, wall * 5000])
        mode = "real"
        r = rng.random()
        o: Dict[str, Any] = {}
        if r < 0.10:
            mode = "raise"
            o["exc"] = rng.choice(EXCS)
        elif r < 0.24:
            mode = "stub"
            ents = [{"text": rng.choice(["", " ", "  s1  ", "two words", "x", "\tTabbed\n"]) if rng.random() < 0.5 else gen_text(rng, False, 4),
                     "vec": rng.random() < 0.3} for _ in range(rng.choice([0, 1, 2, 3, 3, 4]))]
            o["stub"] = {"summary": gen_text(rng, False, 5), "entries": ents}
        wp = None
        if rng.random() < 0.18:
            # write-path shape: a result with 2-4 entries, a cap around the entry count, and a per-add fault pattern drawn
            # uniformly from ALL subsets of entry positions (the k-th add() of the scripted index raises)
            mode = "stub"
            o.pop("exc", None)
            ne = rng.choice([2, 2, 3, 3, 4])
            pool = ["first note", "second  note", "x", " padded ", "same", "same", "third, one!", "Z z"]
            ents = [{"text": rng.choice(pool), "vec": rng.random() < 0.2} for _ in range(ne)]
            o["stub"] = {"summary": "multi entry result", "entries": ents}
            mask = rng.randrange(1 << ne)
            wp = {"ne": ne, "cap": rng.choice([ne - 1, ne, ne, ne + 1, 2, 5]), "addFail": [bool(mask >> k & 1) for k in range(ne)]}
        ar = rng.random()
        if ar < 0.70:
            raw = gen_text(rng, uni, 8) if rng.random() < 0.9 else rng.choice(["", "   ", "\n"])
            adapter: Any = {"text": raw}
        elif ar < 0.86:
            adapter = "missing"
        else:
            adapter = "initfail"
        o.update({"mode": mode, "adapter": adapter, "elapsedUs": el,
                  "runFault": rng.random() < 0.04, "indexMissing": rng.random() < 0.06, "writeFault": rng.random() < 0.05,
                  "addFail": [rng.random() < 0.5 for _ in range(rng.choice([0, 0, 0, 0, 0, 1, 2, 4]))],
                  "logFault": rng.random() < 0.07})
        o["logFaultKind"] = rng.choice(["site", "append"])
        o["runFaultExc"] = rng.choice(EXCS)
        t = {"turn_id": i + 1 if rng.random() < 0.9 else rng.choice([7, 10, 123]),
             "nowMs": rng.choice([0, 0, 0, 1, 1000, 86400000, 1700000000000, 1234567, None]),
             "dry": rng.random() < 0.12, "t4on": rng.random() < 0.9,
             "plan": rng.random() < 0.6, "sflag": rng.random() < 0.15,
             "cfg": {"allow": rng.random() < 0.8, "backend": backend, "topk": rng.choice([0, 1, 2, 3, 3, 5]), "limit": limit,
                     "embed": rng.random() < 0.4, "opsCap": rng.choice([None, 0, 0, 1, 1, 1, 2, 2, 5, -1]), "wallMs": wall,
                     "fxEnabled": rng.random() < 0.93, "fxPathOk": rng.random() < 0.93},
             "utter": gen_text(rng, uni),
             "items": [gen_text(rng, uni, 5) if rng.random() < 0.8 else "" for _ in range(rng.choice([0, 1, 2, 3, 4, 6]))],
             "arts": [gen_text(rng, uni, 3) for _ in range(rng.choice([0, 0, 0, 2]))]}
        # T2 hit scores: NOT score-descending in general (recency/importance-weighted ranking, hybrid re-rank, MMR and
        # stage overrides all produce such lists), with ties, negative and huge values
        t["scores"] = [rng.choice([0.5, 0.5, 0.1, 0.9, 0.0, -1.0, 0.25, 1e9, 0.75]) for _ in t["items"]]
        if wp is not None:
            t.update({"dry": False, "plan": True})
            t["cfg"].update({"allow": True, "opsCap": wp["cap"], "wallMs": None})
            o.update({"addFail": wp["addFail"], "runFault": False, "indexMissing": False, "writeFault": False})
            t["writepath"] = True
        elif rng.random() < 0.07:
            # malformed stream: values the validator would refuse or coerce (they reach the code through the raw-merge
            # fallback of the rig), non-string snippet sources
            kind = rng.choice(["topk", "limit", "limit_numstr", "ops_str", "ops_numstr", "ops_float", "wall_str", "wall_numstr",
                               "allow_str", "items_nonstr", "arts_nonstr"])
            t["malformed"] = kind
            c = t["cfg"]
            if kind == "topk":
                c["topk"] = rng.choice(["abc", "", [1]])
            elif kind == "limit":
                c["limit"] = rng.choice(["x", "", "1.5"])
            elif kind == "limit_numstr":
                c["limit"] = rng.choice(["3", " 2 ", "0"])
            elif kind == "ops_str":
                c["opsCap"] = rng.choice(["many", "", [2]])
            elif kind == "ops_numstr":
                c["opsCap"] = rng.choice(["2", "0", " 1"])
            elif kind == "ops_float":
                c["opsCap"] = rng.choice([1.9, 0.5, 2.0])
            elif kind == "wall_str":
                c["wallMs"] = rng.choice(["soon", ""])
            elif kind == "wall_numstr":
                c["wallMs"] = rng.choice(["5", 5.9])
            elif kind == "allow_str":
                c["allow"] = rng.choice(["false", "", 0, 1, "yes"])
            elif kind == "items_nonstr":
                t["items"] = [rng.choice([5, 0, True]) if rng.random() < 0.5 else s for s in (t["items"] or ["x"])]
            elif kind == "arts_nonstr":
                t["items"] = []
                t["arts"] = [rng.choice([None, 3, "kept one", "kept  two"]) for _ in range(3)]
        return {"t": t, "o": o}

    def gen(self, rng: random.Random, i: int) -> dict:
        uni = rng.random() < 0.15
        backend = rng.choice(["rulebased"] * 11 + ["llm"] * 7 + ["LLM", "bogus"])
        n = rng.choice([1, 1, 2, 2, 3, 4])
        turns = [self.gen_turn(rng, uni, backend, j) for j in range(n)]
        reuse = rng.random() < 0.6
        if reuse and n >= 2 and rng.random() < 0.5:
            # the stale-ctx shape: an open, successful turn followed by gated-off turns
            turns[0]["t"].update({"dry": False, "plan": True})
            turns[0]["t"]["cfg"].update({"allow": True, "opsCap": rng.choice([1, 2, 5])})
            turns[0]["o"].update({"mode": "real", "runFault": False, "indexMissing": False, "writeFault": False, "addFail": []})
            for tt in turns[1:]:
                k = rng.choice(["plan", "allow", "dry", "dry_not4", "open"])
                if k == "plan":
                    tt["t"].update({"plan": False, "sflag": False})
                elif k == "allow":
                    tt["t"]["cfg"]["allow"] = False
                elif k == "dry":
                    tt["t"]["dry"] = True
                elif k == "dry_not4":
                    tt["t"].update({"dry": True, "t4on": False})
        # the ctx's logical clock: now_iso not supplied (run_turn derives it) / a caller string / a non-string
        ir = rng.random()
        iso: Any = None
        if ir < 0.10:
            iso = {"lit": rng.choice(["2024-05-06T07:08:09Z", "1970-01-01T00:00:12.345Z", "not-a-date", ""])}
        elif ir < 0.30:
            iso = {"nonstr": rng.choice([None, 0, 5, 12.5, False])}
        shared_fx = False
        if backend == "llm" and n >= 2 and rng.random() < 0.6:
            # one fixture path for the whole history whose file is removed / truncated / rewritten between turns
            shared_fx = True
            for j, rec in enumerate(turns):
                rec["t"].update({"dry": False, "plan": True})
                rec["t"]["cfg"].update({"allow": True, "fxEnabled": True, "fxPathOk": True, "opsCap": rng.choice([1, 2, 5]),
                                        "limit": rng.choice([1, 2, 3, 8, 128]), "wallMs": rng.choice([None, 6000])})
                rec["o"].update({"mode": "real", "runFault": False, "indexMissing": False, "writeFault": False, "addFail": [],
                                 "elapsedUs": 0})
                if rec["t"]["nowMs"] is None:
                    rec["t"]["nowMs"] = 1000
                if j == 0 or rng.random() < 0.3:
                    rec["o"]["adapter"] = {"text": rng.choice(["the agent agreed to ship", "Recap: two open items.", "ok"])}
                else:
                    rec["o"]["adapter"] = rng.choice(["initfail", "missing", "missing"])
        planner = False
        if not shared_fx and rng.random() < 0.14:
            # LLM-planner histories: one long-lived attribute-style state; before each turn the planner entry point
            # (select_policy -> run_policy) runs against a fixture file and is the ONLY writer of
            # state._planner_reflection_flag.  Planner outcomes per turn: valid answers (reflection true/false) and every
            # way the output can be unusable (no fixture line, invalid JSON, schema violation, fixture file gone) or the
            # planner not running at all.
            planner = True
            if len(turns) < 2:
                turns.append(self.gen_turn(rng, uni, backend, 1))
            kinds = ["answer_true", "answer_true", "answer_false", "missing", "invalid_json", "invalid_schema", "nofile", None]
            for j, rec in enumerate(turns):
                rec["t"]["planner"] = "answer_true" if (j == 0 and rng.random() < 0.7) else rng.choice(kinds)
                rec["t"]["sflag"] = False
                rec["t"]["plan"] = rng.random() < 0.15      # the Plan object carries no flag on the LLM path
                rec["t"]["cfg"].update({"backend": "rulebased", "fxEnabled": True, "fxPathOk": True})
                if rng.random() < 0.7:
                    rec["t"].update({"dry": False})
                    rec["t"]["cfg"].update({"allow": True, "opsCap": rng.choice([1, 2, 5])})
                    rec["o"].update({"mode": "real", "runFault": False, "indexMissing": False, "writeFault": False, "addFail": []})
        repeat_text = False
        if not planner and len(turns) >= 2 and rng.random() < 0.15:
            # the same input text on every turn with T4 off (stable version etag): later turns are served the T2 result
            # object the orchestrator cached on the first one
            repeat_text = True
            for rec in turns:
                rec["t"]["t4on"] = False
                rec["t"]["items"] = list(turns[0]["t"]["items"])
                rec["t"]["scores"] = list(turns[0]["t"]["scores"])
        boundary = iso is not None or any(r["t"]["nowMs"] in (0, None, 1) for r in turns)
        return {"agent": rng.choice(["a1", "Ambrose", "ag-2", "X"]), "reuse": reuse, "uni": uni, "turns": turns,
                "iso": iso, "shared_fx": shared_fx, "planner": planner, "repeat_text": repeat_text,
                "det": boundary or shared_fx or rng.random() < 0.3}

    # ---- driving the real code ----------------------------------------------------------------------------
    def _validated(self, over: dict) -> dict:
        from harness.lib import turnrig as TR
        key = json.dumps(over, sort_keys=True)
        if key not in self._cfg_cache:
            if len(self._cfg_cache) > 4000:
                self._cfg_cache.clear()
            self._cfg_cache[key] = TR._validated_cfg({"cfg": over}, Path("/nonexistent-snapdir"))
        return copy.deepcopy(self._cfg_cache[key])

    def _cfg_over(self, t: dict, fx_path: Optional[str], allow_override: Optional[bool]) -> dict:
        c = t["cfg"]
        budgets: Dict[str, Any] = {"ops_reflection": c["opsCap"], "time_ms_reflection": c["wallMs"]}
        extra = {"backend": "llm"} if "planner" in t else {}
        return {"t3": {**extra, "allow_reflection": c["allow"] if allow_override is None else allow_override,
                       "reflection": {"backend": c["backend"], "topk_snippets": c["topk"], "summary_tokens": c["limit"],
                                      "embed": c["embed"]},
                       "llm": {**({"provider": "fixture"} if "planner" in t else {}),
                               "fixtures": {"enabled": c["fxEnabled"], "path": fx_path}}},
                "t4": {"enabled": t["t4on"]},
                "scheduler": {"budgets": budgets}}

    @staticmethod
    def _fx_path(root: str, ti: int, t: dict, o: dict, shared: bool = False) -> Optional[str]:
        if "planner" in t:
            return f"{root}/planner.jsonl"
        if t["cfg"]["fxPathOk"] and shared:
            return f"{root}/fx_shared.jsonl"      # one path for the whole history; its CONTENT changes between turns
        if t["cfg"]["fxPathOk"]:
            return f"{root}/absent_{ti}.jsonl" if o["adapter"] == "initfail" else f"{root}/fx_{ti}.jsonl"
        return "" if ti % 2 else None

    def effective_cfg(self, t: dict, fx_path: Optional[str], allow_override: Optional[bool] = None) -> Tuple[dict, dict]:
        """(validated plain config the code will see, the model's Cfg read back from it)."""
        plain = self._validated(self._cfg_over(t, fx_path, allow_override))
        t3 = plain.get("t3") or {}
        rf = t3.get("reflection") or {}
        fx = ((t3.get("llm") or {}).get("fixtures") or {})
        bud = ((plain.get("scheduler") or {}).get("budgets") or {})
        path = fx.get("path")

        def to_int(v):
            try:
                return int(v)
            except Exception:
                return None

        topk, limit = to_int(rf.get("topk_snippets", 3)), to_int(rf.get("summary_tokens", 128))
        ops, wall = bud.get("ops_reflection"), bud.get("time_ms_reflection")
        mc = {"allow": bool(t3.get("allow_reflection", False)), "backend": str(rf.get("backend", "rulebased")),
              "topk": 0 if topk is None else topk, "limit": 0 if limit is None else limit,
              "embed": bool(rf.get("embed", True)),
              # reflect(): int(x) fails -> 5; writer: int(x) raises -> nothing written: exactly the model's `null`
              "opsCap": None if ops is None else to_int(ops),
              # `int(wall_ms)` fails -> no budget
              "wallMs": None if wall is None else to_int(wall),
              "fxEnabled": bool(fx.get("enabled", False)), "fxPathOk": isinstance(path, str) and bool(path.strip()),
              # malformed values the code converts with int() at a point where the exception matters:
              "_bad_topk": topk is None,     # raises inside _run_reflection_if_enabled before reflect() (after the gates)
              "_bad_limit": limit is None}   # raises inside reflect() -> reflect_error:ValueError
        return plain, mc

    def run_history(self, case: dict, variant: str, on_ref: Optional[List[dict]] = None) -> List[dict]:
        """variant: 'on' (as generated) | 'off' (allow_reflection forced false) | 'perturb' (other reflect duration,
        same side of the budget).
        The 'off' run is the isolation reference for EACH turn t: turn t runs with reflection off from the same
        pre-state as turn t of the 'on' run.  Reflection's one documented output is the memory index (entries become
        retrievable on later turns and move index_version(), which the turn-level T2 cache key digests), so after every
        turn the entries the 'on' run wrote in that turn (`on_ref`) are added to the reference's index as well."""
        from harness.lib import turnrig as TR
        if self.scratch is None:
            raise Infra("TurnComp.scratch not set")
        root = Path(tempfile.mkdtemp(prefix="c19w_", dir=str(self.scratch)))
        R = importlib.import_module("clematis.engine.stages.t3.reflect")
        orch = importlib.import_module("clematis.engine.orchestrator")
        olog = importlib.import_module("clematis.engine.orchestrator.logging")
        from clematis.memory.index import InMemoryIndex

        class ScriptedIndex(InMemoryIndex):
            def __init__(self):
                super().__init__()
                self.script: List[bool] = []
                self.calls = 0                 # add() calls in the current turn
                self.ok_pos: List[int] = []    # ordinal (= entry position) of every add() that persisted a row

            def add(self, ep):  # type: ignore[override]
                k = self.calls
                self.calls += 1
                flag = self.script.pop(0) if self.script else False
                if flag:
                    raise RuntimeError("injected:index.add")
                self.ok_pos.append(k)
                return super().add(ep)

        agent = case["agent"]
        w = TR.build_world(root / "w", {"agent": agent, "episodes": [], "boot_loaded": True})
        if case.get("planner"):
            w.state = TR.AttrDict(w.state)     # long-lived state that accepts setattr (what run_policy writes to)
        idx = ScriptedIndex()
        w.state["mem_index"] = idx
        t2_objs: List[Tuple[Any, Any]] = []    # every T2 result object produced in this history + its snapshot at birth

        def t2_snap(obj) -> list:
            return [[getattr(r, "id", None), getattr(r, "score", None), getattr(r, "text", None)] if not isinstance(r, dict)
                    else [r.get("id"), r.get("score"), r.get("text")] for r in (getattr(obj, "retrieved", None) or [])]

        def my_t2(ctx, state, text, t1):
            tt = cur["t"]
            scores = tt.get("scores") or [0.5] * len(tt["items"])
            obj = TR._make_ret("t2", {"retrieved": [{"id": f"e{k}", "text": (s if s != "" else None), "score": float(sc)}
                                                      for k, (s, sc) in enumerate(zip(tt["items"], scores))],
                                      "metrics": {"k_returned": len(tt["items"]), "k_used": len(tt["items"])}})
            t2_objs.append((obj, t2_snap(obj)))
            return obj
        clk = [0.0]
        calls = {"reflect": 0}
        cur: Dict[str, Any] = {}

        def my_reflect(bundle, cfg_root, embedder=None):
            calls["reflect"] += 1
            o = cur["o"]
            clk[0] += cur["el"] / 1e6
            if o["mode"] == "raise":
                raise TR.make_exc(o["exc"])
            if o["mode"] == "stub":
                ents = []
                for e in o["stub"]["entries"]:
                    d = {"owner": "x", "ts": "y", "text": e["text"], "tags": ["reflection"], "kind": "summary"}
                    if e["vec"]:
                        d["vec_full"] = [0.5, 0.25]
                    ents.append(d)
                return R.ReflectionResult(summary=o["stub"]["summary"], memory_entries=ents, metrics={})
            return R.reflect(bundle, cfg_root, embedder=embedder)

        real_make = TR.make_ctx

        def make_ctx(world, turn_id):
            prev = getattr(world, "last_ctx", None)
            if case["reuse"] and prev is not None:
                prev.turn_id = turn_id
                prev.now_ms = world.spec.get("now_ms", 0)
                prev.cfg = prev.config = world.cfg
                for k, v in (world.spec.get("ctx_extra") or {}).items():
                    setattr(prev, k, copy.deepcopy(v))
                return prev
            return real_make(world, turn_id)

        real_pc = _time.perf_counter
        real_append = olog.append_jsonl
        import datetime as _dtmod
        real_dt = _dtmod.datetime
        wall_base = {"on": 1924992000.25, "off": 1924992000.25, "perturb": 1988150400.75}[variant]

        class FakeDT(real_dt):   # modules that read the wall clock through `datetime.datetime.now/utcnow` see this
            @classmethod
            def now(cls, tz=None):
                return real_dt.fromtimestamp(wall_base, tz)

            @classmethod
            def utcnow(cls):
                return real_dt.utcfromtimestamp(wall_base)
        had_reflect = "reflect" in vars(orch)
        prev_reflect = vars(orch).get("reflect")
        outs: List[dict] = []
        try:
            TR.make_ctx = make_ctx
            _dtmod.datetime = FakeDT
            _time.perf_counter = lambda: clk[0]
            setattr(orch, "reflect", my_reflect)
            prev_t2 = vars(orch).get("t2_semantic", _ABSENT)
            setattr(orch, "t2_semantic", my_t2)
            for ti, rec in enumerate(case["turns"]):
                t, o = rec["t"], rec["o"]
                el = int(o["elapsedUs"])
                if variant == "perturb":
                    wall = self.effective_cfg(t, None)[1]["wallMs"]
                    if wall is None:
                        el = el + 777
                    elif el > wall * 1000:
                        el = el + 1234
                    else:
                        el = (el * 7 + 3) % (wall * 1000 + 1)
                cur.clear(); cur.update({"o": o, "el": el, "t": t})
                clk[0] = 0.0
                calls["reflect"] = 0
                # fixtures for the llm backend
                c = t["cfg"]
                shared = bool(case.get("shared_fx"))
                fx_path = self._fx_path(str(root), ti, t, o, shared)
                _p, mc = self.effective_cfg(t, fx_path)

                def prompt_hash_of(tj: dict) -> str:
                    mcj = self.effective_cfg(tj, fx_path)[1]
                    pj, _ = fixture_key(agent, bool(tj["plan"]) and not tj["dry"], self._snips_for_prompt(tj, R, mcj["topk"]),
                                        mcj["limit"], tj["turn_id"],
                                        R._normalize(tj["utter"] if not tj["dry"] else "", keep_punct=True))
                    return importlib.import_module("clematis.adapters.llm")._prompt_hash(pj)

                if c["fxPathOk"] and shared:
                    # the file's CURRENT content is this turn's adapter oracle: removed / rewritten without this
                    # prompt's entry (or truncated) / rewritten with it.  Entries for the LATER turns' prompts are
                    # present too, so anything that keeps an earlier parse alive serves a stale completion later.
                    fx_file = root / "fx_shared.jsonl"
                    ad = o["adapter"]
                    later = [json.dumps({"prompt_hash": prompt_hash_of(r2["t"]), "completion": f"stale completion parsed at turn {ti}"})
                             for r2 in case["turns"][ti + 1:]]
                    if ad == "initfail":
                        if fx_file.exists():
                            fx_file.unlink()
                    elif ad == "missing":
                        me = prompt_hash_of(t)
                        keep = [] if ti % 2 else [l for l in later if json.loads(l)["prompt_hash"] != me]
                        fx_file.write_text("".join(l + "\n" for l in keep), encoding="utf-8")
                    else:
                        me = prompt_hash_of(t)
                        lines = [l for l in later if json.loads(l)["prompt_hash"] != me]
                        lines.append(json.dumps({"prompt_hash": me, "completion": ad["text"]}))
                        fx_file.write_text("\n".join(lines) + "\n", encoding="utf-8")
                elif c["fxPathOk"]:
                    fx_file = root / f"fx_{ti}.jsonl"
                    ad = o["adapter"]
                    if ad != "initfail":
                        lines = [json.dumps({"prompt_hash": "0" * 64, "completion": "unrelated"})]
                        if isinstance(ad, dict):
                            snips = self._snips_for_prompt(t, R, mc["topk"])
                            plan_eff = bool(t["plan"]) and not t["dry"]
                            pj, _ = fixture_key(agent, plan_eff, snips, mc["limit"], t["turn_id"],
                                                R._normalize(t["utter"] if not t["dry"] else "", keep_punct=True))
                            L = importlib.import_module("clematis.adapters.llm")
                            lines.append(json.dumps({"prompt_hash": L._prompt_hash(pj), "completion": ad["text"]}))
                        fx_file.write_text("\n".join(lines) + "\n", encoding="utf-8")
                plain, _mc0 = self.effective_cfg(t, fx_path, False if variant == "off" else None)
                plain.setdefault("t4", {})["snapshot_dir"] = str(w.snap_dir)
                w.cfg_plain = plain
                w.cfg = TR.to_attrdict(plain)
                w.spec["now_ms"] = t["nowMs"]
                w.spec["ctx_extra"] = {"_dry_run_until_t4": bool(t["dry"]),
                                       "turn_artifacts": {"t2_snippets": list(t["arts"])}}
                isov = iso_attr_value(case.get("iso"))
                if isov is not _ABSENT:
                    w.spec["ctx_extra"]["now_iso"] = isov
                planner_note = None
                if case.get("planner"):
                    # the planner step of this turn (select_policy -> run_policy); the harness never touches the flag
                    kind = t.get("planner")
                    if kind is not None:
                        pol = importlib.import_module("clematis.engine.stages.t3.policy")
                        L2 = importlib.import_module("clematis.adapters.llm")
                        pctx = make_ctx(w, t["turn_id"])
                        pfile = Path(fx_path)
                        if kind == "nofile":
                            if pfile.exists():
                                pfile.unlink()
                        else:
                            comp = {"answer_true": json.dumps({"plan": ["think"], "rationale": "r", "reflection": True}),
                                    "answer_false": json.dumps({"plan": ["rest"], "rationale": "r", "reflection": False}),
                                    "invalid_json": "{not json",
                                    "invalid_schema": json.dumps({"plan": "not-a-list", "reflection": "maybe"})}.get(kind)
                            lines = [json.dumps({"prompt_hash": "0" * 64, "completion": "unrelated"})]
                            if comp is not None:
                                lines.append(json.dumps({"prompt_hash": L2._prompt_hash(pol.make_planner_prompt(pctx)),
                                                         "completion": comp}))
                            pfile.write_text("\n".join(lines) + "\n", encoding="utf-8")
                        with TR._env(w):
                            try:
                                # t3_pipeline's bundle carries only a config snapshot without t3.backend, so the LLM
                                # policy is selected on the turn's real config, as a driver of the planner does
                                handle = pol.select_policy(w.cfg_plain, pctx)
                                pol.run_policy(handle, {"cfg": w.cfg_plain}, w.cfg_plain, pctx, state=w.state)
                                planner_note = "ran:" + str(handle.get("name"))
                            except Exception as e:   # the planner entry point itself must not raise on unusable output
                                planner_note = f"raised:{type(e).__name__}"
                elif t["sflag"]:
                    w.state["_planner_reflection_flag"] = True
                else:
                    w.state.pop("_planner_reflection_flag", None)
                if o["indexMissing"]:
                    w.state.pop("memory_index", None)
                else:
                    w.state["memory_index"] = idx
                idx.script = list(o["addFail"])
                idx.calls, idx.ok_pos = 0, []
                n0 = len(idx._eps)
                beh = {"t1": TR.stub({"metrics": {"pops": 1, "iters": 1, "graphs_touched": 1}}),
                       "t2": {"mode": "real"},     # our own T2 stage (installed on the package): scripted hits + scores
                       "deliberate": TR.stub({"reflection": bool(t["plan"]), "ops": []}),
                       "dialogue": TR.stub({"utter": t["utter"]}),
                       "t4": TR.stub({"approved": [], "metrics": {}})}
                if o["runFault"]:
                    beh["reflect_run"] = TR.fault("reflect_run", o["runFaultExc"])
                if o["writeFault"]:
                    beh["reflect_write"] = TR.fault("reflect_write", "OSError")
                if o["logFault"] and o["logFaultKind"] == "site":
                    beh["reflect_log"] = TR.fault("reflect_log", "KeyError")
                if o["logFault"] and o["logFaultKind"] == "append":
                    def bad_append(path, payload, _real=real_append):
                        if "t3_reflection" in str(path):
                            raise OSError("injected:append")
                        return _real(path, payload)
                    olog.append_jsonl = bad_append
                try:
                    text_in = "hi there 0" if case.get("repeat_text") else f"hi there {ti}"   # distinct text: see ASSUMPTIONS
                    n_t2 = len(t2_objs)
                    run = TR.run_turn(w, text_in, t["turn_id"], beh)
                finally:
                    olog.append_jsonl = real_append
                new = idx._eps[n0:]
                written = [{"id": e.get("id"), "owner": e.get("owner"), "ts": e.get("ts"), "kind": e.get("kind"),
                            "tags": e.get("tags"), "text": e.get("text"), "vec": "vec_full" in e,
                            "keys": sorted(e.keys()),
                            # the writer makes one add() per entry, in order: the ordinal of the add() call that
                            # persisted this row is the entry's POSITION in the (capped) result list
                            "pos": (idx.ok_pos[k] if k < len(idx.ok_pos) else None)} for k, e in enumerate(new)]
                sites = [c0[0] for c0 in run.calls]
                logs = {s: v for s, v in run.logs.items() if s != "t3_reflection"}
                outs.append({"reached": "reflect_run" in sites, "called": calls["reflect"] > 0,
                             "n_reflect_calls": calls["reflect"], "written": written,
                             "rlog": run.logs.get("t3_reflection", []),
                             "rfile": run.files.get("t3_reflection", []),
                             "result": run.result, "raised": run.raised, "other_logs": logs,
                             "etag": run.state.get("version_etag"), "store_w": run.state.get("store_w"),
                             "stash_is_none": getattr(w.last_ctx, "_reflection_result", None) is None,
                             "planner_note": planner_note, "t2_cache_hit": len(t2_objs) == n_t2,
                             "flag_after": bool(w.state.get("_planner_reflection_flag", False)),
                             # the T2 record: every T2 result object of this history (the orchestrator's turn-level cache
                             # holds them by reference and serves them on later turns) now vs. when T2 produced it
                             "t2_birth": [copy.deepcopy(b) for _o, b in t2_objs],
                             "t2_now": [t2_snap(ob) for ob, _b in t2_objs],
                             "_eps": list(new)})
                if variant == "off" and on_ref is not None and ti < len(on_ref):
                    for e in on_ref[ti].get("_eps", []):
                        InMemoryIndex.add(idx, copy.deepcopy(e))      # same memory pre-state for the next turn
        except TR.RigError as e:
            raise Infra(f"rig error: {e}")
        finally:
            TR.make_ctx = real_make
            try:
                if prev_t2 is _ABSENT:
                    delattr(orch, "t2_semantic")
                else:
                    setattr(orch, "t2_semantic", prev_t2)
            except Exception:
                pass
            _dtmod.datetime = real_dt
            _time.perf_counter = real_pc
            olog.append_jsonl = real_append
            if had_reflect:
                setattr(orch, "reflect", prev_reflect)
            else:
                try:
                    delattr(orch, "reflect")
                except AttributeError:
                    pass
            shutil.rmtree(root, ignore_errors=True)
        return outs

    @staticmethod
    def _snips_for_prompt(t: dict, R, k: int) -> List[str]:
        """The snippet list `_reflect_llm` puts into the prompt (harness mirror, used only to place the fixture; the
        fixture_key the implementation logs is checked against the MODEL's prompt parts)."""
        if k <= 0:
            return []
        sn = [s for s in t["items"] if isinstance(s, str) and s][:k]
        if not sn:
            sn = [s for s in t["arts"] if isinstance(s, str)][:k]
        return [R._normalize(s, keep_punct=True) for s in sn[:k]]

    def impl(self, case: dict) -> Any:
        case = _defloat(case)
        on = self.run_history(case, "on")
        off = self.run_history(case, "off", on)
        out = {"on": on, "off": off}
        if case.get("det"):
            out["perturb"] = self.run_history(case, "perturb")
        for rows in out.values():
            for x in rows:
                x.pop("_eps", None)
        return out

    # ---- model request / comparison ---------------------------------------------------------------------
    def model_turn(self, case: dict, rec: dict, ti: int = 0) -> dict:
        t, o = rec["t"], rec["o"]
        _plain, c = self.effective_cfg(t, self._fx_path("/scratch", ti, t, o, bool(case.get("shared_fx"))))
        bad_topk, bad_limit = c.pop("_bad_topk"), c.pop("_bad_limit")
        mt = {"agent": case["agent"], "turn": str(t["turn_id"]), "nowMs": t["nowMs"],
              "iso": (None if case.get("iso") is None else ({"lit": case["iso"]["lit"]} if "lit" in case["iso"] else "nonstr")),
              "dry": t["dry"], "t4on": t["t4on"],
              # in a dry run T3 is skipped: the plan is the placeholder (reflection False) and the utterance is ""
              "plan": bool(t["plan"]) and not t["dry"], "sflag": t["sflag"],
              "cfg": c,
              "utter": t["utter"] if not t["dry"] else "",
              "items": [s if isinstance(s, str) else "" for s in t["items"]],
              "arts": [s for s in t["arts"] if isinstance(s, str)]}
        mode, exc = o["mode"], o.get("exc", "")
        if bad_limit and mode == "real":
            mode, exc = "raise", "ValueError"
        mo = {"mode": mode, "exc": exc, "stub": o.get("stub", {"summary": "", "entries": []}),
              "adapter": o["adapter"], "elapsedUs": o["elapsedUs"], "runFault": bool(o["runFault"] or bad_topk),
              "indexMissing": o["indexMissing"],
              "writeFault": o["writeFault"], "addFail": o["addFail"], "logFault": o["logFault"]}
        return {"t": mt, "o": mo}

    @staticmethod
    def abstract_unicode(m: dict) -> dict:
        """Spec level for non-ASCII text: the model's ASCII whitespace/word classes do not apply, so the text fields
        are replaced by ASCII stand-ins that keep exactly what the structural outputs depend on — which snippet
        sources are empty, and whether the clipped completion is empty under Python's own split()."""
        t, o = dict(m["t"]), dict(m["o"])
        t["utter"] = "x" if t["utter"] else ""
        t["items"] = ["x" if s else "" for s in t["items"]]
        t["arts"] = ["x" for _ in t["arts"]]
        if isinstance(o.get("adapter"), dict):
            lim = max(0, t["cfg"]["limit"])
            o["adapter"] = {"text": "x" if (lim > 0 and o["adapter"]["text"].split()) else ""}
        if o.get("stub"):
            o["stub"] = {"summary": "x" if o["stub"]["summary"] else "",
                         "entries": [{"text": "x", "vec": e["vec"]} for e in o["stub"]["entries"]]}
        return {"t": t, "o": o}

    def request(self, case: dict) -> dict:
        case = _defloat(case)
        turns = [self.model_turn(case, r, i) for i, r in enumerate(case["turns"])]
        if case.get("uni") and not _is_ascii(json.dumps(case, ensure_ascii=False)):
            turns = [self.abstract_unicode(m) for m in turns]
        if case.get("planner"):
            for m, rec in zip(turns, case["turns"]):
                m["p"] = self.planner_model(rec["t"].get("planner"))
        return {"c": "refl.hist", "clear": True, "reuse": case["reuse"], "planner": bool(case.get("planner")), "turns": turns}

    @staticmethod
    def planner_model(kind: Optional[str]):
        """harness planner script -> the model's PlannerOut: a validated answer, or the fallback dict (every unusable output)"""
        if kind is None:
            return None
        if kind == "answer_true":
            return {"answer": True}
        if kind == "answer_false":
            return {"answer": False}
        return "fallback"

    def _canon_impl(self, case: dict, io: dict) -> List[dict]:
        out = []
        for rec, x in zip(case["turns"], io["on"]):
            lg = None
            if x["rlog"]:
                l0 = x["rlog"][0]
                lg = {"n": len(x["rlog"]), "turn": l0.get("turn"), "agent": l0.get("agent"), "summary_len": l0.get("summary_len"),
                      "ops_written": l0.get("ops_written"), "embed": l0.get("embed"), "backend": l0.get("backend"),
                      "reason": l0.get("reason"), "fixture_key": l0.get("fixture_key"),
                      "on_disk": x["rfile"] == x["rlog"]}
            out.append({"reached": x["reached"], "called": x["called"],
                        "written": [{k: e[k] for k in ("id", "owner", "ts", "kind", "tags", "text", "vec")} for e in x["written"]],
                        "log": lg, "raised": x["raised"]})
        return out

    def canon_model(self, case: dict, mout: Any) -> Any:
        if not isinstance(mout, list):
            return mout
        out = []
        for rec, m in zip(case["turns"], mout):
            t = rec["t"]
            mcfg = self.model_turn(case, rec, len(out))["t"]["cfg"]
            lg = None
            if m["log"] is not None:
                fk = None
                if m["log"]["fk"]:
                    _, fk = fixture_key(case["agent"], bool(t["plan"]) and not t["dry"], [dec(x) for x in m["prompt"]["snips"]],
                                        mcfg["limit"], t["turn_id"], dec(m["prompt"]["utter"]))
                lg = {"n": 1, "turn": int(t["turn_id"]), "agent": case["agent"], "summary_len": m["log"]["summary_len"],
                      "ops_written": m["log"]["ops_written"], "embed": m["log"]["embed"], "backend": dec(m["log"]["backend"]),
                      "reason": m["log"]["reason"], "fixture_key": fk, "on_disk": True}
            out.append({"reached": m["reached"], "called": m["called"],
                        "written": [{"id": pure_id(dec(w["agent"]), dec(w["turn"]), w["slot"], dec(w["idText"])), "owner": "agent",
                                     "ts": render_ts(w["ts"]), "kind": "summary", "tags": ["reflection"], "text": dec(w["text"]),
                                     "vec": w["vec"]} for w in m["written"]],
                        "log": lg, "raised": None})
        return out

    def compare(self, case, impl_out, model_out):
        case = _defloat(case)
        if isinstance(impl_out, dict) and "__raised__" in impl_out:
            return f"harness/implementation raised {impl_out}"
        a = self._canon_impl(case, impl_out)
        b = self.canon_model(case, model_out)
        if case.get("uni") and not _is_ascii(json.dumps(case, ensure_ascii=False)) and isinstance(b, list) and len(a) == len(b):
            # spec level for unicode text: structure only (counts, presence, reason, gate), no text-derived fields
            def strip(rows):
                out = []
                for r in rows:
                    lg = r["log"]
                    if lg is not None:
                        lg = {k: v for k, v in lg.items() if k not in ("summary_len", "fixture_key")}
                        lg["has_fk"] = r["log"].get("fixture_key") is not None
                        if isinstance(lg.get("reason"), str) and "FixtureMissing" in lg["reason"]:
                            lg["reason"] = "reflect_error:FixtureMissingError"
                    out.append({"reached": r["reached"], "called": r["called"], "nw": len(r["written"]),
                                "log": None if lg is None else {k: lg[k] for k in ("n", "turn", "agent", "embed", "backend", "on_disk")},
                                "raised": r["raised"]})
                return out
            a, b = strip(a), strip(b)
        a, b = _canon(a), _canon(b)
        return None if a == b else first_diff(a, b)

    # ---- monitors ---------------------------------------------------------------------------------------
    def monitor_requests(self, case, impl_out):
        case = _defloat(case)
        rq = []
        pl = bool(case.get("planner"))
        if pl:
            tp = []
            for i, (rec, x) in enumerate(zip(case["turns"], impl_out["on"])):
                m = self.abstract_unicode(self.model_turn(case, rec, i))
                tp.append({"t": m["t"], "p": self.planner_model(rec["t"].get("planner")), "called": x["called"],
                           "nWritten": len(x["written"]), "logged": bool(x["rlog"]) or bool(x["rfile"])})
            rq.append(("gate_planner", {"c": "refl.mon.planner", "turns": tp}))
        for i, (rec, x) in enumerate(zip(case["turns"], impl_out["on"])):
            m = self.model_turn(case, rec, i)
            texts = [e["text"] for e in x["written"] if isinstance(e["text"], str) and _is_ascii(e["text"])]
            base = {"t": m["t"], "o": m["o"], "called": x["called"], "nWritten": len(x["written"]),
                    "logged": bool(x["rlog"]) or bool(x["rfile"]), "texts": texts, "real": rec["o"]["mode"] == "real"}
            if not _is_ascii(json.dumps(base, ensure_ascii=False)):
                # gate / cap / failsoft do not look at text: ASCII stand-ins for the unicode stream
                ab = self.abstract_unicode(m)
                base["t"], base["o"] = ab["t"], ab["o"]
                base["texts"] = []
                for name in ("gate", "cap", "failsoft"):
                    if not (pl and name == "gate"):
                        rq.append((name, dict(base, c=f"refl.mon.{name}")))
                continue
            for name in ("gate", "cap", "failsoft", "len"):
                if not (pl and name == "gate"):
                    rq.append((name, dict(base, c=f"refl.mon.{name}")))
        return rq

    def monitors(self, case, impl_out):
        case = _defloat(case)
        res: List[Tuple[str, bool, str]] = []
        on, off = impl_out["on"], impl_out["off"]
        attr: Any = _ABSENT          # ctx.now_iso as the turn sees it after run_turn's head
        for i, (rec, x) in enumerate(zip(case["turns"], on)):
            t, o = rec["t"], rec["o"]
            if not case["reuse"]:
                attr = _ABSENT
            pres = iso_attr_value(case.get("iso"))
            if pres is not _ABSENT:
                attr = ("given", pres)
            elif attr is _ABSENT and isinstance(t["nowMs"], int):
                attr = ("derived", t["nowMs"])
            if t["nowMs"] is None:
                want_ts = None       # no turn clock: the writer cannot stamp an entry; nothing may be written
            elif attr is not _ABSENT and attr[0] == "derived":
                want_ts = iso_from_ms(attr[1])
            elif attr is not _ABSENT and isinstance(attr[1], str):
                want_ts = attr[1]
            else:
                want_ts = fallback_ts(int(t["nowMs"]))
            lim = max(0, self.model_turn(case, rec, i)["t"]["cfg"]["limit"])
            if x["raised"] is not None:
                res.append(("turn_completes", False, f"turn {i}: run_turn raised {x['raised']}"))
            for slot_guess, e in enumerate(x["written"]):
                # id / ts are the pure function of (agent, turn, slot, text) and the logical clock
                ids = {pure_id(case["agent"], str(t["turn_id"]), s, str(e["text"])) for s in range(0, 8)}
                # C19_id_pure's function on every written row: slot = the entry's position, whatever happened to the
                # earlier entries; text = the entry's text as produced (the stored text is its strip())
                pos = e.get("pos")
                if pos is not None and o["mode"] in ("real", "stub"):
                    src = str(e["text"])
                    if o["mode"] == "stub" and pos < len(o["stub"]["entries"]):
                        src = str(o["stub"]["entries"][pos]["text"])
                    want_id = pure_id(case["agent"], str(t["turn_id"]), pos, src)
                    res.append(("id_pure_slot", e["id"] == want_id and str(e["text"]) == src.strip(),
                                f"turn {i}: row persisted for entry position {pos} (text {src!r}) has id {e['id']!r}, but "
                                f"id(agent={case['agent']!r}, turn={t['turn_id']!r}, slot={pos}, text) = {want_id!r}: the id depends on "
                                f"something else (add() fault pattern {o['addFail']})"))
                if o["mode"] == "real":
                    res.append(("id_pure", e["id"] in ids, f"turn {i}: id {e['id']} is not refl-<turn>-<agent>-<slot>-sha256(agent|turn|slot|text)[:12] for text {e['text']!r}"))
                    res.append(("summary_len_py", len(str(e["text"]).split()) <= lim,
                                f"turn {i}: stored summary {e['text']!r} has {len(str(e['text']).split())} tokens > summary_tokens {lim}"))
                res.append(("ts_logical", e["ts"] == want_ts,
                            f"turn {i}: ts {e['ts']!r} is not the pure function of the turn clock (now_ms={t['nowMs']!r}, "
                            f"now_iso={'absent' if attr is _ABSENT else attr!r}): expected {want_ts!r}"))
                res.append(("entry_shape", e["owner"] == "agent" and e["kind"] == "summary" and e["tags"] == ["reflection"],
                            f"turn {i}: entry shape {e}"))
            if len(x["rlog"]) > 1:
                res.append(("one_log_line", False, f"turn {i}: {len(x['rlog'])} t3_reflection records"))
        for i, x in enumerate(on):
            if x.get("t2_now") != x.get("t2_birth"):
                k = next(j for j, (a, b) in enumerate(zip(x["t2_now"], x["t2_birth"])) if a != b)
                res.append(("t2_record_unaltered", False,
                            f"turn {i}: the T2 result object produced for T2 call #{k} (held by the turn-level cache) was altered: "
                            f"retrieved was {x['t2_birth'][k]} when T2 returned it, is {x['t2_now'][k]} after this turn"))
            if str(x.get("planner_note") or "").startswith("raised"):
                res.append(("planner_completes", False, f"turn {i}: run_policy {x['planner_note']}"))
        # isolation: same history with reflection off
        for i, (x, y) in enumerate(zip(on, off)):
            same = (x["result"] == y["result"] and x["raised"] == y["raised"] and x["other_logs"] == y["other_logs"]
                    and x["etag"] == y["etag"] and x["store_w"] == y["store_w"] and x.get("t2_now") == y.get("t2_now"))
            if not same:
                diff = [k for k in ("result", "raised", "etag", "store_w", "t2_now") if x.get(k) != y.get(k)]
                diff += [f"log:{s}" for s in sorted(set(x["other_logs"]) | set(y["other_logs"]))
                         if x["other_logs"].get(s) != y["other_logs"].get(s)]
                res.append(("isolation", False, f"turn {i}: differs from the reflection-off run in {diff}"))
            if y["written"] or y["rlog"] or y["called"]:
                res.append(("off_is_off", False, f"turn {i}: reflection-off run wrote/logged/called"))
        # determinism under a perturbed clock
        if "perturb" in impl_out:
            for i, (x, z) in enumerate(zip(on, impl_out["perturb"])):
                if x["written"] != z["written"] or x["rlog"] != z["rlog"]:
                    res.append(("clock_indep", False, f"turn {i}: ids/ts/records differ between two runs of the same history under different wall clocks / reflect durations"))
        # summarise: one positive entry per monitor name so that evidence shows they ran
        names = {"turn_completes", "t2_record_unaltered", "planner_completes", "id_pure", "id_pure_slot", "summary_len_py", "ts_logical", "entry_shape", "one_log_line", "isolation",
                 "off_is_off", "clock_indep"}
        failed = {n for n, ok, _ in res if not ok}
        return [r for r in res if not r[1]] + [(n, True, "") for n in sorted(names - failed)]

    def tags(self, case, impl_out):
        case = _defloat(case)
        tg = set()
        if case["reuse"]:
            tg.add("reuse_ctx")
        if case.get("uni"):
            tg.add("unicode")
        if case.get("iso") is not None:
            tg.add("clock:now_iso_" + ("string" if "lit" in case["iso"] else "nonstring"))
        if case.get("planner"):
            ks = [str(r["t"].get("planner")) for r in case["turns"]]
            tg.add("planner:history")
            for a, b in zip(ks, ks[1:]):
                tg.add(f"planner:{a}->{'fallback' if b in ('missing', 'invalid_json', 'invalid_schema', 'nofile') else b}")
        if case.get("repeat_text"):
            tg.add("t2cache:repeat_text")
            if any(x.get("t2_cache_hit") for x in impl_out["on"][1:]):
                tg.add("t2cache:hit_on_later_turn")
        for r in case["turns"]:
            sc = [v for v, it in zip(r["t"].get("scores") or [], r["t"]["items"])]
            if any(a < b for a, b in zip(sc, sc[1:])):
                tg.add("t2:not_score_descending")
                break
        if case.get("shared_fx"):
            tg.add("fx:shared_path")
            ads = [("text" if isinstance(r["o"]["adapter"], dict) else r["o"]["adapter"]) for r in case["turns"]]
            for a, b in zip(ads, ads[1:]):
                tg.add(f"fx:{a}->{b}")
        for r in case["turns"]:
            if r["t"].get("writepath"):
                af = r["o"]["addFail"]
                tg.add(f"writepath:n={len(af)}")
                if any(af[k] and not all(af[k + 1:]) for k in range(len(af) - 1)):
                    tg.add("writepath:earlier_add_fails_later_succeeds")
            if r["t"]["nowMs"] in (0, 1, None):
                tg.add(f"clock:now_ms={r['t']['nowMs']}")
        prev_open_ok = False
        for rec, x in zip(case["turns"], impl_out["on"]):
            t, o = rec["t"], rec["o"]
            c = self.effective_cfg(t, None)[1]
            if t.get("malformed"):
                tg.add("malformed:" + t["malformed"])
            gate_open = (not t["dry"]) and c["allow"] and ((t["plan"]) or t["sflag"])
            if not gate_open:
                tg.add("gate_closed")
                if t["dry"]:
                    tg.add("closed:dry" + ("" if t["t4on"] else "_t4off"))
                if not c["allow"]:
                    tg.add("closed:allow")
                if not (t["plan"] or t["sflag"]):
                    tg.add("closed:plan")
                if case["reuse"] and prev_open_ok:
                    tg.add("stale_ctx_then_closed")
            else:
                tg.add("gate_open")
                if t["sflag"] and not t["plan"]:
                    tg.add("open:state_flag")
                tg.add("backend:" + str(c["backend"]).lower())
                tg.add("mode:" + o["mode"])
            if x["written"]:
                tg.add(f"written:{min(len(x['written']), 3)}")
                prev_open_ok = True
            if x["rlog"]:
                r = x["rlog"][0].get("reason")
                tg.add("reason:" + (str(r).split(":")[0] if r else "none"))
                if r and "FixtureMissing" in str(r):
                    tg.add("fixture_missing")
                if x["rlog"][0].get("fixture_key"):
                    tg.add("llm_fixture_hit")
            if gate_open and (c["opsCap"] is None or c["opsCap"] <= 0):
                tg.add("cap<=0/null")
            if gate_open and c["limit"] <= 0:
                tg.add("limit<=0")
            for k in ("runFault", "indexMissing", "writeFault", "logFault"):
                if gate_open and o[k]:
                    tg.add("fault:" + k)
            if gate_open and any(o["addFail"]):
                tg.add("fault:add")
        return sorted(tg) or ["default"]

    def shrink(self, case):
        ts = case["turns"]
        for i in range(len(ts)):
            if len(ts) > 1:
                yield dict(case, turns=ts[:i] + ts[i + 1:])


COMPONENTS = [TextComp(), TurnComp()]


def _load_corpus(ctx: Ctx) -> None:
    pass


def run(ctx: Ctx) -> None:
    TurnComp.scratch = ctx.scratch
    for comp in COMPONENTS:
        run_component(ctx, comp)


def replay(ctx: Ctx, rec: dict) -> int:
    from harness.core import generic_replay
    TurnComp.scratch = ctx.scratch
    return generic_replay(ctx, rec, {c.name: c for c in COMPONENTS})
