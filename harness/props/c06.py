"""C06 — snapshots round-trip the state they were written from: correspondence + monitors."""
from __future__ import annotations

import json
import math
import os
import random
import shutil
import tempfile
from types import SimpleNamespace as NS
from typing import Any, List, Optional, Tuple

from harness.core import Component, Ctx, run_component, f2b, b2f

RULE = ("generated engine states (GEL graphs in list- and dict-form, unicode / '→' / '__' / empty ids, both edge orientations, duplicate pairs "
        "with different rel, non-finite / out-of-range / boundary weights, malformed entries), clamp bounds taken from raw and validated configs, "
        "store shapes (.w map, export/import protocol, none), directory listings seeded with sidecars, atomic-write temporaries, snap_*/state_* "
        "and foreign JSON; a case is non-trivial when it hits at least one of the branch tags (collapse, clamp, prune, nonfinite, abort, fallback, "
        "precedence class, …); distinct by canonical JSON of the case")
ASSUMPTIONS = [
    "state values are JSON-shaped (None/bool/int/float/str/list/dict with str keys); src/dst/rel/ids are str, None, bool or int (str() of floats and containers is not modelled)",
    "float() of strings is modelled for optional sign + plain decimal or nan/inf/infinity (any case); exponents, underscores, blanks are not generated; int() of numeric strings is not modelled; float() of ints is exact below 2**53",
    "the documented per-weight pipeline (clamp; NaN or a non-finite clamp result -> the in-bounds value nearest 0.0; round6; epsilon-prune) is decided by Lean's `sw` on (input weight, stored weight) pairs of every stored edge that stems from exactly one input edge, for the file and for the state after load",
    "store.w keys are tuples of str (keys that differ only by type collapse under str() and are excluded); store values are floats or small ints",
    "json.loads(json.dumps(v)) == v for JSON-shaped v (CPython float repr round-trip), and json.dumps is a function of the ordered value",
    "load_latest_snapshot is a function of the file content and the fresh state only (no state carried between calls in one process): checked by histories of several loads of one unchanged file with in-place mutation of every container handed out by earlier loads, plus an object-identity walk",
    "the .meta sidecar is a function of the write (clock/SOURCE_DATE_EPOCH oracle + frozen marker), not of any sidecar already in the directory: checked through write_snapshot and write_snapshot_auto (full and delta) over directories pre-seeded with foreign sidecars of every shape",
    "atomic-write temporaries have the shape <final>.<8 chars without '.'> (isAtomicTemp) — decided by Lean on every name the real _make_tmp / a writer killed at os.replace leaves behind",
    "snapshot file names: str.isdigit is modelled on ASCII digits; os.path.getmtime does not fail; the listing order is os.listdir's (passed to the model)",
    "the write→load→write fixpoint is claimed for str version_etag and a dict-or-absent graph.meta (a truthy non-dict meta takes the writer's fallback branch; negation witness C06_fixpoint_needs_meta_dict)",
    "weight carrier laws (Clem.Snap.WLaws: round idempotent / finite-preserving / constant between x and round x / monotone at the bounds, abs monotone) hold for IEEE doubles with CPython round(x, 6); monitored on the real round on every run",
]
CLAIM = {
    "text": ("Unbounded Lean theorems over an insertion-ordered JSON value model: load∘write restores str(version), the store weights and the graph "
             "canon(graph) (clamp→round6→ε-prune per weight, canonical re-keying with first-position/last-value collapse); sanitize and canon are idempotent; "
             "write(load(write s)) = write s as ordered JSON values (hence byte-equal under any serialiser that is a function of the ordered value); NaN and "
             "±inf handling; discovery returns only '.json' members (never '.meta' sidecars or atomic-write temporaries) with snap_>state_>any precedence; every "
             "payload and sidecar carries schema_version 'v1'. Tied to the code by exact comparison of real write_snapshot file bodies (parsed with key order "
             "and float bits, plus byte equality of json.dumps of the model value), real load_latest_snapshot states, real 3-step write-load-write chains "
             "byte-compared, and real directory discovery."),
    "note": ("The model follows snapshot.py with proposed_fixes/C06_nonfinite_weight_clamp.diff applied (unrepaired: NaN weight with 0 outside [wmin,wmax] "
             "breaks the fixpoint; Lean witness C06_unrepaired_not_idempotent). 'Clamped to the bounds' holds only up to the rounding of the bound itself and up to ε-pruning to 0.0 "
             "(C06_weight_in_rounded_bounds_partial + witnesses C06_weight_can_overshoot_bound, C06_prune_can_leave_bounds); which of several edges collapsing to one "
             "canonical key survives ('first position, last value') and the strictness of the ε comparison are fixed by the exact correspondence only. Only by correspondence: json float repr round-trip, file mtimes/listing order, "
             "_serialize_deltas (supplied to the model), atomic file I/O (C08). Trusted: Lean kernel + propext/Classical.choice/Quot.sound; the harness; "
             "CPython dict order, json, round."),
    "technique": "Lean 4 structural/inductive proofs about an executable ordered-JSON model + exact differential execution against write_snapshot/load_latest_snapshot/_pick_latest_snapshot_path",
    "design_ref": "DESIGN.md §4 C06",
}
MODELLED = {
    "clematis/engine/snapshot.py": [
        "_pick_latest_snapshot_path", "_graph_bounds_from_cfg", "_round6", "_clamp", "_edge_id",
        "_sanitize_gel_for_write", "_sanitize_gel_for_load", "_export_store_for_snapshot",
        "_import_store_from_snapshot", "write_snapshot", "load_latest_snapshot", "_write_sidecar_meta",
        "_set_state_field", "_snapshot_path", "_read_header_payload",
        "_write_lines", "_deterministic_created_at",
    ],
    "clematis/io/atomic.py": ["_make_tmp"],
}
TRUSTED = ["modelled, not verified: CPython dict insertion order, json.dumps/json.loads, round(x, 6) (bit-exact reimplementation in Lean, "
           "cross-checked on every run), os.listdir/getmtime, tempfile naming of atomic-write temporaries"]

_SCRATCH: Optional[str] = None
EPOCH = "1700000000"
CREATED = "2023-11-14T22:13:20Z"


# --------------------------------------------------------------------------
# wire encoding of JSON-shaped values
# --------------------------------------------------------------------------

def cps(s: str) -> List[int]:
    return [ord(c) for c in s]


def uncps(a: List[int]) -> str:
    return "".join(chr(c) for c in a)


def enc(v: Any) -> Any:
    if v is None or isinstance(v, bool):
        return v
    if isinstance(v, int):
        return ["i", str(v)]
    if isinstance(v, float):
        return ["f", f2b(v)]
    if isinstance(v, str):
        return ["s", cps(v)]
    if isinstance(v, (list, tuple)):
        return ["a", [enc(x) for x in v]]
    if isinstance(v, dict):
        return ["o", [[cps(str(k)), enc(x)] for k, x in v.items()]]
    raise TypeError(f"not JSON-shaped: {type(v)}")


def dec(w: Any) -> Any:
    if w is None or isinstance(w, bool):
        return w
    t, x = w
    if t == "i":
        return int(x)
    if t == "f":
        return b2f(x)
    if t == "s":
        return uncps(x)
    if t == "a":
        return [dec(y) for y in x]
    if t == "o":
        return {uncps(k): dec(y) for k, y in x}
    raise ValueError(t)


def fkey(x: float) -> str:
    return f2b(float(x))


# --------------------------------------------------------------------------
# generators
# --------------------------------------------------------------------------

IDS = ["a", "b", "c", "n1", "é", "→x", "a__b", "b_", "_c", "", "節", "x→y", "__", "B", "a_", "_b", "x"]
RELS = ["coact", "r", "rel2", "__", "", "é"]
BOUND_PAIRS = [(-1.0, 1.0), (-1.0, 1.0), (0.0, 1.0), (0.5, 1.0), (-1.0, -0.25), (-0.1234567, 0.7654321),
               (0.0, 0.0), (1.0, -1.0), (float("nan"), 1.0), (-1, 1), (float("-inf"), float("inf")),
               (0.5, float("inf")), (-0.3333333333, 0.3333333333), (0.1234565, 0.9), (-1.0, 0.1234565),
               (float("-inf"), -0.5), (-2.5, 2.5), (0.2, 0.9), (0.2, 0.9), (0.5, 0.5), (-0.9, -0.2)]
EPS = [None, None, 0.0, 1e-6, 0.05, 0.6, -1.0, float("nan"), float("inf"), 5e-7, 1]


def gen_bounds(rng: random.Random) -> dict:
    """raw cfg sections; returns {"cfg": {...}, "via": "cfg"|"config"|"ns"}"""
    lo, hi = rng.choice(BOUND_PAIRS)
    cfg: dict = {}
    t4: dict = {}
    graph: dict = {}
    r = rng.random()
    if r < 0.55:
        t4 = {"weight_min": lo, "weight_max": hi}
    elif r < 0.8:
        graph = {"weight_min": lo, "weight_max": hi}
        if rng.random() < 0.5:
            t4 = {"weight_min": -0.5, "weight_max": 0.5}
    elif r < 0.9:
        graph = {"weight_min": lo}
        t4 = {"weight_max": hi}
    e = rng.choice(EPS)
    if e is not None:
        graph.setdefault("decay", {})["epsilon_prune"] = e
    elif rng.random() < 0.2:
        graph["decay"] = rng.choice([{}, None])
    if t4 or rng.random() < 0.5:
        cfg["t4"] = t4
    if graph or rng.random() < 0.3:
        cfg["graph"] = graph if graph or rng.random() < 0.5 else None
    return cfg


_VALID_CACHE: dict = {}


def gen_validated_bounds(rng: random.Random) -> dict:
    """Bounds obtained by running the repo's own validator on a mutated DEFAULTS."""
    import copy
    from configs.validate import validate_config, DEFAULTS
    lo, hi = rng.choice([(-1.0, 1.0), (0.0, 1.0), (0.5, 1.0), (-1.0, -0.25), (-0.1234567, 0.7654321), (-1, 1), (0.25, 0.75)])
    eps = None  # graph.decay.epsilon_prune is not a key the validator accepts
    key = (lo, hi, eps)
    if key not in _VALID_CACHE:
        cfg = copy.deepcopy(DEFAULTS)
        cfg.setdefault("t4", {})["weight_min"] = lo
        cfg["t4"]["weight_max"] = hi
        if eps is not None:
            cfg.setdefault("graph", {}).setdefault("decay", {})["epsilon_prune"] = eps
        v = validate_config(cfg)
        g = v.get("graph") or {}
        keep_g = {k: g[k] for k in ("weight_min", "weight_max") if k in g}
        if isinstance(g.get("decay"), dict) and "epsilon_prune" in g["decay"]:
            keep_g["decay"] = {"epsilon_prune": g["decay"]["epsilon_prune"]}
        _VALID_CACHE[key] = {"t4": {"weight_min": v["t4"]["weight_min"], "weight_max": v["t4"]["weight_max"]},
                             "graph": keep_g}
    return _copy(_VALID_CACHE[key])


def bounds_req(cfg: dict) -> dict:
    """The dictionary look-ups of `_graph_bounds_from_cfg` (floats as bit strings)."""
    g = cfg.get("graph") or {}
    t4 = cfg.get("t4") or {}
    out = {}
    if "weight_min" in g:
        out["gmin"] = fkey(g["weight_min"])
    if "weight_min" in t4:
        out["tmin"] = fkey(t4["weight_min"])
    if "weight_max" in g:
        out["gmax"] = fkey(g["weight_max"])
    if "weight_max" in t4:
        out["tmax"] = fkey(t4["weight_max"])
    d = g.get("decay") or {}
    if "epsilon_prune" in d:
        out["eps"] = fkey(d["epsilon_prune"])
    return out


def eff_bounds(cfg: dict) -> Tuple[float, float, float]:
    b = bounds_req(cfg)
    lo = b2f(b["gmin"]) if "gmin" in b else (b2f(b["tmin"]) if "tmin" in b else -1.0)
    hi = b2f(b["gmax"]) if "gmax" in b else (b2f(b["tmax"]) if "tmax" in b else 1.0)
    e = b2f(b["eps"]) if "eps" in b else 0.0
    if not (lo < hi):
        lo, hi = -1.0, 1.0
    if e < 0:
        e = 0.0
    return lo, hi, e


NUMERIC_STRINGS = ["0.5", "-1.25", "3", "+0.75", "1.0000004", ".5", "2.", "-0", "0.1234565", "nan", "NaN", "-nan", "inf",
                   "-inf", "Infinity", "-INFINITY", "0.30000000000000004", "123456789.123456789"]
NON_NUMERIC_STRINGS = ["abc", "", "1,5", "0x10", "--1", ".", "+", "1.2.3", "in", "nane"]


def gen_weight(rng: random.Random, lo: float, hi: float, malformed: bool) -> Any:
    r = rng.random()
    if r < 0.25:
        return rng.uniform(-2, 2)
    if r < 0.4:
        return rng.randrange(-1500000, 1500000) / 1e6
    if r < 0.55:
        base = rng.choice([lo, hi, 0.0])
        if base != base or math.isinf(base):
            base = 0.0
        return base + rng.choice([0.0, 1e-7, -1e-7, 5e-7, -5e-7, 4.9e-7, 1e-12, -1e-12, 1e-3, -1e-3])
    if r < 0.59:
        return float("nan")
    if r < 0.65:
        return rng.choice([float("inf"), float("-inf"), -0.0, 0.0, 1e-320, 1e300, -1e300])
    if r < 0.72:
        return rng.choice([0, 1, -1, 2, True, False, 10 ** 6])
    if r < 0.8:
        return (2 * rng.randrange(0, 10 ** 6) + 1) * 5e-7 * rng.choice([1, -1])
    if r < 0.85:
        return rng.choice([1e-7, -1e-7, 5e-7, 0.05, 0.049999999, 0.6, 0.59, 1.0000004, 0.9999996])
    if r < 0.88:
        return rng.choice(NUMERIC_STRINGS)
    if malformed and r < 0.93:
        return rng.choice([None, [1], {"x": 1}] + NON_NUMERIC_STRINGS)
    return rng.uniform(lo if math.isfinite(lo) else -2, hi if math.isfinite(hi) else 2)


def gen_attrs(rng: random.Random) -> Any:
    return rng.choice([{}, {}, {"k": 1.5, "z": [1, "x", None], "a": None}, None, "s", {"é": {"n": 1}}, [1, 2], 0])


def gen_edge(rng: random.Random, ids: List[str], lo, hi, malformed: bool) -> Any:
    if malformed and rng.random() < 0.06:
        return rng.choice([None, 5, "edge", [1, 2], True])
    ed: dict = {}
    for k in ("src", "dst"):
        r = rng.random()
        if r < 0.9:
            ed[k] = rng.choice(ids)
        elif r < 0.94:
            ed[k] = rng.choice([None, 1, 0, True, 12])
        # else: missing
    r = rng.random()
    if r < 0.75:
        ed["rel"] = rng.choice(RELS[:3] if rng.random() < 0.8 else RELS)
    elif r < 0.8:
        ed["rel"] = rng.choice([None, 3])
    if rng.random() < 0.93:
        ed["weight"] = gen_weight(rng, lo, hi, malformed)
    r = rng.random()
    if r < 0.4:
        ed["updated_at"] = rng.choice(["2024-01-01T00:00:00Z", None, 17, 1.5])
    if rng.random() < 0.6:
        ed["attrs"] = gen_attrs(rng)
    if rng.random() < 0.15:
        ed["id"] = rng.choice(["zz", "a→b", None])
    if rng.random() < 0.1:
        ed["extra"] = [1, {"q": 2.25}]
    keys = list(ed.keys())
    rng.shuffle(keys)
    return {k: ed[k] for k in keys}


def gen_gel(rng: random.Random, lo: float, hi: float, malformed: bool) -> Any:
    r = rng.random()
    if r < 0.04:
        return rng.choice([None, {}, [], "g", 0, {"nodes": {}, "edges": {}}])
    nid = rng.choice([2, 3, 4, 6])
    ids = rng.sample(IDS, nid)
    if rng.random() < 0.5:
        ids += ["a", "b"]
    gel: dict = {}
    # nodes
    r = rng.random()
    if r < 0.45:
        gel["nodes"] = {i: rng.choice([{"id": i, "label": "L" + i}, {"id": i}, None, {"label": "é", "x": 1.25}, 3])
                        for i in ids}
    elif r < 0.85:
        lst: list = []
        for i in ids + ([rng.choice(ids)] if rng.random() < 0.4 else []):
            q = rng.random()
            if q < 0.75:
                lst.append({"id": i, "label": "L" + i, "v": rng.choice([1, 1.5, None])})
            elif q < 0.8:
                lst.append({"label": "noid"})
            elif q < 0.85:
                lst.append(rng.choice([None, {}, 0, "", []]))
            elif q < 0.9:
                lst.append({"id": rng.choice([None, 7, True])})
            elif malformed and q < 0.95:
                lst.append(rng.choice([5, "node", [1]]))
            else:
                lst.append({"id": i})
        gel["nodes"] = lst
    elif r < 0.9:
        gel["nodes"] = rng.choice([None, "n", 5])
    # edges
    ne = rng.choice([0, 1, 2, 3, 5, 8])
    eds = [gen_edge(rng, ids, lo, hi, malformed) for _ in range(ne)]
    # force collapses: same pair other orientation / other rel
    if eds and rng.random() < 0.5:
        base = rng.choice([e for e in eds if isinstance(e, dict)] or [{}])
        if "src" in base and "dst" in base:
            twin = dict(base)
            if rng.random() < 0.6:
                twin["src"], twin["dst"] = base["dst"], base["src"]
            if rng.random() < 0.6:
                twin["rel"] = rng.choice(RELS)
            twin["weight"] = gen_weight(rng, lo, hi, False)
            eds.insert(rng.randrange(len(eds) + 1), twin)
    r = rng.random()
    if r < 0.5:
        gel["edges"] = eds
    elif r < 0.92:
        gel["edges"] = {rng.choice(["e%d" % j, "a→b", "a__b__r", str(j)]): e for j, e in enumerate(eds)}
    elif r < 0.96:
        gel["edges"] = rng.choice([None, "e", 3])
    # meta
    r = rng.random()
    if r < 0.45:
        pass
    elif r < 0.85:
        m: dict = {}
        if rng.random() < 0.6:
            m["merges"] = rng.choice([[], [["a", "b"]], [{"x": 1}], "no", None])
        if rng.random() < 0.4:
            m["splits"] = rng.choice([[], [1, 2.5], {}, 0])
        if rng.random() < 0.4:
            m["promotions"] = rng.choice([[], ["p"], None])
        if rng.random() < 0.6:
            m["concept_nodes_count"] = rng.choice([0, 3, -2, True, 2.7, -2.7, "x", None, [1], float("nan"), float("inf")])
        if rng.random() < 0.3:
            m["last_update"] = rng.choice(["2024-05-05", None, 5])
        if rng.random() < 0.3:
            m["schema"] = rng.choice(["v1", "v1.1", 3])
        if rng.random() < 0.3:
            m["edges_count"] = rng.choice([0, 99])
        if rng.random() < 0.2:
            m["extra"] = {"k": [1]}
        gel["meta"] = m
    elif r < 0.93:
        gel["meta"] = rng.choice([None, {}, 0, "", []])
    elif malformed:
        gel["meta"] = rng.choice([[1], "m", 5, True])
    keys = list(gel.keys())
    rng.shuffle(keys)
    return {k: gel[k] for k in keys}


def _final_key(ed: dict) -> str:
    src, dst, rel = str(ed.get("src", "")), str(ed.get("dst", "")), str(ed.get("rel", "coact"))
    if src and dst:
        return f"{src}→{dst}" if src <= dst else f"{dst}→{src}"
    a, b = (src, dst) if src <= dst else (dst, src)
    return f"{a}__{b}__{rel}"


def weight_pairs(gs: Any, edges_out: dict) -> List[List[str]]:
    """(input weight, stored weight) for every stored edge that comes from exactly one input edge:
    what the documented pipeline must map to what (decided by Lean's `sw`)."""
    if not isinstance(gs, dict):
        return []
    ein = gs.get("edges", {})
    items = ein if isinstance(ein, list) else (list(ein.values()) if isinstance(ein, dict) else [])
    contrib: dict = {}
    for ed in items:
        if not isinstance(ed, dict):
            continue
        try:
            w = float(ed.get("weight", 0.0))
        except Exception:
            break  # the sanitiser's loop stops at the first unfloatable weight
        contrib.setdefault(_final_key(ed), []).append(w)
    out = []
    for k, ws in contrib.items():
        rec = edges_out.get(k) if isinstance(edges_out, dict) else None
        if len(ws) == 1 and isinstance(rec, dict) and isinstance(rec.get("weight"), float):
            out.append([fkey(ws[0]), fkey(rec["weight"])])
    return out


def meta_ok(g: Any) -> bool:
    if not isinstance(g, dict):
        return True
    m = g.get("meta")
    return (not m) or isinstance(m, dict)


# --------------------------------------------------------------------------
# stores and states
# --------------------------------------------------------------------------

class _OpaqueStore:
    def __init__(self, st=None):
        self.st = st

    def export_state(self):
        return self.st

    def import_state(self, st):
        self.st = st


class _WStore:
    def __init__(self, w=None):
        self.w = dict(w or {})


class _Other:
    pass


class _State:
    pass


def gen_store(rng: random.Random) -> dict:
    r = rng.random()
    if r < 0.2:
        return {"kind": "absent"}
    if r < 0.27:
        return {"kind": "other"}
    if r < 0.45:
        return {"kind": "opaque", "st": rng.choice([None, {"w": [1, 2.5, "é"], "n": {"k": None}}, [1, 2], "s", 7, {}])}
    w = []
    seen = set()
    for _ in range(rng.choice([0, 1, 2, 4, 7])):
        n = 3 if rng.random() < 0.85 else rng.choice([2, 4, 1])
        key = [rng.choice(["node", "edge", "é"]), rng.choice(IDS), rng.choice(["weight", "bias", ""]), "x"][:n] \
            if n <= 4 else []
        if tuple(key) in seen:
            continue
        seen.add(tuple(key))
        v = rng.choice([rng.uniform(-3, 3), 0.0, -0.0, 1, -2, float("nan"), float("inf"), 1e-9, 0.1 + 0.2,
                        rng.randrange(-10 ** 6, 10 ** 6) / 1e6])
        w.append([key, v])
    return {"kind": "wmap", "w": w}


def mk_store(sd: dict, fresh: bool = False):
    k = sd["kind"]
    if k == "absent":
        return None
    if k == "other":
        return _Other()
    if k == "opaque":
        return _OpaqueStore(None if fresh else sd["st"])
    return _WStore({} if fresh else {tuple(key): v for key, v in sd["w"]})


def store_req(sd: dict, fresh: bool = False) -> dict:
    k = sd["kind"]
    if k in ("absent", "other"):
        return {"kind": k}
    if k == "opaque":
        return {"kind": k, "st": enc(None if fresh else sd["st"])}
    return {"kind": k, "w": [] if fresh else [[[cps(p) for p in key], fkey(v)] for key, v in sd["w"]]}


def obs_store(store: Any) -> dict:
    if store is None:
        return {"kind": "absent"}
    if isinstance(store, _Other):
        return {"kind": "other"}
    if isinstance(store, _OpaqueStore):
        return {"kind": "opaque", "st": enc(store.st)}
    return {"kind": "wmap", "w": [[[cps(p) for p in key], fkey(v)] for key, v in store.w.items()]}


def mk_state(as_dict: bool, store, graph, gel, has_graph: bool, has_gel: bool):
    if as_dict:
        s: Any = {"store": store}
        if has_graph:
            s["graph"] = graph
        if has_gel:
            s["gel"] = gel
        return s
    s = _State()
    s.store = store
    if has_graph:
        s.graph = graph
    if has_gel:
        s.gel = gel
    return s


def sget(state, k, default=None):
    if isinstance(state, dict):
        return state.get(k, default)
    return getattr(state, k, default)


def mk_ctx(case: dict, d: str):
    cfg = _copy(case["cfg"])
    cfg.setdefault("t4", {})
    if cfg["t4"] is None:
        cfg["t4"] = {}
    cfg["t4"]["snapshot_dir"] = d
    via = case.get("via", "cfg")
    kw = {"turn_id": case["turn"], "agent_id": case["agent"]}
    if via == "cfg":
        return NS(cfg=cfg, **kw)
    if via == "config":
        return NS(config=cfg, **kw)
    return NS(cfg=NS(**cfg), **kw)


def _copy(v):
    if isinstance(v, dict):
        return {k: _copy(x) for k, x in v.items()}
    if isinstance(v, list):
        return [_copy(x) for x in v]
    return v


def _mkdtemp(prefix: str) -> str:
    return tempfile.mkdtemp(prefix=prefix, dir=_SCRATCH)


class _Env:
    def __enter__(self):
        self.old = os.environ.get("SOURCE_DATE_EPOCH")
        os.environ["SOURCE_DATE_EPOCH"] = EPOCH
        return self

    def __exit__(self, *a):
        if self.old is None:
            os.environ.pop("SOURCE_DATE_EPOCH", None)
        else:
            os.environ["SOURCE_DATE_EPOCH"] = self.old


def delta_objs(ds):
    if ds is None:
        return None
    return [NS(**d) for d in ds]


def delta_expected(ds):
    if not ds:
        return []
    return [{"target_kind": d["target_kind"], "target_id": d["target_id"], "attr": d["attr"],
             "delta": float(d["delta"]), "op_idx": d.get("op_idx"), "idx": d.get("idx")} for d in ds]



class Wrapped(Component):
    """Cases are stored in the order- and bit-preserving wire form (`enc`), so that replay files
    (which core canonicalises: sorted keys, floats as bit objects) reproduce dict insertion order
    and float bits exactly.  Subclasses work on the decoded raw case."""

    def gen(self, rng, i):
        return {"w": enc(self.gen_raw(rng, i))}

    def _raw(self, case):
        c = dec(case["w"])
        if "listing" in case:
            c["listing"] = case["listing"]
        return c

    def impl(self, case):
        c = self._raw(case)
        out = self.impl_raw(c)
        if "listing" in c:
            case["listing"] = c["listing"]
        return out

    def request(self, case):
        return self.request_raw(self._raw(case))

    def compare(self, case, io, mo):
        return self.compare_raw(self._raw(case), io, mo)

    def compare_raw(self, case, io, mo):
        return Component.compare(self, case, io, mo)

    def monitors(self, case, io):
        return self.monitors_raw(self._raw(case), io)

    def monitors_raw(self, case, io):
        return []

    def monitor_requests(self, case, io):
        return self.monitor_requests_raw(self._raw(case), io)

    def monitor_requests_raw(self, case, io):
        return []

    def tags(self, case, io):
        return self.tags_raw(self._raw(case), io)

    def tags_raw(self, case, io):
        return ["default"]

    def shrink(self, case):
        for c in self.shrink_raw(self._raw(case)):
            c.pop("listing", None)
            yield {"w": enc(c)}

    def shrink_raw(self, case):
        return []


# --------------------------------------------------------------------------
# component 1: write → load → write → load → write on the real code
# --------------------------------------------------------------------------

class ChainComp(Wrapped):
    name = "snap.chain"
    budget = {"quick": 700, "thorough": 20000, "search": 5000}

    def gen_raw(self, rng: random.Random, i: int) -> dict:
        malformed = rng.random() < 0.25
        cfg = gen_validated_bounds(rng) if rng.random() < 0.2 else gen_bounds(rng)
        lo, hi, _ = eff_bounds(cfg)
        has_graph = rng.random() < 0.85
        has_gel = rng.random() < 0.3
        graph = gen_gel(rng, lo, hi, malformed) if has_graph else None
        gel = gen_gel(rng, lo, hi, malformed) if has_gel else None
        r = rng.random()
        version = rng.choice(["v1", "7", "", "é→", "etag-000123"]) if r < 0.85 else rng.choice([5, None, True, 0])
        ds = rng.choice([None, [], [{"target_kind": "node", "target_id": "a", "attr": "weight", "delta": 0.25, "op_idx": 0, "idx": 1},
                                    {"target_kind": "edge", "target_id": "é", "attr": "w", "delta": -1}]])
        return {"cfg": cfg, "via": rng.choice(["cfg", "cfg", "config", "ns"]),
                "turn": rng.choice([0, 1, 7, 123, True, None, "abc", 2.7, -3]),
                "agent": rng.choice(["A", "agent", "Ambrose", "é_1", "x.y"]),
                "version": version, "applied": rng.choice([0, 0, 1, 5]), "deltas": ds,
                "store": gen_store(rng), "as_dict": rng.random() < 0.4,
                "graph": graph, "gel": gel, "has_graph": has_graph, "has_gel": has_gel}

    # ---- implementation --------------------------------------------------
    def impl_raw(self, case: dict) -> Any:
        from clematis.engine.snapshot import write_snapshot, load_latest_snapshot
        d = _mkdtemp("chain_")
        try:
            with _Env():
                ctx = mk_ctx(case, d)
                st = mk_state(case["as_dict"], mk_store(case["store"]), _copy(case["graph"]), _copy(case["gel"]),
                              case["has_graph"], case["has_gel"])
                out: dict = {"texts": []}
                version = case["version"]
                for step in (1, 2, 3):
                    path = write_snapshot(ctx, st, version, case["applied"], delta_objs(case["deltas"]))
                    with open(path, "rb") as f:
                        raw = f.read()
                    text = raw.decode("utf-8")
                    out["texts"].append(text)
                    out[f"p{step}"] = enc(json.loads(text))
                    if step == 1:
                        out["path_ok"] = (os.path.basename(path) == f"state_{case['agent']}.json"
                                          and os.path.dirname(path) == d)
                        with open(path + ".meta", "r", encoding="utf-8") as f:
                            out["sidecar_text"] = f.read()
                        out["listing"] = sorted(os.listdir(d))
                    if step == 3:
                        break
                    fresh = mk_state(case["as_dict"], mk_store(case["store"], fresh=True), None, None, False, False)
                    ret = load_latest_snapshot(ctx, fresh)
                    g = sget(fresh, "graph")
                    ver = sget(fresh, "version_etag", None)
                    has_ver = ("version_etag" in fresh) if isinstance(fresh, dict) else hasattr(fresh, "version_etag")
                    out[f"l{step}"] = {
                        "version": cps(ver) if has_ver and isinstance(ver, str) else None,
                        "store": obs_store(sget(fresh, "store")),
                        "graph": enc(g), "loaded": ret["loaded"], "ver": enc(ret["version_etag"]),
                    }
                    out[f"same_obj{step}"] = sget(fresh, "gel") is g
                    out[f"path{step}"] = ret["path"] == path
                    st = fresh
                    version = ver if has_ver else None
                return out
        finally:
            shutil.rmtree(d, ignore_errors=True)

    def request_raw(self, case: dict) -> dict:
        return {"c": "snap.chain", "bounds": bounds_req(case["cfg"]), "created": cps(CREATED),
                "in": self._write_in(case), "fresh": store_req(case["store"], fresh=True)}

    @staticmethod
    def _write_in(case: dict) -> dict:
        return {"turn": enc(case["turn"]), "agent": enc(case["agent"]), "version": enc(case["version"]),
                "applied": case["applied"], "deltas": enc(delta_expected(case["deltas"])),
                "store": store_req(case["store"]),
                "graph": enc(case["graph"] if case["has_graph"] else None),
                "gel": enc(case["gel"] if case["has_gel"] else None)}

    def compare_raw(self, case, impl_out, model_out):
        if isinstance(impl_out, dict) and "__raised__" in impl_out:
            return f"implementation raised {impl_out}"
        if not isinstance(model_out, dict) or "__model_err__" in model_out:
            return f"model error {model_out}"
        for k in ("p1", "l1", "p2", "l2", "p3"):
            a, b = impl_out.get(k), model_out.get(k)
            if a != b:
                from harness.core import first_diff
                return f"{k}: " + first_diff(a, b)
        # bytes: json.dumps of the model's ordered value is the file body
        for n, k in enumerate(("p1", "p2", "p3")):
            if json.dumps(dec(model_out[k])) != impl_out["texts"][n]:
                return f"{k}: file bytes differ from json.dumps(model value)"
        return None

    # ---- monitors --------------------------------------------------------
    def _hyp_fix(self, case) -> bool:
        gs = (case["graph"] if case["has_graph"] else None) or (case["gel"] if case["has_gel"] else None)
        return isinstance(case["version"], str) and meta_ok(gs)

    def monitors_raw(self, case, io):
        res = []
        t = io["texts"]
        p1 = json.loads(t[0])
        res.append(("schema_marker_body", p1.get("schema_version") == "v1", f"schema_version={p1.get('schema_version')!r}"))
        sc = io["sidecar_text"]
        try:
            scj = json.loads(sc)
        except Exception:
            scj = None
        res.append(("schema_marker_sidecar",
                    isinstance(scj, dict) and scj.get("schema_version") == "v1" and sc.endswith("\n")
                    and scj.get("created_at") == CREATED, f"sidecar {sc!r}"))
        res.append(("write_leaves_only_body_and_sidecar",
                    io["listing"] == sorted([f"state_{case['agent']}.json", f"state_{case['agent']}.json.meta"]) and io["path_ok"],
                    f"listing {io['listing']}"))
        res.append(("load_picks_written_file", io["path1"] and io["path2"], "load_latest_snapshot path differs from the written path"))
        res.append(("graph_gel_same_object", io["same_obj1"] and io["same_obj2"], "state.graph is not state.gel after load"))
        # restored version
        v = case["version"]
        exp = None if v is None else cps(str(v))
        res.append(("version_restored", io["l1"]["version"] == exp, f"version {io['l1']['version']} expected {exp}"))
        # restored store
        sd = case["store"]
        if sd["kind"] == "wmap":
            expw = [[[cps(p) for p in key], fkey(val)] for key, val in sd["w"] if len(key) == 3]
            res.append(("store_weights_restored", io["l1"]["store"] == {"kind": "wmap", "w": expw},
                        f"store {json.dumps(io['l1']['store'])[:200]}"))
        elif sd["kind"] == "opaque":
            res.append(("store_state_restored", io["l1"]["store"] == {"kind": "opaque", "st": enc(json.loads(json.dumps(sd['st'])))},
                        f"store {json.dumps(io['l1']['store'])[:200]}"))
        # restored graph = written gel section
        from harness.core import _canon
        res.append(("graph_restored_equals_written", _canon(dec(io["l1"]["graph"])) == _canon(p1.get("gel")),
                    "state.graph after load differs (as a Python value) from the gel section of the file"))
        # weights within bounds up to rounding, 6 decimals, finite
        lo, hi, eps = eff_bounds(case["cfg"])
        ok, why = True, ""
        for k, e in (p1.get("gel", {}).get("edges", {}) or {}).items():
            w = e.get("weight")
            if not isinstance(w, float) or not math.isfinite(w):
                ok, why = False, f"edge {k!r} weight {w!r} not a finite float"
                break
            if round(w, 6) != w and w == w:
                ok, why = False, f"edge {k!r} weight {w!r} has more than 6 decimals"
                break
            inb = (round(lo, 6) if math.isfinite(lo) else lo) <= w <= (round(hi, 6) if math.isfinite(hi) else hi)
            if not (inb or (w == 0.0 and eps > 0)):
                ok, why = False, f"edge {k!r} weight {w!r} outside [{lo},{hi}] (rounded) and not ε-pruned (eps={eps})"
                break
        res.append(("weights_clamped_rounded", ok, why))
        # documented NaN rule, readable twin of the Lean `swmap` monitor: NaN -> in-bounds value nearest 0.0
        gs_in = (case["graph"] if case["has_graph"] else None) or (case["gel"] if case["has_gel"] else None)
        e0 = min(max(0.0, lo), hi)
        e0 = round(e0, 6) if math.isfinite(e0) else 0.0
        if abs(e0) < eps:
            e0 = 0.0
        for where, eo_ in (("file", p1.get("gel", {}).get("edges", {})), ("state after load", dec(io["l1"]["graph"]).get("edges", {}))):
            badn = [(b2f(a), b2f(b_)) for a, b_ in weight_pairs(gs_in, eo_) if b2f(a) != b2f(a) and b2f(b_) != e0]
            res.append(("nan_weight_maps_to_inbounds_value_nearest_zero", not badn,
                        f"{where}: NaN edge weight stored as {[b_ for _, b_ in badn][:3]}, documented value {e0} for bounds [{lo},{hi}] eps={eps}"))
        # byte fixpoint on the REAL code
        if self._hyp_fix(case):
            res.append(("byte_fixpoint_2", t[1] == t[0], "write(load(write s)) != write s"))
            res.append(("byte_fixpoint_3", t[2] == t[1], "third write differs from second"))
        else:
            # from the second write on the hypotheses hold unconditionally
            res.append(("byte_fixpoint_3", t[2] == t[1], "third write differs from second"))
        return res

    def monitor_requests_raw(self, case, io):
        rq = [("lean.marker", {"c": "snap.mon", "k": "marker", "p": io["p1"]})]
        p1 = json.loads(io["texts"][0])
        ws = [fkey(e["weight"]) for e in (p1.get("gel", {}).get("edges", {}) or {}).values()
              if isinstance(e.get("weight"), float)]
        rq.append(("lean.weights_are_sw_fixed_points",
                   {"c": "snap.mon", "k": "swfix", "bounds": bounds_req(case["cfg"]), "xs": ws}))
        gs = (case["graph"] if case["has_graph"] else None) or (case["gel"] if case["has_gel"] else None)
        pw = weight_pairs(gs, p1.get("gel", {}).get("edges", {}))
        if pw:
            rq.append(("lean.written_weight_is_documented_clamp_of_input",
                       {"c": "snap.mon", "k": "swmap", "bounds": bounds_req(case["cfg"]), "pairs": pw}))
        try:
            restored = dec(io["l1"]["graph"]).get("edges", {})
        except Exception:
            restored = {}
        pr = weight_pairs(gs, restored)
        if pr:
            rq.append(("lean.restored_weight_is_documented_clamp_of_input",
                       {"c": "snap.mon", "k": "swmap", "bounds": bounds_req(case["cfg"]), "pairs": pr}))
        if self._hyp_fix(case):
            rq.append(("lean.fixpoint_on_impl_body",
                       {"c": "snap.mon", "k": "fixpoint", "bounds": bounds_req(case["cfg"]),
                        "in": self._write_in(case), "fresh": store_req(case["store"], fresh=True), "p": io["p1"]}))
        return rq

    def tags_raw(self, case, io):
        t = set()
        p1 = json.loads(io["texts"][0])
        gs = (case["graph"] if case["has_graph"] else None) or (case["gel"] if case["has_gel"] else None)
        edges_in = gs.get("edges") if isinstance(gs, dict) else None
        n_in = len(edges_in) if isinstance(edges_in, (list, dict)) else 0
        eo = p1["gel"]["edges"]
        if n_in and len(eo) < n_in:
            t.add("edges_collapsed_or_dropped")
        if any("id" not in e for e in eo.values()):
            t.add("empty_endpoint_key_kept")
        lo, hi, eps = eff_bounds(case["cfg"])
        its = edges_in if isinstance(edges_in, list) else (list(edges_in.values()) if isinstance(edges_in, dict) else [])
        for e in its:
            if isinstance(e, dict):
                w = e.get("weight", 0.0)
                if isinstance(w, float) and w != w:
                    t.add("nan_weight")
                elif isinstance(w, float) and math.isinf(w):
                    t.add("inf_weight")
                elif isinstance(w, (int, float)) and not isinstance(w, bool) and (w < lo or w > hi):
                    t.add("clamped")
                elif isinstance(w, str) and w in NUMERIC_STRINGS:
                    t.add("weight_numeric_string")
                elif not isinstance(w, (int, float)):
                    t.add("weight_unfloatable")
                if isinstance(w, float) and w == w and round(w, 6) != w:
                    t.add("rounded")
        if any(e["weight"] == 0.0 for e in eo.values()) and eps > 0:
            t.add("maybe_pruned")
        if not (lo <= 0.0 <= hi):
            t.add("zero_outside_bounds")
        if not meta_ok(gs):
            t.add("meta_fallback")
        if isinstance(gs, dict) and isinstance(gs.get("nodes"), list):
            t.add("nodes_list_form")
        if isinstance(edges_in, dict):
            t.add("edges_dict_form")
        if not isinstance(case["version"], str):
            t.add("version_not_str")
        if case["store"]["kind"] in ("opaque", "wmap"):
            t.add("store_" + case["store"]["kind"])
        if any(ord(c) > 127 for k in eo for c in k.replace("→", "")):
            t.add("unicode_ids")
        if io["texts"][0] != io["texts"][1]:
            t.add("first_rewrite_differs")
        return sorted(t) or ["default"]

    def shrink_raw(self, case):
        for fld in ("graph", "gel"):
            g = case.get(fld)
            if isinstance(g, dict):
                for k in list(g.keys()):
                    c = _copy(case)
                    del c[fld][k]
                    yield c
                for k in ("edges", "nodes"):
                    v = g.get(k)
                    if isinstance(v, list):
                        for i in range(len(v)):
                            c = _copy(case)
                            del c[fld][k][i]
                            yield c
                    elif isinstance(v, dict):
                        for kk in list(v.keys()):
                            c = _copy(case)
                            del c[fld][k][kk]
                            yield c
        if case["store"]["kind"] != "absent":
            c = _copy(case)
            c["store"] = {"kind": "absent"}
            yield c
        if case["deltas"]:
            c = _copy(case)
            c["deltas"] = None
            yield c




# --------------------------------------------------------------------------
# component 1c: the documented per-weight clamp, end to end (write -> file -> load into state)
# --------------------------------------------------------------------------

WEIGHT_BOUNDS = [(-1.0, 1.0), (0.0, 1.0), (0.2, 0.9), (0.2, 0.9), (0.5, 1.0), (-0.9, -0.2), (-1.0, -0.25), (0.5, 0.5), (0.0, 0.0),
                 (1.0, -1.0), (-0.1234567, 0.7654321), (0.1234565, 0.9), (-1, 1), (float("-inf"), float("inf")),
                 (0.5, float("inf")), (float("-inf"), -0.5), (float("nan"), 1.0)]
SPECIAL_WEIGHTS = [float("nan"), float("nan"), float("inf"), float("-inf"), -0.0, 0.0, 1e300, -1e300, 5.0, -5.0, 1.0000004,
                   True, False, 1, -1, 2, 0, "nan", "NaN", "-nan", "inf", "-inf", "Infinity", "0.5", "-1.25", "3", ".5", "2.",
                   "0.1234565", 0.15, 0.95, 0.2, 0.9, 0.19999995, 0.90000005, 1e-7, -1e-7, 0.55]


class WeightComp(ChainComp):
    """Small graphs with pairwise distinct endpoints, every edge weight from the special set
    (NaN / ±inf / far out of range / bool / int / numeric string / boundary), under bounds with 0
    inside, 0 outside ([0.2, 0.9], negative), degenerate (lo == hi, inverted, NaN) and infinite."""
    name = "snap.weights"
    budget = {"quick": 300, "thorough": 5000, "search": 4000}

    def gen_raw(self, rng, i):
        lo, hi = rng.choice(WEIGHT_BOUNDS)
        where = rng.random()
        cfg: dict = {}
        if where < 0.5:
            cfg["t4"] = {"weight_min": lo, "weight_max": hi}
        elif where < 0.8:
            cfg["graph"] = {"weight_min": lo, "weight_max": hi}
        else:
            cfg["graph"] = {"weight_min": lo}
            cfg["t4"] = {"weight_max": hi}
        e = rng.choice([None, None, None, 0.0, 1e-6, 0.05, 0.6])
        if e is not None:
            cfg.setdefault("graph", {})["decay"] = {"epsilon_prune": e}
        elo, ehi, _ = eff_bounds(cfg)
        n = rng.choice([1, 1, 2, 3, 5])
        ids = ["n%d" % k for k in range(n + 1)]
        eds = []
        for k in range(n):
            w = rng.choice(SPECIAL_WEIGHTS) if rng.random() < 0.8 else gen_weight(rng, elo, ehi, False)
            ed = {"src": ids[k], "dst": ids[k + 1], "rel": rng.choice(["coact", "r"]), "weight": w}
            if rng.random() < 0.3:
                ed["src"], ed["dst"] = ed["dst"], ed["src"]
            eds.append(ed)
        graph = {"nodes": {x: {"id": x} for x in ids},
                 "edges": eds if rng.random() < 0.5 else {"e%d" % j: e_ for j, e_ in enumerate(eds)}}
        return {"cfg": cfg, "via": rng.choice(["cfg", "cfg", "config", "ns"]), "turn": 1, "agent": "A",
                "version": "v1", "applied": 0, "deltas": None, "store": {"kind": "absent"},
                "as_dict": rng.random() < 0.3, "graph": graph, "gel": None, "has_graph": True, "has_gel": False}

# --------------------------------------------------------------------------
# component 1b: HISTORIES — several loads of one unchanged file in one process, with in-place
# mutation of the earlier loaded states in between (stale-state / aliasing bugs)
# --------------------------------------------------------------------------

MUT_OPS = ["node_field", "node_nested", "node_add", "node_del", "edge_attrs", "edge_field", "edge_add", "edge_del",
           "meta_append", "meta_field", "store_set", "store_clear", "store_nested", "graph_key"]


def gen_rich_gel(rng: random.Random, lo: float, hi: float) -> dict:
    """Graphs whose loaded form is full of mutable containers: dict node records with nested
    containers, dict `attrs` on edges, non-empty meta lists."""
    ids = rng.sample([i for i in IDS if i], rng.choice([2, 3, 4]))
    recs = [{"id": i, "label": "L" + i, "attrs": {"tags": ["t", i], "n": rng.choice([1, 2.5, None])}} for i in ids]
    nodes: Any = {r["id"]: r for r in recs} if rng.random() < 0.6 else recs
    eds = []
    for _ in range(rng.choice([1, 2, 3, 4])):
        a, b = rng.choice(ids), rng.choice(ids)
        eds.append({"src": a, "dst": b, "rel": rng.choice(RELS[:3]), "weight": gen_weight(rng, lo, hi, False),
                    "attrs": rng.choice([{"k": [1, 2], "d": {"x": 1}}, {"seen": 3}, {}]),
                    "updated_at": rng.choice([None, "2024-01-01T00:00:00Z"])})
    edges: Any = eds if rng.random() < 0.5 else {"e%d" % j: e for j, e in enumerate(eds)}
    meta = {"merges": rng.choice([[], [["a", "b"]]]), "splits": rng.choice([[], [{"of": "a"}]]),
            "promotions": rng.choice([[], ["p1"], [{"id": "c1", "members": ["a", "b"]}]]),
            "concept_nodes_count": rng.choice([0, 2])}
    return {"nodes": nodes, "edges": edges, "meta": meta}


def _graph_of(state):
    return sget(state, "graph")


def apply_mutation(state, op: dict) -> bool:
    """In-place mutation of a loaded state (never touches the file). True when something changed."""
    g = _graph_of(state)
    k, i = op["op"], op["i"]
    store = sget(state, "store")
    try:
        if k.startswith("node") and isinstance(g, dict) and isinstance(g.get("nodes"), dict):
            nodes = g["nodes"]
            keys = list(nodes.keys())
            if k == "node_add":
                nodes["zz_mut%d" % i] = {"id": "zz_mut", "label": "MUT"}
                return True
            if not keys:
                return False
            nk = keys[i % len(keys)]
            if k == "node_del":
                del nodes[nk]
                return True
            rec = nodes[nk]
            if k == "node_field" and isinstance(rec, dict):
                rec["label"] = "MUT%d" % i
                return True
            if k == "node_nested" and isinstance(rec, dict):
                a = rec.get("attrs")
                if isinstance(a, dict):
                    if isinstance(a.get("tags"), list):
                        a["tags"].append("mut")
                    else:
                        a["mut"] = i
                    return True
                for v in rec.values():
                    if isinstance(v, list):
                        v.append("mut")
                        return True
                    if isinstance(v, dict):
                        v["mut"] = i
                        return True
            return False
        if k.startswith("edge") and isinstance(g, dict) and isinstance(g.get("edges"), dict):
            edges = g["edges"]
            keys = list(edges.keys())
            if k == "edge_add":
                edges["m→n%d" % i] = {"src": "m", "dst": "n%d" % i, "rel": "mut", "weight": 0.5, "updated_at": None, "attrs": {}, "id": "m→n%d" % i}
                return True
            if not keys:
                return False
            ek = keys[i % len(keys)]
            if k == "edge_del":
                del edges[ek]
                return True
            rec = edges[ek]
            if k == "edge_field" and isinstance(rec, dict):
                rec["weight"] = 0.111111 if rec.get("weight") != 0.111111 else 0.222222
                rec["rel"] = "mutrel"
                return True
            if k == "edge_attrs" and isinstance(rec, dict):
                a = rec.get("attrs")
                if isinstance(a, dict):
                    for v in a.values():
                        if isinstance(v, list):
                            v.append("mut")
                            return True
                    a["mut"] = i
                    return True
                if isinstance(a, list):
                    a.append("mut")
                    return True
            return False
        if k.startswith("meta") and isinstance(g, dict) and isinstance(g.get("meta"), dict):
            m = g["meta"]
            if k == "meta_append":
                name = ["promotions", "merges", "splits"][i % 3]
                if isinstance(m.get(name), list):
                    m[name].append({"mut": i})
                    return True
                return False
            m["concept_nodes_count"] = 90 + i
            return True
        if k == "graph_key" and isinstance(g, dict):
            g["nodes"] = {}
            return True
        if k.startswith("store") and store is not None:
            if isinstance(store, _WStore):
                if k == "store_clear":
                    changed = bool(store.w)
                    store.w.clear()
                    return changed
                ks = list(store.w.keys())
                if k == "store_set" and ks and i % 2:
                    store.w[ks[i % len(ks)]] = 7.5 + i
                else:
                    store.w[("node", "mut%d" % i, "weight")] = 9.0
                return True
            if isinstance(store, _OpaqueStore):
                st = store.st
                if isinstance(st, dict):
                    for v in st.values():
                        if isinstance(v, list):
                            v.append("mut")
                            return True
                    st["mut"] = i
                    return True
                if isinstance(st, list):
                    st.append("mut")
                    return True
            return False
    except Exception:
        return False
    return False


def _containers(obj, acc: dict) -> None:
    if isinstance(obj, (dict, list)):
        if id(obj) in acc:
            return
        acc[id(obj)] = obj
        for v in (obj.values() if isinstance(obj, dict) else obj):
            _containers(v, acc)


def state_containers(state) -> dict:
    acc: dict = {}
    _containers(_graph_of(state), acc)
    st = sget(state, "store")
    if isinstance(st, _WStore):
        _containers(st.w, acc)
    elif isinstance(st, _OpaqueStore):
        _containers(st.st, acc)
    return acc


class HistoryComp(Wrapped):
    name = "snap.history"
    budget = {"quick": 250, "thorough": 5000, "search": 2000}

    def gen_raw(self, rng, i):
        cfg = gen_validated_bounds(rng) if rng.random() < 0.2 else gen_bounds(rng)
        lo, hi, _ = eff_bounds(cfg)
        graph = gen_rich_gel(rng, lo, hi) if rng.random() < 0.75 else gen_gel(rng, lo, hi, rng.random() < 0.2)
        r = rng.random()
        if r < 0.45:
            store = gen_store(rng)
        elif r < 0.75:
            store = {"kind": "wmap", "w": [[["node", x, "weight"], rng.choice([0.5, -1.25, 2])] for x in rng.sample(IDS, 3)]}
        else:
            store = {"kind": "opaque", "st": rng.choice([{"w": [1, 2.5, "é"], "n": {"k": None}}, [1, [2]], {"a": {}}])}
        nloads = rng.choice([2, 2, 3, 4])
        steps = []
        for j in range(nloads - 1):
            steps.append([{"op": rng.choice(MUT_OPS), "i": rng.randrange(0, 6), "target": rng.randrange(0, j + 1)}
                          for _ in range(rng.choice([1, 2, 3, 5]))])
        return {"cfg": cfg, "via": rng.choice(["cfg", "cfg", "config", "ns"]), "turn": rng.choice([0, 3, 17]),
                "agent": rng.choice(["A", "agent", "é_1"]),
                "version": rng.choice(["v1", "7", "é→", "etag-000123"]) if rng.random() < 0.9 else rng.choice([5, None]),
                "applied": rng.choice([0, 2]), "deltas": rng.choice([None, []]),
                "store": store, "as_dict": rng.random() < 0.4, "graph": graph, "gel": None,
                "has_graph": True, "has_gel": False, "steps": steps}

    def impl_raw(self, case):
        from clematis.engine.snapshot import write_snapshot, load_latest_snapshot
        d = _mkdtemp("hist_")
        d2 = _mkdtemp("hist2_")
        try:
            with _Env():
                ctx = mk_ctx(case, d)
                ctx2 = mk_ctx(case, d2)
                st0 = mk_state(case["as_dict"], mk_store(case["store"]), _copy(case["graph"]), None, True, False)
                path = write_snapshot(ctx, st0, case["version"], case["applied"], delta_objs(case["deltas"]))
                with open(path, "rb") as f:
                    F = f.read()
                stat0 = os.stat(path)
                out: dict = {"F": F.decode("utf-8"), "p1": enc(json.loads(F.decode("utf-8"))), "loads": [], "rewrites": [],
                             "shared": [], "applied_ops": []}
                states: list = []
                seen: dict = {}
                nloads = len(case["steps"]) + 1
                for j in range(nloads):
                    fresh = mk_state(case["as_dict"], mk_store(case["store"], fresh=True), None, None, False, False)
                    ret = load_latest_snapshot(ctx, fresh)
                    g = sget(fresh, "graph")
                    ver = sget(fresh, "version_etag", None)
                    has_ver = ("version_etag" in fresh) if isinstance(fresh, dict) else hasattr(fresh, "version_etag")
                    out["loads"].append({"version": cps(ver) if has_ver and isinstance(ver, str) else None,
                                         "store": obs_store(sget(fresh, "store")), "graph": enc(g),
                                         "loaded": ret["loaded"], "ver": enc(ret["version_etag"])})
                    # identity walk: no mutable container of this state is one handed out before
                    mine = state_containers(fresh)
                    out["shared"].append(sorted(type(o).__name__ + ":" + json.dumps(enc(o))[:80] for i_, o in mine.items() if i_ in seen)[:5])
                    seen.update(mine)
                    states.append(fresh)
                    # re-snapshot the freshly loaded state somewhere else: must reproduce F
                    p2 = write_snapshot(ctx2, fresh, ver if has_ver else None, case["applied"], delta_objs(case["deltas"]))
                    with open(p2, "rb") as f:
                        out["rewrites"].append(f.read().decode("utf-8"))
                    if j < nloads - 1:
                        for op in case["steps"][j]:
                            tgt = states[op["target"] % len(states)]
                            if apply_mutation(tgt, op):
                                out["applied_ops"].append(op["op"])
                with open(path, "rb") as f:
                    F_end = f.read()
                stat1 = os.stat(path)
                out["file_untouched"] = (F_end == F and (stat0.st_ino, stat0.st_mtime_ns, stat0.st_size)
                                         == (stat1.st_ino, stat1.st_mtime_ns, stat1.st_size))
                return out
        finally:
            shutil.rmtree(d, ignore_errors=True)
            shutil.rmtree(d2, ignore_errors=True)

    def request_raw(self, case):
        return {"c": "snap.chain", "bounds": bounds_req(case["cfg"]), "created": cps(CREATED),
                "in": ChainComp._write_in(case), "fresh": store_req(case["store"], fresh=True)}

    def compare_raw(self, case, io, mo):
        if isinstance(io, dict) and "__raised__" in io:
            return f"implementation raised {io}"
        if not isinstance(mo, dict) or "__model_err__" in mo:
            return f"model error {mo}"
        from harness.core import first_diff
        if io["p1"] != mo.get("p1"):
            return "file content: " + first_diff(io["p1"], mo.get("p1"))
        # every load is the model's load of the file CONTENT, whatever happened to earlier states
        for j, l in enumerate(io["loads"]):
            if l != mo.get("l1"):
                return f"load #{j} of the unchanged file: " + first_diff(l, mo.get("l1"))
        for j, t in enumerate(io["rewrites"]):
            if json.dumps(dec(mo["p2"])) != t:
                return f"re-snapshot after load #{j} differs from json.dumps(model value)"
        return None

    def _hyp_fix(self, case) -> bool:
        return isinstance(case["version"], str) and meta_ok(case["graph"])

    def monitors_raw(self, case, io):
        res = [("history_file_untouched", io["file_untouched"], "the snapshot file changed although nothing wrote it")]
        l0 = io["loads"][0]
        bad = [j for j, l in enumerate(io["loads"]) if l != l0]
        res.append(("history_load_is_a_function_of_the_file", not bad,
                    f"loads {bad} of the unchanged file differ from load 0 after in-place mutations {io['applied_ops']} of earlier loaded states"))
        sh = [(j, s_) for j, s_ in enumerate(io["shared"]) if s_]
        res.append(("history_no_shared_mutable_containers", not sh,
                    f"containers of a loaded state are the same objects as containers of an earlier loaded state: {sh[:2]}"))
        if self._hyp_fix(case):
            badw = [j for j, t in enumerate(io["rewrites"]) if t != io["F"]]
            res.append(("history_resnapshot_reproduces_file", not badw,
                        f"write_snapshot of the state loaded by loads {badw} is not byte-identical to the file"))
        else:
            badw = [j for j, t in enumerate(io["rewrites"]) if t != io["rewrites"][0]]
            res.append(("history_resnapshot_stable", not badw, f"re-snapshots {badw} differ from the first re-snapshot"))
        return res

    def monitor_requests_raw(self, case, io):
        if not self._hyp_fix(case):
            return []
        return [("lean.fixpoint_on_impl_body",
                 {"c": "snap.mon", "k": "fixpoint", "bounds": bounds_req(case["cfg"]),
                  "in": ChainComp._write_in(case), "fresh": store_req(case["store"], fresh=True), "p": io["p1"]})]

    def tags_raw(self, case, io):
        t = {"op_" + o for o in io["applied_ops"]}
        t.add("loads_%d" % len(io["loads"]))
        if not io["applied_ops"]:
            t.add("no_effective_mutation")
        return sorted(t)

    def shrink_raw(self, case):
        steps = case["steps"]
        if len(steps) > 1:
            yield dict(case, steps=steps[:-1])
            yield dict(case, steps=steps[1:] and [[dict(o, target=0) for o in st] for st in steps[1:]])
        for a, st in enumerate(steps):
            for b in range(len(st)):
                if len(st) > 1:
                    yield dict(case, steps=steps[:a] + [st[:b] + st[b + 1:]] + steps[a + 1:])
        if case["store"]["kind"] != "absent":
            yield dict(case, store={"kind": "absent"})
        g = case.get("graph")
        if isinstance(g, dict):
            for k in ("edges", "nodes"):
                v = g.get(k)
                if isinstance(v, list):
                    for i in range(len(v)):
                        c = _copy(case)
                        del c["graph"][k][i]
                        yield c
                elif isinstance(v, dict):
                    for kk in list(v.keys()):
                        c = _copy(case)
                        del c["graph"][k][kk]
                        yield c

# --------------------------------------------------------------------------
# component 2: the sanitisers called directly (malformed-heavy)
# --------------------------------------------------------------------------

class SanitizeComp(Wrapped):
    name = "snap.sanitize"
    budget = {"quick": 500, "thorough": 15000, "search": 3000}

    def gen_raw(self, rng, i):
        cfg = gen_bounds(rng)
        lo, hi, _ = eff_bounds(cfg)
        return {"cfg": cfg, "gel": gen_gel(rng, lo, hi, True)}

    def impl_raw(self, case):
        from clematis.engine import snapshot as S
        ctx = NS(cfg=_copy(case["cfg"]))

        def call(f, g):
            try:
                return enc(f(_copy(g), ctx))
            except AttributeError:
                return None
        w = call(S._sanitize_gel_for_write, case["gel"])
        l = call(S._sanitize_gel_for_load, case["gel"])
        out = {"w": w, "l": l}
        if w is not None:
            out["ww"] = call(S._sanitize_gel_for_write, dec(w))
        return out

    def request_raw(self, case):
        return {"c": "snap.sanitize", "bounds": bounds_req(case["cfg"]), "gel": enc(case["gel"])}

    def compare_raw(self, case, io, mo):
        if isinstance(io, dict) and "__raised__" in io:
            return f"implementation raised {io}"
        return Component.compare(self, case, {"w": io["w"], "l": io["l"]}, mo)

    def monitors_raw(self, case, io):
        if io.get("w") is None:
            return []
        return [("sanitize_idempotent_on_impl", io["ww"] == io["w"], "sanitize(sanitize(g)) != sanitize(g) on the real code")]

    def tags_raw(self, case, io):
        t = set()
        if io.get("w") is None:
            t.add("raises_meta")
        else:
            g = case["gel"]
            if isinstance(g, dict):
                e = g.get("edges")
                n = len(e) if isinstance(e, (list, dict)) else 0
                if n and len(dec(io["w"])["edges"]) < n:
                    t.add("dropped_or_collapsed")
                if isinstance(g.get("nodes"), list):
                    t.add("nodes_list")
                if isinstance(g.get("meta"), dict) and "last_update" in g["meta"]:
                    t.add("last_update_overlay")
        return sorted(t) or ["default"]

    def shrink_raw(self, case):
        g = case.get("gel")
        if isinstance(g, dict):
            for k in list(g.keys()):
                c = _copy(case)
                del c["gel"][k]
                yield c


# --------------------------------------------------------------------------
# component 3: loading hand-made / legacy bodies
# --------------------------------------------------------------------------

class LoadComp(Wrapped):
    name = "snap.load"
    budget = {"quick": 300, "thorough": 8000, "search": 2000}

    def gen_raw(self, rng, i):
        cfg = gen_bounds(rng)
        lo, hi, _ = eff_bounds(cfg)
        r = rng.random()
        if r < 0.08:
            data: Any = rng.choice([{}, [], None, 0, "", False])
        elif r < 0.14:
            data = rng.choice([[1, 2], "body", 5, True])
        else:
            data = {}
            if rng.random() < 0.8:
                data["version_etag"] = rng.choice(["v9", "", 12, None, True, "é"])
            if rng.random() < 0.6:
                data["schema_version"] = rng.choice(["v1", "v0"])
            r2 = rng.random()
            if r2 < 0.5:
                data["gel"] = gen_gel(rng, lo, hi, True)
            elif r2 < 0.6:
                data["gel"] = None
            if rng.random() < 0.4:
                data["graph"] = rng.choice([gen_gel(rng, lo, hi, True),
                                            {"nodes_count": 1, "edges_count": 2, "meta": {"last_update": "t"}}])
            r3 = rng.random()
            if r3 < 0.3:
                ws = []
                for _ in range(rng.choice([0, 1, 3, 5])):
                    it: Any = {}
                    if rng.random() < 0.85:
                        it["target_kind"] = rng.choice(["node", "edge", 1, None])
                    if rng.random() < 0.85:
                        it["target_id"] = rng.choice(IDS + [3])
                    if rng.random() < 0.7:
                        it["attr"] = rng.choice(["weight", "b"])
                    if rng.random() < 0.9:
                        it["value"] = rng.choice([0.5, 1, -0.25, float("nan"), True, 1e-9] + ([None, "x"] if rng.random() < 0.15 else []))
                    if rng.random() < 0.05:
                        it = rng.choice([None, 5, "it"])
                    ws.append(it)
                data["store"] = {"weights": rng.choice([ws, ws, ws, None, "abc", 7, {}])}
            elif r3 < 0.45:
                data["store"] = {"state": rng.choice([{"a": [1, 2.5]}, None, 3])}
            elif r3 < 0.55:
                data["store"] = rng.choice([None, {}, [1], "s", {"state": 1, "weights": []}])
        fresh = rng.choice([{"kind": "absent"}, {"kind": "other"}, {"kind": "opaque", "st": None},
                            {"kind": "wmap", "w": []}, {"kind": "wmap", "w": [[["node", "old", "weight"], 0.75]]}])
        return {"cfg": cfg, "data": data, "fresh": fresh, "as_dict": rng.random() < 0.4,
                "name": rng.choice(["state_A.json", "snap_000007.json", "foreign.json"])}

    def impl_raw(self, case):
        from clematis.engine.snapshot import load_latest_snapshot
        d = _mkdtemp("load_")
        try:
            with open(os.path.join(d, case["name"]), "w", encoding="utf-8") as f:
                f.write(json.dumps(case["data"]))
            c = dict(case, turn=0, agent="A", via="cfg")
            ctx = mk_ctx(c, d)
            fresh = mk_state(case["as_dict"], mk_store(case["fresh"]), None, None, False, False)
            try:
                ret = load_latest_snapshot(ctx, fresh)
            except AttributeError:
                return None
            g = sget(fresh, "graph")
            ver = sget(fresh, "version_etag", None)
            has_ver = ("version_etag" in fresh) if isinstance(fresh, dict) else hasattr(fresh, "version_etag")
            return {"version": cps(ver) if has_ver and isinstance(ver, str) else None,
                    "store": obs_store(sget(fresh, "store")), "graph": enc(g),
                    "loaded": ret["loaded"], "ver": enc(ret["version_etag"])}
        finally:
            shutil.rmtree(d, ignore_errors=True)

    def request_raw(self, case):
        return {"c": "snap.load", "bounds": bounds_req(case["cfg"]), "data": enc(case["data"]),
                "fresh": store_req(case["fresh"])}

    def compare_raw(self, case, io, mo):
        if isinstance(io, dict) and "__raised__" in io:
            return f"implementation raised {io}"
        if io != mo:
            from harness.core import first_diff
            return first_diff(io, mo) if (io is not None and mo is not None) else f"impl={json.dumps(io)[:150]} model={json.dumps(mo)[:150]}"
        return None

    def monitors_raw(self, case, io):
        """A well-formed `store.weights` section replaces the target store's map (no stale entries)."""
        if io is None:
            return []
        d = case["data"]
        st = d.get("store") if isinstance(d, dict) else None
        if case["fresh"]["kind"] != "wmap" or not isinstance(st, dict) or not isinstance(st.get("weights"), list):
            return []
        exp: dict = {}
        for it in st["weights"]:
            if not isinstance(it, dict):
                return []
            v = it.get("value", 0.0)
            if isinstance(v, (str, type(None), list, dict)):
                return []
            key = (str(it.get("target_kind", "node")), str(it.get("target_id", "")), str(it.get("attr", "weight")))
            exp[key] = float(v)
        want = {"kind": "wmap", "w": [[[cps(p) for p in k], fkey(v)] for k, v in exp.items()]}
        return [("store_weights_replace_target_map", io["store"] == want,
                 f"store after load {json.dumps(io['store'])[:200]} expected {json.dumps(want)[:200]}")]

    def tags_raw(self, case, io):
        t = set()
        if io is None:
            t.add("body_not_dict_raises")
            return sorted(t)
        d = case["data"]
        if isinstance(d, dict):
            if d.get("gel") is None and "graph" in d:
                t.add("graph_fallback")
            if isinstance(d.get("store"), dict) and "weights" in d["store"]:
                t.add("weights_section")
            if isinstance(d.get("store"), dict) and "state" in d["store"]:
                t.add("state_import")
            if not meta_ok(d.get("gel")):
                t.add("meta_raises_defaults_kept")
        if io["loaded"]:
            t.add("loaded")
        return sorted(t) or ["default"]


# --------------------------------------------------------------------------
# component 4: discovery
# --------------------------------------------------------------------------

def _temp_suffix(rng):
    return "".join(rng.choice("abcdefghijklmnopqrstuvwxyz0123456789_") for _ in range(8))


class PickComp(Wrapped):
    name = "snap.pick"
    budget = {"quick": 400, "thorough": 6000, "search": 2000}

    def gen_raw(self, rng, i):
        names = set()
        k = rng.choice([0, 1, 2, 3, 5, 8])
        mode = rng.choice(["mixed", "mixed", "no_snap", "no_snap_no_state", "only_noise"])
        for _ in range(k):
            r = rng.random()
            if mode == "mixed" and r < 0.35:
                names.add("snap_%s.json" % rng.choice(["000123", "1", "01", "9", "10", "000009", "", "12a", "x", "٣"[:0] + "7"]))
            elif mode in ("mixed", "no_snap") and r < 0.6:
                names.add("state_%s.json" % rng.choice(["A", "B", "agent", "é", ""]))
            elif mode != "only_noise" and r < 0.8:
                names.add(rng.choice(["foreign.json", "x.json", ".json", "snapshot-abc.full.json", "snap_.json", "snap_1x.json", "astate_A.json"]))
            # noise that must never be picked
            base = rng.choice(["state_A.json", "snap_000999.json", "x.json"])
            q = rng.random()
            if q < 0.3:
                names.add(base + ".meta")
            elif q < 0.55:
                names.add(base + "." + _temp_suffix(rng))
            elif q < 0.65:
                names.add(rng.choice(["snap_5.json.zst", "snap_5.jsonl", "state_A.JSON", "notes.txt", "snap_77.json.bak", "json", "snap_3json"]))
        names = sorted(names)
        mt = [rng.choice([1000, 1000, 2000, 3000, 3000, 500]) + rng.choice([0, 0, 0.5]) for _ in names]
        return {"files": [[n, m] for n, m in zip(names, mt)]}

    def impl_raw(self, case):
        from clematis.engine.snapshot import _pick_latest_snapshot_path, load_latest_snapshot
        d = _mkdtemp("pick_")
        try:
            for n, m in case["files"]:
                p = os.path.join(d, n)
                with open(p, "w", encoding="utf-8") as f:
                    f.write(json.dumps({"version_etag": n, "schema_version": "v1"}) if n.endswith(".json") else "{not json")
                os.utime(p, ns=(int(m * 10 ** 9), int(m * 10 ** 9)))
            order = os.listdir(d)
            mts = {n: m for n, m in case["files"]}
            case["listing"] = [[n, int(mts[n] * 2)] for n in order]
            p = _pick_latest_snapshot_path(d)
            fresh = _State()
            fresh.store = None
            ret = load_latest_snapshot(NS(cfg={"t4": {"snapshot_dir": d}}), fresh)
            return {"picked": None if p is None else os.path.basename(p),
                    "in_dir": p is None or os.path.dirname(p) == d,
                    "load_path": None if ret["path"] is None else os.path.basename(ret["path"]),
                    "load_ver": ret["version_etag"]}
        finally:
            shutil.rmtree(d, ignore_errors=True)

    def request_raw(self, case):
        lst = case.get("listing") or [[n, int(m * 2)] for n, m in case["files"]]
        return {"c": "snap.pick", "listing": [[cps(n), m] for n, m in lst]}

    def compare_raw(self, case, io, mo):
        if isinstance(io, dict) and "__raised__" in io:
            return f"implementation raised {io}"
        exp = None if mo is None else uncps(mo)
        if io["picked"] != exp:
            return f"picked impl={io['picked']!r} model={exp!r}"
        return None

    def monitors_raw(self, case, io):
        p = io["picked"]
        names = [n for n, _ in case["files"]]
        res = [("pick_in_dir", io["in_dir"], "path outside directory")]
        res.append(("load_uses_pick", io["load_path"] == p and (p is None or io["load_ver"] == p),
                    f"load_latest_snapshot read {io['load_path']!r}/{io['load_ver']!r}, pick {p!r}"))
        if p is None:
            res.append(("none_only_without_json", not any(n.endswith(".json") for n in names), f"None with {names}"))
        else:
            res.append(("pick_is_json_member", p in names and p.endswith(".json") and not p.endswith(".meta"), f"picked {p!r}"))
            import re
            snaps = [n for n in names if re.fullmatch(r"snap_[0-9]+\.json", n)]
            states = [n for n in names if n.startswith("state_") and n.endswith(".json")]
            mts = dict(case["files"])
            if snaps:
                mx = max(int(n[5:-5]) for n in snaps)
                res.append(("precedence_snap", p in snaps and int(p[5:-5]) == mx, f"picked {p!r}, snaps {snaps}"))
            elif states:
                res.append(("precedence_state", p in states and mts.get(p) == max(mts[n] for n in states), f"picked {p!r}, states {states}"))
            else:
                js = [n for n in names if n.endswith(".json")]
                res.append(("precedence_any", bool(js) and p in mts and mts[p] == max(mts[n] for n in js), f"picked {p!r}"))
        return res

    def monitor_requests_raw(self, case, io):
        lst = case.get("listing") or [[n, int(m * 2)] for n, m in case["files"]]
        return [("lean.pick_ok", {"c": "snap.mon", "k": "pick", "listing": [[cps(n), m] for n, m in lst],
                                  "picked": None if io["picked"] is None else cps(io["picked"])})]

    def tags_raw(self, case, io):
        names = [n for n, _ in case["files"]]
        t = set()
        p = io["picked"]
        if p is None:
            t.add("none" if names else "empty_dir")
        elif p.startswith("snap_") and p[5:-5].isdigit():
            t.add("numbered")
        elif p.startswith("state_"):
            t.add("state")
        else:
            t.add("any_json")
        if any(n.endswith(".meta") for n in names):
            t.add("has_sidecar")
        if any(not n.endswith((".json", ".meta")) and ".json." in n for n in names):
            t.add("has_temp")
        return sorted(t) or ["default"]

    def shrink_raw(self, case):
        fs = case["files"]
        for i in range(len(fs)):
            yield {"files": fs[:i] + fs[i + 1:]}



# --------------------------------------------------------------------------
# component 4b: discovery against the temporaries the REAL atomic writer leaves behind
# --------------------------------------------------------------------------

# --------------------------------------------------------------------------
# component: writer → picker composition on REAL file times.  `snap.pick` pins mtimes with os.utime (the picker alone);
# here several agents write into one shared snapshot directory through the real `write_snapshot`, re-writing files
# that already exist, and the OS stamps the times.  "Loading the latest snapshot restores … what was written": the
# fresh state must receive the LAST write; every (re-)write must carry a time not older than any earlier write
# (a writer that preserves the times of the file it replaces keeps a stale snapshot "latest").
# --------------------------------------------------------------------------

class LastWriteComp(PickComp):
    name = "snap.lastwrite"
    budget = {"quick": 36, "thorough": 400, "search": 200}
    GAP_S = 0.02

    def gen_raw(self, rng, i):
        n = rng.choice([2, 3, 3, 4, 5])
        agents = ["A", "B", "agent"][:rng.choice([2, 2, 3])]
        seq = [rng.choice(agents) for _ in range(n)]
        if i % 3 == 0 and n >= 3:                      # the shape write(X) write(Y) write(X): an overwrite is the latest
            seq[0], seq[1], seq[-1] = agents[0], agents[1], agents[0]
        return {"cfg": {}, "via": rng.choice(["cfg", "config"]), "seq": [[a, f"v{j + 1}"] for j, a in enumerate(seq)],
                "store": {"kind": "wmap", "w": [[["node", "a", "weight"], 0.5]]}}

    def impl_raw(self, case):
        import time as _time
        from clematis.engine.snapshot import write_snapshot, load_latest_snapshot, _pick_latest_snapshot_path
        d = _mkdtemp("lastw_")
        try:
            with _Env():
                stamps = []
                last_path = None
                for j, (agent, ver) in enumerate(case["seq"]):
                    if j:
                        _time.sleep(self.GAP_S)
                    ctx = mk_ctx({"cfg": case["cfg"], "via": case["via"], "turn": j + 1, "agent": agent}, d)
                    sd = {"kind": "wmap", "w": [[["node", "a", "weight"], (j + 1) / 8.0]]}
                    st = mk_state(False, mk_store(sd), None, None, False, False)
                    last_path = write_snapshot(ctx, st, ver, 0, None)
                    stamps.append(os.stat(last_path).st_mtime_ns)
                names = os.listdir(d)
                mt = {n: os.stat(os.path.join(d, n)).st_mtime_ns for n in names}
                rank = {m: r for r, m in enumerate(sorted(set(mt.values())))}
                case["listing"] = [[n, rank[mt[n]]] for n in names]
                p = _pick_latest_snapshot_path(d)
                ctx = mk_ctx({"cfg": case["cfg"], "via": case["via"], "turn": 0, "agent": "reader"}, d)
                fresh = mk_state(False, mk_store(case["store"], fresh=True), None, None, False, False)
                ret = load_latest_snapshot(ctx, fresh)
                return {"picked": None if p is None else os.path.basename(p), "in_dir": p is None or os.path.dirname(p) == d,
                        "load_path": None if ret["path"] is None else os.path.basename(ret["path"]),
                        "load_ver": ret["version_etag"], "last_file": os.path.basename(last_path),
                        "last_ver": case["seq"][-1][1], "store": obs_store(sget(fresh, "store")),
                        "last_w": (len(case["seq"])) / 8.0,
                        "stamps_non_decreasing": all(a <= b for a, b in zip(stamps, stamps[1:])),
                        "stamps_distinct": len(set(stamps)) == len(stamps)}
        finally:
            shutil.rmtree(d, ignore_errors=True)

    def request_raw(self, case):
        lst = case.get("listing") or []
        return {"c": "snap.pick", "listing": [[cps(n), m] for n, m in lst]}

    def monitors_raw(self, case, io):
        if not isinstance(io, dict) or "__raised__" in io:
            return [("lastwrite_total", False, f"raised {io}")]
        if not io["stamps_distinct"] and io["stamps_non_decreasing"]:
            return []    # the OS clock did not separate two writes (coarse timestamps): nothing can be concluded
        return [("rewrite_carries_a_newer_time", io["stamps_non_decreasing"],
                 "a later write_snapshot left an OLDER mtime on its file than an earlier write in the same directory"),
                ("latest_written_is_loaded", io["load_path"] == io["last_file"] and io["load_ver"] == io["last_ver"],
                 f"writes {case['seq']} then load_latest_snapshot: restored {io['load_path']} version {io['load_ver']!r}, "
                 f"the last write was {io['last_file']} version {io['last_ver']!r}")]

    def tags_raw(self, case, io):
        seq = [a for a, _ in case["seq"]]
        return ["lastwrite:" + ("overwrite_last" if seq[-1] in seq[:-1] else "new_file_last"), f"lastwrite:n{len(seq)}"]

    def shrink_raw(self, case):
        seq = case["seq"]
        for i in range(len(seq) - 1):
            if len(seq) > 2:
                yield dict(case, seq=seq[:i] + seq[i + 1:])


class _Crash(BaseException):
    """Writer dies between writing the temp body and os.replace (not an Exception: nothing catches it)."""


class TempComp(Wrapped):
    name = "snap.temps"
    budget = {"quick": 150, "thorough": 2500, "search": 1500}

    def gen_raw(self, rng, i):
        return {"agent": rng.choice(["A", "agent", "é_1", "x.y", "B"]),
                "committed": rng.random() < 0.8,
                "make_tmp": rng.choice([0, 1, 1, 2]),          # orphans made by the real _make_tmp per final name
                "tmp_sidecar": rng.random() < 0.5,
                "crash_writes": rng.choice([0, 1, 1, 2]),      # real write_snapshot runs killed at os.replace
                "other_agent": rng.random() < 0.3,            # an older committed snapshot of another agent
                "orphan_body": rng.choice(["full", "full", "mini", "garbage"])}

    def impl_raw(self, case):
        from pathlib import Path
        from clematis.engine.snapshot import write_snapshot, load_latest_snapshot, _pick_latest_snapshot_path
        from clematis.io import atomic as A
        d = _mkdtemp("temps_")
        try:
            with _Env():
                ctx = NS(turn_id=1, agent_id=case["agent"], cfg={"t4": {"snapshot_dir": d}})
                mt = {}

                def touch(name, t):
                    os.utime(os.path.join(d, name), ns=(t * 10 ** 9, t * 10 ** 9))
                    mt[name] = t
                st = _State()
                st.store = None
                st.graph = {"nodes": {"a": {"id": "a"}}, "edges": [{"src": "a", "dst": "b", "weight": 0.25}]}
                final = f"state_{case['agent']}.json"
                if case["other_agent"]:
                    write_snapshot(NS(turn_id=0, agent_id="zz_other", cfg=ctx.cfg), st, "v_other", 0, [])
                    for n in os.listdir(d):
                        touch(n, 500)
                if case["committed"]:
                    write_snapshot(ctx, st, "v_committed", 0, [])
                    touch(final, 1000)
                    touch(final + ".meta", 1000)
                before = set(os.listdir(d))
                # (a) the real temp-name factory
                finals = [final] + ([final + ".meta"] if case["tmp_sidecar"] else [])
                for _ in range(case["make_tmp"]):
                    for fn in finals:
                        tp = A._make_tmp(Path(d) / fn)
                        body = {"full": json.dumps({"version_etag": "v_uncommitted", "schema_version": "v1", "gel": {"nodes": {}, "edges": {}}}),
                                "mini": json.dumps({"version_etag": "v_uncommitted"}), "garbage": "{\"version_etag\": \"v_unc"}[case["orphan_body"]]
                        Path(tp).write_text(body, encoding="utf-8")
                # (b) the real writer, killed at os.replace
                real_replace = os.replace

                def dying_replace(src, dst, *a, **k):
                    if os.path.dirname(os.path.abspath(str(dst))) == os.path.abspath(d):
                        raise _Crash()
                    return real_replace(src, dst, *a, **k)
                crashed = 0
                for _ in range(case["crash_writes"]):
                    os.replace = dying_replace
                    try:
                        write_snapshot(ctx, st, "v_uncommitted", 1, [])
                    except _Crash:
                        crashed += 1
                    finally:
                        os.replace = real_replace
                temps = sorted(set(os.listdir(d)) - before)
                for n in temps:
                    touch(n, 3000)
                order = os.listdir(d)
                case["listing"] = [[n, int(mt.get(n, 0))] for n in order]
                p = _pick_latest_snapshot_path(d)
                fresh = _State()
                fresh.store = None
                ret = load_latest_snapshot(ctx, fresh)
                return {"temps": temps, "crashed": crashed, "names": sorted(order),
                        "picked": None if p is None else os.path.basename(p),
                        "load_path": None if ret["path"] is None else os.path.basename(ret["path"]),
                        "load_ver": ret["version_etag"], "loaded": ret["loaded"],
                        "state_ver": getattr(fresh, "version_etag", None)}
        finally:
            shutil.rmtree(d, ignore_errors=True)

    def request_raw(self, case):
        return {"c": "snap.pick", "listing": [[cps(n), m] for n, m in case.get("listing", [])]}

    def compare_raw(self, case, io, mo):
        if isinstance(io, dict) and "__raised__" in io:
            return f"implementation raised {io}"
        exp = None if mo is None else uncps(mo)
        if io["picked"] != exp:
            return f"picked impl={io['picked']!r} model={exp!r}"
        return None

    def monitors_raw(self, case, io):
        final = f"state_{case['agent']}.json"
        res = [("crash_leaves_orphan_temp", io["crashed"] == case["crash_writes"]
                and len(io["temps"]) >= case["crash_writes"] + case["make_tmp"] * (2 if case["tmp_sidecar"] else 1),
                f"crashed={io['crashed']} temps={io['temps']}"),
               ("pick_never_a_real_temp", io["picked"] not in io["temps"] and io["load_path"] not in io["temps"],
                f"picked {io['picked']!r} / loaded {io['load_path']!r}; temps produced by the real writer: {io['temps']}")]
        if case["committed"]:
            res.append(("loaded_version_is_the_committed_one",
                        io["picked"] == final and io["load_ver"] == "v_committed" and io["state_ver"] == "v_committed",
                        f"picked {io['picked']!r}, returned {io['load_ver']!r}, state.version_etag {io['state_ver']!r}"))
        elif case["other_agent"]:
            res.append(("loaded_version_is_a_committed_one", io["load_ver"] == "v_other" and io["state_ver"] == "v_other",
                        f"returned {io['load_ver']!r}"))
        else:
            res.append(("nothing_committed_nothing_loaded",
                        io["picked"] is None and io["loaded"] is False and io["state_ver"] is None,
                        f"picked {io['picked']!r} loaded={io['loaded']} version {io['state_ver']!r}"))
        return res

    def monitor_requests_raw(self, case, io):
        rq = [("lean.pick_ok", {"c": "snap.mon", "k": "pick", "listing": [[cps(n), m] for n, m in case.get("listing", [])],
                                "picked": None if io["picked"] is None else cps(io["picked"])})]
        if io["temps"]:
            rq.append(("lean.real_temps_have_temp_shape", {"c": "snap.mon", "k": "tempshape", "names": [cps(n) for n in io["temps"]]}))
        return rq

    def tags_raw(self, case, io):
        t = set()
        if io["temps"]:
            t.add("orphan_temps")
        if io["crashed"]:
            t.add("writer_killed_at_replace")
        if any(n.endswith(".meta") or ".meta." in n for n in io["temps"]):
            t.add("sidecar_temp")
        t.add("committed" if case["committed"] else ("only_other_agent" if case["other_agent"] else "nothing_committed"))
        return sorted(t)

    def shrink_raw(self, case):
        for k, v in (("make_tmp", 0), ("crash_writes", 0), ("tmp_sidecar", False), ("other_agent", False)):
            if case[k] != v:
                yield dict(case, **{k: v})
        if case["crash_writes"] > 1:
            yield dict(case, crash_writes=1)
        if case["make_tmp"] > 1:
            yield dict(case, make_tmp=1)


# --------------------------------------------------------------------------
# component 4c: the `.meta` sidecar is a function of the write, not of what was there before
# --------------------------------------------------------------------------

SIDECAR_SEEDS = ["none", "v0", "v9", "null_marker", "no_marker_extra", "v1_extra", "v1_old_created", "list", "string",
                 "number", "garbage", "empty", "meta_is_dir", "marker_int", "marker_empty", "nested_extra"]


def _seed_sidecar_text(shape: str):
    """text for a pre-existing sidecar left by 'another writer' (None = nothing / directory)"""
    old = "2001-02-03T04:05:06Z"
    return {
        "v0": json.dumps({"schema_version": "v0", "created_at": old}) + "\n",
        "v9": json.dumps({"created_at": old, "schema_version": "v9-unknown"}),
        "null_marker": json.dumps({"schema_version": None, "created_at": old}) + "\n",
        "no_marker_extra": json.dumps({"created_at": old, "tool": "ops-backup", "n": 3}) + "\n",
        "v1_extra": json.dumps({"schema_version": "v1", "created_at": old, "note": "kept?"}) + "\n",
        "v1_old_created": json.dumps({"created_at": old, "schema_version": "v1"}, sort_keys=True) + "\n",
        "list": "[1, 2, 3]\n", "string": "\"v0\"\n", "number": "7", "garbage": "{\"schema_version\": \"v",
        "empty": "", "marker_int": json.dumps({"schema_version": 1}), "marker_empty": json.dumps({"schema_version": ""}),
        "nested_extra": json.dumps({"schema_version": "v0", "created_at": {"at": old}, "x": [1, {"y": None}]}),
    }.get(shape)


def _iso(epoch: int) -> str:
    import time as _t
    return _t.strftime("%Y-%m-%dT%H:%M:%SZ", _t.gmtime(epoch))


class SidecarComp(Wrapped):
    name = "snap.sidecar"
    budget = {"quick": 250, "thorough": 4000, "search": 1500}

    def gen_raw(self, rng, i):
        writer = rng.choice(["write_snapshot", "write_snapshot", "auto_full", "auto_delta"])
        n = rng.choice([1, 1, 2, 3])
        return {"writer": writer, "agent": rng.choice(["A", "agent", "é_1"]),
                "etag": rng.choice(["e1", "000123", "é"]),
                "seed": rng.choice(SIDECAR_SEEDS), "seed_baseline": rng.choice(SIDECAR_SEEDS[:8]),
                "reseed_between": rng.random() < 0.25,     # another writer drops a stale sidecar again between two writes
                "epochs": [rng.choice([0, 1, 86399, 951782400, 1700000000, 1700000001, 4102444800]) for _ in range(n)],
                "versions": ["v%d" % k for k in range(n)]}

    @staticmethod
    def _seed(path_meta: str, shape: str) -> None:
        if os.path.isdir(path_meta):
            return
        if shape == "meta_is_dir":
            os.makedirs(path_meta, exist_ok=True)
            return
        txt = _seed_sidecar_text(shape)
        if txt is None:
            return
        with open(path_meta, "w", encoding="utf-8") as f:
            f.write(txt)

    def impl_raw(self, case):
        from clematis.engine import snapshot as S
        d = _mkdtemp("side_")
        old_env = os.environ.get("SOURCE_DATE_EPOCH")
        try:
            w = case["writer"]
            if w == "write_snapshot":
                fname = f"state_{case['agent']}.json"
            elif w == "auto_full":
                fname = f"snapshot-{case['etag']}.full.json"
            else:
                fname = f"snapshot-{case['etag']}.delta.json"
            target = os.path.join(d, fname)
            self._seed(target + ".meta", case["seed"])
            out: dict = {"fname": fname, "writes": []}
            base_payload = {"schema_version": "v1", "version_etag": "base", "gel": {"nodes": {}, "edges": {}}, "store": {}}
            if w == "auto_delta":
                bname = "snapshot-base0.full.json"
                self._seed(os.path.join(d, bname) + ".meta", case["seed_baseline"])
                os.environ["SOURCE_DATE_EPOCH"] = "946684800"
                bp, _ = S.write_snapshot_auto(d, etag_from=None, etag_to="base0", payload=base_payload)
                out["baseline"] = self._read_sidecar(bp)
                out["baseline_ok"] = os.path.basename(bp) == bname
            st = _State()
            st.store = None
            st.graph = {"nodes": {"a": {"id": "a"}}, "edges": [{"src": "a", "dst": "b", "weight": 0.25}]}
            ctx = NS(turn_id=1, agent_id=case["agent"], cfg={"t4": {"snapshot_dir": d}})
            for k, ep in enumerate(case["epochs"]):
                if k and case["reseed_between"] and not os.path.isdir(target + ".meta"):
                    self._seed(target + ".meta", case["seed"])
                os.environ["SOURCE_DATE_EPOCH"] = str(ep)
                try:
                    if w == "write_snapshot":
                        path = S.write_snapshot(ctx, st, case["versions"][k], k, [])
                        body_marker = json.loads(open(path, encoding="utf-8").read()).get("schema_version")
                    else:
                        payload = dict(base_payload, version_etag=case["versions"][k], turn=k)
                        path, wrote_delta = S.write_snapshot_auto(
                            d, etag_from="base0" if w == "auto_delta" else None, etag_to=case["etag"],
                            payload=payload, delta_mode=(w == "auto_delta"))
                        body_marker = "v1" if (wrote_delta == (w == "auto_delta")) else "wrong-file-kind"
                    rec = self._read_sidecar(path)
                    rec["path_ok"] = os.path.basename(path) == fname
                    rec["body_marker"] = body_marker
                except Exception as e:  # a writer that raises has not written a snapshot
                    rec = {"raised": type(e).__name__}
                out["writes"].append(rec)
            out["listing"] = sorted(os.listdir(d))
            return out
        finally:
            if old_env is None:
                os.environ.pop("SOURCE_DATE_EPOCH", None)
            else:
                os.environ["SOURCE_DATE_EPOCH"] = old_env
            shutil.rmtree(d, ignore_errors=True)

    @staticmethod
    def _read_sidecar(path: str) -> dict:
        mp = path + ".meta"
        if os.path.isdir(mp):
            return {"kind": "dir"}
        if not os.path.exists(mp):
            return {"kind": "missing"}
        with open(mp, "rb") as f:
            raw = f.read()
        try:
            return {"kind": "file", "text": raw.decode("utf-8")}
        except Exception:
            return {"kind": "file", "text": None}

    def request_raw(self, case):
        eps = list(case["epochs"]) + ([946684800] if case["writer"] == "auto_delta" else [])
        return {"c": "snap.sidecar", "created": [cps(_iso(e)) for e in eps]}

    @staticmethod
    def _expected_text(model_j) -> str:
        return json.dumps(dec(model_j), ensure_ascii=False) + "\n"

    def compare_raw(self, case, io, mo):
        if isinstance(io, dict) and "__raised__" in io:
            return f"implementation raised {io}"
        if not isinstance(mo, list):
            return f"model error {mo}"
        blocked = case["seed"] == "meta_is_dir"
        for k, rec in enumerate(io["writes"]):
            if "raised" in rec:
                return f"write #{k} raised {rec['raised']}"
            if blocked:
                if rec["kind"] != "dir":
                    return f"write #{k}: sidecar path was a directory, now {rec['kind']}"
                continue
            if rec["kind"] != "file" or rec["text"] != self._expected_text(mo[k]):
                return f"write #{k}: sidecar {rec.get('text')!r} model {self._expected_text(mo[k])!r}"
        if case["writer"] == "auto_delta" and case["seed_baseline"] != "meta_is_dir":
            b = io["baseline"]
            if b["kind"] != "file" or b["text"] != self._expected_text(mo[-1]):
                return f"baseline sidecar {b.get('text')!r} model {self._expected_text(mo[-1])!r}"
        return None

    def monitors_raw(self, case, io):
        res = []
        recs = [(f"write #{k}", r, case["epochs"][k], case["seed"]) for k, r in enumerate(io["writes"])]
        if case["writer"] == "auto_delta":
            recs.append(("baseline write", io["baseline"], 946684800, case["seed_baseline"]))
            res.append(("delta_writer_wrote_expected_files", io["baseline_ok"], f"listing {io['listing']}"))
        for what, r, ep, seed in recs:
            if "raised" in r:
                res.append(("writer_does_not_raise_on_foreign_sidecar", False, f"{what} raised {r['raised']} (pre-existing sidecar shape {seed})"))
                continue
            if "path_ok" in r:
                res.append(("writer_wrote_expected_file", r["path_ok"] and r["body_marker"] == "v1",
                            f"{what}: path_ok={r['path_ok']} body marker {r['body_marker']!r}"))
            if seed == "meta_is_dir":
                continue  # the sidecar cannot be written at all (its path is a directory); the body write still succeeded
            ok_parse, obj = True, None
            try:
                obj = json.loads(r["text"]) if r["kind"] == "file" and r["text"] is not None else None
            except Exception:
                ok_parse = False
            res.append(("sidecar_parses_after_write", ok_parse and isinstance(obj, dict),
                        f"{what}: sidecar {r.get('text')!r} (pre-existing shape {seed})"))
            res.append(("sidecar_carries_frozen_marker", isinstance(obj, dict) and obj.get("schema_version") == "v1",
                        f"{what}: sidecar {r.get('text')!r} after a write over a pre-existing sidecar of shape {seed}"))
            exp = {"created_at": _iso(ep), "schema_version": "v1"}
            res.append(("sidecar_is_a_function_of_the_write",
                        obj == exp and r["text"] == json.dumps(exp, ensure_ascii=False, sort_keys=True) + "\n",
                        f"{what}: sidecar {r.get('text')!r}, expected exactly {exp} (pre-existing shape {seed})"))
        return res

    def monitor_requests_raw(self, case, io):
        rq = []
        recs = list(zip(io["writes"], [case["seed"]] * len(io["writes"])))
        if case["writer"] == "auto_delta":
            recs.append((io["baseline"], case["seed_baseline"]))
        for r, seed in recs:
            if "raised" in r or seed == "meta_is_dir":
                continue
            try:
                obj = json.loads(r["text"])
                w = enc(obj)
            except Exception:
                w = None
            rq.append(("lean.sidecar_marker", {"c": "snap.mon", "k": "marker", "p": w}))
        return rq

    def tags_raw(self, case, io):
        t = {"seed_" + case["seed"], "writer_" + case["writer"], "writes_%d" % len(case["epochs"])}
        if case["reseed_between"] and len(case["epochs"]) > 1:
            t.add("reseeded_between_writes")
        if len(set(case["epochs"])) > 1:
            t.add("clock_moves")
        return sorted(t)

    def shrink_raw(self, case):
        if len(case["epochs"]) > 1:
            yield dict(case, epochs=case["epochs"][:-1], versions=case["versions"][:-1])
            yield dict(case, epochs=case["epochs"][1:], versions=case["versions"][1:])
        if case["reseed_between"]:
            yield dict(case, reseed_between=False)
        if case["writer"] != "write_snapshot":
            yield dict(case, writer="write_snapshot")

# --------------------------------------------------------------------------
# component 5: round(x, 6) — bit-exact reimplementation and the assumed laws
# --------------------------------------------------------------------------

class RoundComp(Wrapped):
    name = "snap.round6"
    budget = {"quick": 60, "thorough": 1500, "search": 300}

    def gen_raw(self, rng, i):
        import struct
        xs = []
        for _ in range(200):
            r = rng.random()
            if r < 0.2:
                x = rng.uniform(-2, 2)
            elif r < 0.35:
                x = rng.randrange(-3000000, 3000000) / 1e6 + rng.choice([0, 5e-7, -5e-7, 4.9999e-7, 1e-12])
            elif r < 0.5:
                x = (rng.randrange(-2 ** 30, 2 ** 30) + 0.5) / 2 ** rng.randrange(0, 40)
            elif r < 0.6:
                x = struct.unpack("<d", struct.pack("<Q", rng.getrandbits(64)))[0]
            elif r < 0.7:
                x = rng.uniform(-1, 1) * 10 ** rng.randrange(-320, 300)
            elif r < 0.8:
                x = rng.randrange(1, 2 ** 53) * 2.0 ** rng.randrange(-60, 10)
            elif r < 0.9:
                x = (2 * rng.randrange(0, 10 ** 7) + 1) * 5e-7
            else:
                x = rng.choice([0.0, -0.0, 5e-7, -5e-7, 1.5e-6, 2.5e-6, 0.5, 1e16, 9007199254.740993,
                                4503599627370495.5, 2.0 ** 52, 1e-320, 5e-324, 1.7976931348623157e308,
                                float("nan"), float("inf"), float("-inf")])
            xs.append(f2b(x))
        return {"xs": xs}

    def impl_raw(self, case):
        from clematis.engine.snapshot import _round6
        return [f2b(_round6(b2f(x))) for x in case["xs"]]

    def request_raw(self, case):
        return {"c": "snap.round6", "xs": case["xs"]}

    def monitors_raw(self, case, io):
        """The laws `Clem.Snap.WLaws` assumes of `round`, on the real function."""
        from clematis.engine.snapshot import _round6
        xs = sorted((b2f(x) for x in case["xs"] if math.isfinite(b2f(x))))
        ok_idem = all(f2b(_round6(_round6(x))) == f2b(_round6(x)) for x in xs)
        ok_fin = all(math.isfinite(_round6(x)) for x in xs)
        ok_mono = all(_round6(a) <= _round6(b) for a, b in zip(xs, xs[1:]))
        ok_6 = all(f2b(_round6(k / 1e6)) == f2b(k / 1e6) for k in range(-50, 50))
        # constant between x and round(x): y in [x, round x) or (round x, x]  ->  round y == round x
        ok_const = True
        for x in xs:
            r = _round6(x)
            if r == x or abs(x) > 1e15:
                continue
            for t in (0.0, 0.25, 0.5, 0.999):
                y = x + (r - x) * t
                if (x <= y < r) or (r < y <= x):
                    if f2b(_round6(y)) != f2b(r):
                        ok_const = False
        ok_zero = f2b(_round6(0.0)) == f2b(0.0)
        return [("round6_idempotent", ok_idem, ""), ("round6_finite", ok_fin, ""), ("round6_monotone", ok_mono, ""),
                ("round6_fixes_6_decimals", ok_6, ""), ("round6_constant_towards_result", ok_const, ""),
                ("round6_zero", ok_zero, "")]

    def tags_raw(self, case, io):
        return ["batch"]


COMPONENTS = [ChainComp(), WeightComp(), HistoryComp(), SanitizeComp(), LoadComp(), PickComp(), LastWriteComp(), TempComp(), SidecarComp(), RoundComp()]


def _setup(ctx: Ctx) -> None:
    global _SCRATCH
    _SCRATCH = str(ctx.scratch)


def run(ctx: Ctx) -> None:
    _setup(ctx)
    for comp in COMPONENTS:
        run_component(ctx, comp)


def replay(ctx: Ctx, rec: dict) -> int:
    from harness.core import generic_replay
    _setup(ctx)
    return generic_replay(ctx, rec, {c.name: c for c in COMPONENTS})
